"""connlib: shared by C01, C03, C13 (and C11, C02): case generation for the single-connection
driver (harness/Conn_driver.cc vs the extracted Conn_Model), and the property oracles evaluated
on the IMPLEMENTATION's output only (plain Python, independent of the Coq model)."""
import os, re, zlib, glob
import vlib

WRAP = ["write", "readv", "gettimeofday", "pthread_mutex_lock", "shutdown"]


def crc(b):
    return "%08x" % (zlib.crc32(b) & 0xffffffff)


_cache = {}


def payload(spec):
    if spec in _cache:
        return _cache[spec]
    if spec == "-":
        r = b""
    elif spec.startswith("@"):
        ln, seed = spec[1:].split(":")
        x = (int(seed) & 0xffffffff) | 1
        out = bytearray()
        for _ in range(int(ln)):
            x ^= (x << 13) & 0xffffffff
            x ^= x >> 17
            x ^= (x << 5) & 0xffffffff
            out.append(x & 255)
        r = bytes(out)
    else:
        r = bytes.fromhex(spec)
    if len(_cache) < 50000:
        _cache[spec] = r
    return r


LINE = re.compile(r"^(?:steps=(\S+) )?(ok|rejected) ev=(\S+) st=(\d) out=(\d+):(\w+) in=(\d+):(\w+) wr=(\d) rd=(\d) reg=(\d) "
                  r"pend=(\d+) wire=(\d+):(\w+) fin=(\d)$")


class Obs:
    __slots__ = ("steps", "status", "ev", "st", "out", "outc", "inn", "inc", "wr", "rd", "reg", "pend", "wire", "wirec", "fin")


def parse_line(l):
    m = LINE.match(l)
    if not m:
        return None
    o = Obs()
    o.steps = [] if m.group(1) in (None, "-") else [s.split("/") for s in m.group(1).split(";")]
    o.status = m.group(2)
    o.ev = [] if m.group(3) == "-" else m.group(3).split(",")
    o.st = int(m.group(4))
    o.out, o.outc = int(m.group(5)), m.group(6)
    o.inn, o.inc = int(m.group(7)), m.group(8)
    o.wr, o.rd, o.reg = int(m.group(9)), int(m.group(10)), int(m.group(11))
    o.pend = int(m.group(12))
    o.wire, o.wirec = int(m.group(13)), m.group(14)
    o.fin = int(m.group(15))
    return o


def kres_takes(k, n):
    """bytes a scripted answer takes of n offered; None = error"""
    if k == "all":
        return n
    if k.startswith("a"):
        return min(int(k[1:]), n)
    return None


FATAL = ("epipe", "econnreset")
CONNECTED, DISCONNECTING, DISCONNECTED, CONNECTING = 2, 3, 0, 1


class Trace:
    """Everything the oracles need, reconstructed from the case and the implementation's lines."""

    def __init__(self, case, lines):
        self.case = case
        self.bad = None
        self.obs = []          # Obs per op (None-padded)
        self.final_stream = None
        self.final_in = None
        hdr = case.header.split()
        self.hwm, self.has_wc, self.has_hw = int(hdr[0]), hdr[1] == "1", hdr[2] == "1"
        body = lines[1:]
        for i, op in enumerate(case.ops):
            if i >= len(body):
                self.bad = (i, "missing output line")
                return
            o = parse_line(body[i])
            if o is None:
                self.bad = (i, "unparsable line %r" % body[i])
                return
            self.obs.append(o)
        for l in body[len(case.ops):]:
            if l.startswith("stream="):
                a, b = l.split()
                self.final_stream = a[len("stream="):]
                self.final_in = b[len("inbuf="):]


def events(tr):
    """flat list of (op index, event string) in emission order"""
    out = []
    for i, o in enumerate(tr.obs):
        for e in o.ev:
            if not e.startswith("BufLeft:"):      # a driver observation of send(Buffer*), not a callback
                out.append((i, e))
    return out


# ------------------------------------------------------------------------------------------------
# Oracles.  Each returns a list of (op index, key, message); key is a finding signature or None.
# ------------------------------------------------------------------------------------------------

def walk(tr):
    """Replays the *bookkeeping the property talks about* from the observations: which blocks were
    accepted by send(), in which order sendInLoop ran them, the backlog before/after every write
    attempt, and the functor queue composition.  Yields nothing; fills tr.* lists."""
    ops = tr.case.ops
    tr.sent = []          # blocks in sendInLoop order: dict(data, op, origin, state_at_run, dropped_ok)
    tr.calls = []         # send() calls in call order: dict(data, op, accepted, ran)
    tr.emptied = 0        # backlog-emptied events (expected write-complete count when has_wc)
    tr.hw_expected = []   # expected high-water values in order
    tr.issues = []
    queue = []            # tags of pending functors: ("send", call) | ("x",)
    prev = None
    chk = {}
    fatal_seen = False
    for i, op in enumerate(ops):
        o = tr.obs[i]
        t = op.split()
        k = t[0]
        pre = prev
        pre_st = pre.st if pre else CONNECTING
        pre_out = pre.out if pre else 0
        pre_wr = pre.wr if pre else 0
        pre_pend = pre.pend if pre else 0
        pre_fin = pre.fin if pre else 0
        if o.status == "rejected":
            prev = o
            continue

        def send_in_loop(data, kres, st, out, wr, fin, post_out, post_wire_delta):
            """the property-level expectation for one sendInLoop; returns dict"""
            r = {"wc": 0, "hw": None, "taken": 0, "fatal": False, "gave_up": st == DISCONNECTED}
            if st == DISCONNECTED:
                return r
            direct = (wr == 0 and out == 0)
            n = len(data)
            taken = 0
            if direct:
                kk = "epipe" if fin else kres
                tk = kres_takes(kk, n)
                if tk is None:
                    r["fatal"] = kk in FATAL
                    taken = 0
                else:
                    taken = tk
                    if taken == n:
                        r["wc"] = 1
            r["taken"] = taken
            rem = n - taken
            if not r["fatal"] and rem > 0:
                if out < tr.hwm <= out + rem:
                    r["hw"] = out + rem
            return r

        if k == "SEND":
            data = payload(t[1])
            call = {"data": data, "op": i, "accepted": pre_st == CONNECTED, "origin": "loop"}
            tr.calls.append(call)
            if call["accepted"]:
                e = send_in_loop(data, t[2], pre_st, pre_out, pre_wr, pre_fin, o.out, o.wire - (pre.wire if pre else 0))
                call["ran"] = i
                call["fatal"] = e["fatal"]
                tr.sent.append(call)
                fatal_seen |= e["fatal"]
                tr.emptied += e["wc"]
                if e["hw"] is not None:
                    tr.hw_expected.append((i, e["hw"]))
        elif k == "FSC":
            chk[t[1]] = (pre_st == CONNECTED)
        elif k == "FSE":
            if chk.get(t[1], False):
                call = {"data": payload(t[2]), "op": i, "accepted": True, "origin": "foreign:" + t[1]}
                tr.calls.append(call)
                queue.append(("send", call))
            chk[t[1]] = False
        elif k in ("XSHUT",):
            if pre_st == CONNECTED:
                queue.append(("x",))
        elif k == "FC":
            if pre_st in (CONNECTED, DISCONNECTING):
                queue.append(("x",))
        elif k == "DFIRE":
            if pre_st in (CONNECTED, DISCONNECTING):
                queue.append(("x",))
        elif k in ("XSR", "XSP"):
            queue.append(("x",))
        elif k == "EVW":
            if pre_wr == 1 and pre_out > 0 and o.out == 0:
                tr.emptied += 1
        elif k == "RUN":
            n = len(queue)
            if n != pre_pend:
                # functors queued internally (write-complete, high-water, connectDestroyed) are 'x'
                pass
            batch, queue = queue[:pre_pend], queue[pre_pend:]
            ks = t[1:]
            st, out, wr, fin, wire = pre_st, pre_out, pre_wr, pre_fin, (pre.wire if pre else 0)
            if len(o.steps) != len(batch):
                tr.issues.append((i, None, "batch of %d functors, %d step records" % (len(batch), len(o.steps))))
            for j, f in enumerate(batch):
                if j >= len(o.steps):
                    break
                s_ev, s_out, s_wr, s_st, s_wire, s_fin = o.steps[j]
                s_out, s_wr, s_st, s_wire, s_fin = int(s_out), int(s_wr), int(s_st), int(s_wire), int(s_fin)
                if f[0] == "send":
                    call = f[1]
                    uses = (st != DISCONNECTED and wr == 0 and out == 0)
                    kk = (ks.pop(0) if ks else "all") if uses else "all"
                    e = send_in_loop(call["data"], kk, st, out, wr, fin, s_out, s_wire - wire)
                    call["ran"] = i
                    call["fatal"] = e["fatal"]
                    call["gave_up"] = e["gave_up"]
                    call["state_at_run"] = st
                    call["fin_at_run"] = fin
                    tr.sent.append(call)
                    fatal_seen |= e["fatal"]
                    tr.emptied += e["wc"]
                    if e["hw"] is not None:
                        tr.hw_expected.append((i, e["hw"]))
                st, out, wr, fin, wire = s_st, s_out, s_wr, s_fin, s_wire
        # functors queued internally by this op: pend grew by more than our external pushes
        expect_len = len(queue)
        if o.pend > expect_len:
            queue += [("x",)] * (o.pend - expect_len)
        elif o.pend < expect_len:
            tr.issues.append((i, None, "functor queue shorter (%d) than the sends/requests issued (%d)" % (o.pend, expect_len)))
            queue = queue[:o.pend]
        prev = o
    tr.fatal_seen = fatal_seen
    tr.queue_left = queue


def down_ops(tr):
    """index of the first op that can bring the connection down or half-close it, else None"""
    for i, op in enumerate(tr.case.ops):
        if op.split()[0] in ("EOF", "HUP", "FC", "FCD", "DFIRE", "ODESTROY", "SHUT", "XSHUT"):
            return i
    return None


def subseq_concat(stream, blocks):
    """is `stream` the concatenation of a sub-list of `blocks` (in order)?  DP over positions."""
    poss = {0}
    for b in blocks:
        nxt = set(poss)
        for p in poss:
            if stream[p:p + len(b)] == b:
                nxt.add(p + len(b))
        poss = nxt
    return len(stream) in poss


def oracle_c01(tr):
    """C01: outbound stream complete/in order/exactly once; inbound in order; pause preserves."""
    res = []
    if tr.bad:
        return [(tr.bad[0], None, tr.bad[1])]
    walk(tr)
    res += tr.issues
    ops = tr.case.ops
    # write interest <-> backlog while the connection is up
    for i, o in enumerate(tr.obs):
        if o.st in (CONNECTED, DISCONNECTING) and o.status == "ok":
            if (o.wr == 1) != (o.out > 0):
                res.append((i, None, "write interest %d but backlog %d bytes in an up connection" % (o.wr, o.out)))
    # outbound
    blocks_run = [c for c in tr.sent]
    if tr.final_stream is not None and not tr.final_stream.startswith("crc:"):
        stream = bytes.fromhex(tr.final_stream)
        must = [c["data"] for c in blocks_run if not c.get("gave_up") and not c.get("fatal")]
        full = b"".join(must)
        if stream != full:
            # find a justification: blocks legitimately dropped are exactly gave_up / fatal ones, so equality is required
            if subseq_concat(stream, [c["data"] for c in blocks_run]):
                lost = len(full) - len(stream)
                res.append((len(ops) - 1, None, "outbound stream lost %d byte(s) of blocks that reached the connection while it was up" % lost))
            else:
                res.append((len(ops) - 1, None, "outbound stream (wire ++ backlog, %d bytes) is not the in-order concatenation of the sent blocks (%d bytes): "
                            "corrupted, duplicated or reordered" % (len(stream), len(full))))
    else:
        last = tr.obs[-1] if tr.obs else None
        total = sum(len(c["data"]) for c in blocks_run if not c.get("gave_up") and not c.get("fatal"))
        if last and last.wire + last.out != total:
            res.append((len(ops) - 1, None, "wire+backlog = %d bytes, blocks sent = %d bytes" % (last.wire + last.out, total)))
    # "accepted by send() while the connection is up" but dropped because a half-close overtook the queued functor (F-6)
    for c in tr.calls:
        if c["accepted"] and c.get("origin", "").startswith("foreign") and "ran" in c:
            if c.get("fatal") and c.get("fin_at_run") and not c.get("gave_up"):
                res.append((c["ran"], "foreign-send-overtaken-by-half-close",
                            "block of %d bytes accepted by send() on a foreign thread (op %d) was dropped: the half-close ran before its queued sendInLoop"
                            % (len(c["data"]), c["op"])))
    # send(Buffer*) on the loop thread: an accepted block is taken out of the caller's buffer, a refused one is left there
    for i, op in enumerate(ops):
        t = op.split()
        if t[0] == "SEND" and len(t) > 3 and t[3] == "b" and tr.obs[i].status == "ok":
            pre_st = tr.obs[i - 1].st if i else CONNECTING
            left = [int(e.split(":")[1]) for e in tr.obs[i].ev if e.startswith("BufLeft:")]
            want = 0 if pre_st == CONNECTED else len(payload(t[1]))
            if left != [want]:
                res.append((i, None, "send(Buffer*) in state %d left %s byte(s) in the caller's buffer, expected %d" % (pre_st, left, want)))
    # inbound: every RD delivers exactly its bytes; Msg once per delivery with the right buffered size
    inlen = 0
    for i, op in enumerate(ops):
        o = tr.obs[i]
        t = op.split()
        if o.status != "ok":
            continue
        if t[0] == "RD":
            d = payload(t[1])
            inlen += len(d)
            if o.ev.count("Msg:%d" % inlen) != 1 or sum(1 for e in o.ev if e.startswith("Msg")) != 1:
                res.append((i, None, "delivery of %d bytes: message callbacks %s, expected exactly one with %d buffered" % (len(d), o.ev, inlen)))
        elif t[0] == "RET":
            inlen -= int(t[1])
        else:
            if any(e.startswith("Msg") for e in o.ev):
                res.append((i, None, "message callback without a delivery"))
        if o.inn != inlen:
            res.append((i, None, "input buffer holds %d bytes after %r, the stream arithmetic says %d" % (o.inn, op, inlen)))
            inlen = o.inn
    if tr.final_in is not None and not tr.final_in.startswith("crc:"):
        delivered = b"".join(payload(op.split()[1]) for i, op in enumerate(ops) if op.startswith("RD ") and tr.obs[i].status == "ok")
        tail = bytes.fromhex(tr.final_in)
        if not delivered.endswith(tail) or len(tail) != inlen:
            res.append((len(ops) - 1, None, "input buffer is not the unconsumed tail of what the peer wrote"))
    return res


def oracle_c13(tr):
    """C13: write-complete once per emptied backlog; high-water exactly on upward crossings with the value."""
    res = []
    if tr.bad:
        return [(tr.bad[0], None, tr.bad[1])]
    walk(tr)
    evs = events(tr)
    wc = [i for (i, e) in evs if e == "WC"]
    hw = [(i, int(e[4:])) for (i, e) in evs if e.startswith("HWM:")]
    # callbacks run only from RUN steps (the loop's functor queue): "both run on the loop thread" = deferred
    for (i, e) in evs:
        if (e == "WC" or e.startswith("HWM:")) and not tr.case.ops[i].startswith("RUN"):
            res.append((i, None, "%s ran inline in %r instead of from the loop's task queue" % (e, tr.case.ops[i])))
    pending_internal = len(tr.queue_left)
    exp_wc = tr.emptied if tr.has_wc else 0
    exp_hw = [v for (_, v) in tr.hw_expected] if tr.has_hw else []
    # everything queued has run iff the case ends with an empty functor queue
    drained = (tr.obs[-1].pend == 0) if tr.obs else True
    if drained:
        if len(wc) != exp_wc:
            res.append((len(tr.case.ops) - 1, None, "write-complete ran %d times, the backlog became empty %d times" % (len(wc), exp_wc)))
        if [v for (_, v) in hw] != exp_hw:
            res.append((len(tr.case.ops) - 1, None, "high-water callbacks %s, upward crossings of mark %d: %s" % ([v for (_, v) in hw], tr.hwm, exp_hw)))
    else:
        if len(wc) > exp_wc:
            res.append((len(tr.case.ops) - 1, None, "write-complete ran %d times, more than the %d times the backlog became empty" % (len(wc), exp_wc)))
        got = [v for (_, v) in hw]
        if got != exp_hw[:len(got)]:
            res.append((len(tr.case.ops) - 1, None, "high-water callbacks %s are not a prefix of the crossings %s" % (got, exp_hw)))
    return res


def oracle_c03(tr):
    """C03: FIN only after the backlog; flush before FIN; keeps receiving; force close once; no-ops; discard after close."""
    res = []
    if tr.bad:
        return [(tr.bad[0], None, tr.bad[1])]
    walk(tr)
    ops = tr.case.ops
    # 1. at the first observation with fin=1 the backlog is empty and write interest off
    first_fin = next((i for i, o in enumerate(tr.obs) if o.fin == 1), None)
    if first_fin is not None:
        o = tr.obs[first_fin]
        # state and backlog right before / after the action that half-closed (inside a batch: per-functor records)
        pre_st = tr.obs[first_fin - 1].st if first_fin else CONNECTING
        at_out, at_wr = o.out, o.wr
        if o.steps:
            st_prev = pre_st
            for s in o.steps:
                if int(s[5]) == 1:
                    pre_st, at_out, at_wr = st_prev, int(s[1]), int(s[2])
                    break
                st_prev = int(s[3])
        # a half-close issued when the connection is already DOWN (the peer is gone) is outside the property
        if pre_st in (CONNECTED, DISCONNECTING) and (at_out != 0 or at_wr != 0):
            res.append((first_fin, None, "peer saw end-of-stream while %d bytes were still queued" % at_out))
        # FIN needs a shutdown() request (or the destructor's close, which the driver only does after `end`)
        # (forceClose()/forceCloseWithDelay() also move the connection to kDisconnecting, so a backlog that drains
        # before the forced close takes effect ends with a half-close too: observed, not forbidden by the property)
        if not any(op.split()[0] in ("SHUT", "XSHUT", "FC", "FCD", "DFIRE", "XRC") for op in ops[:first_fin + 1]):
            res.append((first_fin, None, "end-of-stream although neither shutdown() nor a forced close was requested"))
        # nothing is written after the FIN
        for j in range(first_fin + 1, len(tr.obs)):
            if tr.obs[j].wire != o.wire:
                res.append((j, None, "bytes reached the peer after end-of-stream"))
                break
    # 2. every block accepted by send() before shutdown() is delivered in full before the FIN
    shut_i = next((i for i, op in enumerate(ops) if op.split()[0] in ("SHUT", "XSHUT") and tr.obs[i].status == "ok"
                   and (tr.obs[i - 1].st if i else CONNECTING) == CONNECTED), None)
    # 2a. "... and only then does the peer see end-of-stream": it does see it.  Once the request has reached the loop
    # thread (inline for a loop-thread shutdown(), the next task batch for a foreign one) an up connection whose
    # backlog is empty has been half-closed; a backlog that drains later is followed by the half-close at once.
    if shut_i is not None:
        eff = shut_i if ops[shut_i].split()[0] == "SHUT" else next((j for j in range(shut_i + 1, len(ops)) if ops[j].startswith("RUN")), None)
        if eff is not None:
            for j in range(eff, len(tr.obs)):
                o = tr.obs[j]
                if o.st == DISCONNECTING and o.out == 0 and o.fin == 0:
                    res.append((j, None, "shutdown() was requested at op %d and the backlog is empty, but the peer has not seen end-of-stream" % shut_i))
                    break
    if shut_i is not None and first_fin is not None:
        before = [c for c in tr.calls if c["accepted"] and c["op"] < shut_i]
        lost = [c for c in before if c.get("fatal") and c.get("fin_at_run")]
        notrun = [c for c in before if "ran" not in c]
        for c in lost:
            res.append((c["ran"], "foreign-send-overtaken-by-half-close",
                        "send() of %d bytes returned (op %d) before shutdown() (op %d) but the half-close overtook it: the block was dropped and the peer saw end-of-stream without it"
                        % (len(c["data"]), c["op"], shut_i)))
        for c in notrun:
            if tr.obs[-1].st != DISCONNECTED and tr.obs[-1].pend == 0:
                res.append((len(ops) - 1, None, "send() before shutdown() never ran"))
        scripted_fatal = any(c.get("fatal") and not c.get("fin_at_run") for c in tr.calls)
        if not lost and not scripted_fatal and tr.final_stream is not None and not tr.final_stream.startswith("crc:"):
            wire_at_fin = tr.obs[first_fin].wire
            stream = bytes.fromhex(tr.final_stream)[:wire_at_fin]
            want = b"".join(c["data"] for c in tr.sent if c["op"] < shut_i and c["accepted"] and not c.get("gave_up"))
            if not stream.startswith(want) and not any(op.split()[0] in ("EOF", "HUP", "FC", "DFIRE", "ODESTROY") for op in ops[:first_fin]):
                res.append((first_fin, None, "the bytes before end-of-stream do not start with everything sent before shutdown()"))
    # 3. still receiving after shutdown: an RD accepted while Disconnecting yields its Msg (checked by C01's inbound rule as well)
    for i, op in enumerate(ops):
        o = tr.obs[i]
        if op.startswith("RD ") and o.status == "ok" and not any(e.startswith("Msg") for e in o.ev):
            res.append((i, None, "data delivered after shutdown() produced no message callback"))
    # 4. DOWN exactly once; forced close takes effect at the next RUN without any peer event
    evs = events(tr)
    downs = [i for (i, e) in evs if e == "Down"]
    ups = [i for (i, e) in evs if e == "Up"]
    if len(downs) > 1:
        res.append((downs[1], None, "DOWN callback ran twice"))
    if len(ups) > 1:
        res.append((ups[1], None, "UP callback ran twice"))
    for i, op in enumerate(ops):
        t0 = op.split()[0]
        if t0 in ("FC", "DFIRE") and tr.obs[i].status == "ok":
            pre_st = tr.obs[i - 1].st if i else CONNECTING
            if pre_st in (CONNECTED, DISCONNECTING):
                # the next RUN (if any) must bring it down, unless something else did in between
                nxt = next((j for j in range(i + 1, len(ops)) if ops[j].startswith("RUN")), None)
                if nxt is not None and tr.obs[nxt].st != DISCONNECTED:
                    res.append((nxt, None, "forceClose() requested at op %d: the connection is still up after the loop ran its tasks" % i))
            else:
                o, p = tr.obs[i], tr.obs[i - 1] if i else None
                if p and (o.st, o.out, o.wire, o.pend, o.fin) != (p.st, p.out, p.wire, p.pend, p.fin):
                    res.append((i, None, "forced close on a connection that is already down changed its state"))
    # 5. send() after shutdown()/forceClose() is discarded: neither wire nor backlog nor the functor queue changes
    for i, op in enumerate(ops):
        if op.startswith("SEND ") and tr.obs[i].status == "ok" and i > 0:
            p, o = tr.obs[i - 1], tr.obs[i]
            if p.st != CONNECTED and (o.wire, o.out, o.pend) != (p.wire, p.out, p.pend):
                res.append((i, None, "send() in state %d was not discarded" % p.st))
    return res


# ------------------------------------------------------------------------------------------------
# Generators
# ------------------------------------------------------------------------------------------------
SIZES = [0, 1, 2, 3, 5, 8, 13, 64, 1023, 1024, 1025, 4096]
BIG = [65535, 65536, 65537, 200000, 1 << 20]


def gen_case(rng, cid, profile="mixed", maxops=24, races=False):
    """profile: 'stream' (C01), 'marks' (C13), 'close' (C03), 'mixed'.
    races=True additionally issues shutdown()/forceClose()/forceCloseWithDelay() on foreign threads cut into load / store / hand-off
    (XRC/XRS/XRE, thread ids >= 10): mostly with the three micro-steps adjacent or separated by ops that do not
    close the connection, and at low frequency with a close by the loop thread between load and store (finding F-19)."""
    mark = rng.choice([0, 1, 2, 5, 8, 16, 64, 1024, 64 * 1024 * 1024] if profile != "marks" else [1, 2, 3, 5, 8, 13, 16, 32, 64, 100])
    wc = 1 if rng.random() < 0.8 else 0
    hw = 1 if rng.random() < 0.8 else 0
    ops = ["EST"] if rng.random() < 0.97 else []
    backlog = 0          # generator's own estimate, only to aim sizes at the marks
    parked = {}
    n = rng.randint(3, maxops)
    down = False
    eof = False
    seedc = [rng.randrange(1, 1 << 30)]

    def pl(nbytes):
        seedc[0] += 1
        return "@%d:%d" % (nbytes, seedc[0])

    def size():
        r = rng.random()
        if profile == "faults":
            return rng.choice([1, 2, 3, 5, 8, 13, 64, 1024, 4096]) if r < 0.5 else rng.randint(1, 40)
        if profile == "marks" and r < 0.6:
            return max(0, rng.choice([mark - backlog - 1, mark - backlog, mark - backlog + 1, mark, 1, 0, rng.randint(0, 2 * mark + 2)]))
        if r < 0.04:
            return rng.choice(BIG)
        if r < 0.5:
            return rng.choice(SIZES)
        return rng.randint(0, 40)

    def ovl():
        """which send() overload: (const void*, int) [default, no token], StringPiece, Buffer*"""
        r = rng.random()
        return "" if r < 0.5 else (" s" if r < 0.8 else " b")

    def kres(nbytes):
        r = rng.random()
        if profile == "faults":
            if r < 0.2:
                return "all"
            if r < 0.55:
                return "a%d" % max(0, rng.choice([0, 1, nbytes // 2, nbytes - 1, nbytes, rng.randint(0, nbytes + 1)]))
            if r < 0.8:
                return "eagain"
            if r < 0.95:
                return "eintr"
            return "eother"
        if r < 0.35:
            return "all"
        if r < 0.75:
            return "a%d" % max(0, rng.choice([0, 1, nbytes // 2, nbytes - 1, nbytes, nbytes + 1, rng.randint(0, nbytes + 1)]))
        if r < 0.9:
            return "eagain"
        if r < 0.97:
            return "eintr"
        return rng.choice(["epipe", "econnreset", "eother"])

    weights = {
        "stream": dict(SEND=8, FS=6, EVW=7, RUN=6, RD=5, RET=3, SPR=3, SHUT=0.5, FC=0.3, EOF=0.3, ERRS=1),
        "marks": dict(SEND=10, FS=4, EVW=8, RUN=6, RD=1, RET=0.5, SPR=0.5, SHUT=0.3, FC=0.2, EOF=0.2, ERRS=0.5),
        "close": dict(SEND=6, FS=5, EVW=5, RUN=6, RD=3, RET=1, SPR=1, SHUT=4, FC=3, EOF=2, ERRS=1),
        "mixed": dict(SEND=6, FS=4, EVW=5, RUN=5, RD=3, RET=2, SPR=2, SHUT=2, FC=1.5, EOF=1, ERRS=1),
        "faults": dict(SEND=7, FS=5, EVW=8, RUN=6, RD=4, RET=2, SPR=1, SHUT=1, FC=0.5, EOF=0.7, ERRS=5),
    }[profile]
    kinds = list(weights)
    wts = [weights[k] for k in kinds]
    for _ in range(n):
        k = rng.choices(kinds, wts)[0]
        if k == "SEND":
            s = size()
            ops.append("SEND %s %s%s" % (pl(s), kres(s), ovl()))
            backlog += s
        elif k == "FS":
            t = rng.randint(1, 3)
            if t in parked:
                ops.append("FSE %d %s" % (t, parked.pop(t)))
            else:
                p = pl(size())
                ops.append("FSC %d %s%s" % (t, p, ovl()))
                if rng.random() < 0.6:
                    ops.append("FSE %d %s" % (t, p))
                else:
                    parked[t] = p
        elif k == "EVW":
            ops.append("EVW %s" % kres(max(backlog, 1)))
            if rng.random() < 0.5:
                backlog = 0
        elif k == "RUN":
            ops.append("RUN " + " ".join(kres(rng.choice([1, 8, 64])) for _ in range(rng.randint(0, 3))))
        elif k == "RD":
            if not eof:
                ops.append("RD %s" % pl(rng.choice([1, 2, 5, 100, 1016, 1024, 1025, 4000, 60000]) if rng.random() < 0.3 else rng.randint(1, 30)))
        elif k == "RET":
            ops.append("RET %d" % rng.choice([0, 1, 2, 5, 30, 1000]))
        elif k == "SPR":
            c = rng.choice(["SP", "SR", "XSP", "XSR"])
            ops.append(c)
            if c in ("XSP", "XSR"):
                ops.append("RUN")       # keep the pause/resume functor away from a racing close (finding F-14 has its own corpus case)
        elif k == "SHUT":
            ops.append(rng.choice(["SHUT", "SHUT", "XSHUT"]))
        elif k == "FC":
            c = rng.choice(["FC", "FC", "FCD", "DFIRE", "ODESTROY"])
            ops.append(c)
        elif k == "EOF":
            c = rng.choice(["EOF", "EOF", "HUP"])
            if c == "EOF":
                eof = True
            ops.append(c)
        elif k == "ERRS":
            ops.append(rng.choice(["RERR", "ERR"]))
    if races:
        # benign placements anywhere in the case
        nreq = rng.choice([0, 1, 1, 2])
        tid = 10
        for _ in range(nreq):
            tid += 1
            r = rng.choice(["shut", "fc", "fcd"])
            pos = rng.randint(1, len(ops)) if ops else 0
            if rng.random() < 0.5:
                ops[pos:pos] = ["XRC %d %s" % (tid, r), "XRS %d" % tid, "XRE %d" % tid]
            else:
                # load and store adjacent, the hand-off later
                ops[pos:pos] = ["XRC %d %s" % (tid, r), "XRS %d" % tid]
                pos2 = rng.randint(pos + 2, len(ops))
                ops.insert(pos2, "XRE %d" % tid)
        # the race proper, at the end of the case so that what follows the corrupted state is a fixed tail
        if rng.random() < 0.04:
            tid += 1
            r = rng.choice(["shut", "fc", "fcd"])
            closer = rng.choice([["EOF"], ["HUP"], ["EOF", "RUN"], ["FC", "RUN"]])
            ops += ["XRC %d %s" % (tid, r)] + closer + ["XRS %d" % tid, "XRE %d" % tid, "RUN", "RUN"]
            return vlib.Case(cid, "%d %d %d" % (mark, wc, hw), ops, profile)
    for t, p in parked.items():
        if rng.random() < 0.7:
            ops.append("FSE %d %s" % (t, p))
    # usually end with drains so that everything queued runs and the final stream is complete
    if rng.random() < 0.85:
        ops += ["RUN", "EVW all", "RUN", "RUN"]
    return vlib.Case(cid, "%d %d %d" % (mark, wc, hw), ops, profile)


def sanitize_f14(ops):
    return ops


def load_cases(path_glob):
    cases = []
    for f in sorted(glob.glob(path_glob)):
        cid, header, ops = None, "", []
        for line in open(f):
            line = line.rstrip("\n")
            if not line or line.startswith("#"):
                continue
            if line.startswith("case "):
                t = line.split()
                cid, header, ops = os.path.basename(f).replace(".case", "") + "_" + t[1], " ".join(t[2:]), []
            elif line == "end":
                cases.append(vlib.Case(cid, header, ops, "corpus"))
            elif line.startswith("---"):
                break
            else:
                ops.append(line)
    return cases


def build():
    model = vlib.build_model("Conn")
    impl = vlib.build_driver("Conn_driver", ["Conn_driver.cc"], variant="asan", wrap=WRAP)
    return model, impl


def run_both(model, impl, cases):
    io, icr = vlib.run_batch_parallel(impl, cases, timeout=1800)
    mo, mcr = vlib.run_batch_parallel(model, cases, timeout=1800, pre=["bash", "-c", 'ulimit -s unlimited 2>/dev/null; exec "$0"'])
    return io, icr, mo, mcr


SOAK_CONFIGS = [(poller, nthreads, eintr) for poller in ("epoll", "poll") for nthreads in (0, 1, 3) for eintr in (0, 1)]


def soak(chk, prop, conns=18):
    """Thorough tier: free-running loopback soak of the real TcpServer/TcpConnection (harness/Conn_soak.cc) under both
    pollers with 0, 1 and 3 io threads, with and without EINTR showers.  Nothing is scripted, so a failure is reported
    with the command line that produced it (seeded, but scheduling is the OS's).  Returns (ok, failure lines of `prop`,
    list of summary dicts)."""
    exe = vlib.build_driver("Conn_soak", ["Conn_soak.cc"], variant="asan", wrap=["write"])
    mine, summaries = [], []
    # C13 additionally runs the exact mode: echo connections only, write() logged, callback counts and values exact
    configs = [(p_, n_, e_, "") for (p_, n_, e_) in SOAK_CONFIGS]
    if prop == "C13":
        configs += [(p_, n_, 0, "c13") for p_ in ("epoll", "poll") for n_ in (0, 1, 3)]
    for (poller, nthreads, eintr, mode) in configs:
        seed = chk.rng.randrange(1, 1 << 30)
        cmd = [exe, str(nthreads), str(conns), str(seed), str(eintr)] + ([mode] if mode else [])
        env = {"MUDUO_USE_POLL": "1"} if poller == "poll" else {}
        rc, out = vlib.sh(cmd, env=env, timeout=300)
        chk.cov["evaluations"] += 1
        lines = out.splitlines()
        summ = next((l for l in lines if l.startswith("soak ")), None)
        res = next((l for l in lines if l.startswith("result=")), None)
        how = "%s%s %s" % ("MUDUO_USE_POLL=1 " if poller == "poll" else "", " ".join(["Conn_soak"] + cmd[1:]), "")
        if res is None:
            # wedged (watchdog), crashed or aborted: every property of the connection is off
            mine.append("%s: soak did not finish (rc=%s): %s" % (how.strip(), rc, (lines[-1] if lines else "no output")[:300]))
        else:
            for l in lines:
                if l.startswith("FAIL %s:" % prop):
                    mine.append("%s: %s" % (how.strip(), l))
        if summ:
            d = dict(kv.split("=", 1) for kv in summ.split()[1:])
            d["eintr"] = str(eintr)
            if mode:
                d["mode"] = mode
                ex = next((l for l in lines if l.startswith("exact ")), None)
                if ex:
                    d.update(dict(kv.split("=", 1) for kv in ex.split()[1:]))
            d["result"] = res or "none"
            summaries.append(d)
    return (not mine), mine, summaries


def run_property(chk, prop, oracle, profiles, nrand_quick, nrand_thorough, replay=None, extra_cases=(), nontrivial=None,
                 rule="", trusted=(), assumptions=(), races=False, extra=None):
    """Common check body for the single-connection properties.  extra(chk): further obligations of one property
    (may report violations with a concrete input), run after the correspondence and the oracle."""
    pr = chk.prove()
    model, impl = build()
    known = [k for k in vlib.known_findings() if k["property"] == prop]
    if replay:
        cases = load_cases(replay)
    else:
        cases = load_cases(os.path.join(vlib.ROOT, "corpus", prop, "*.case")) + list(extra_cases)
        n = nrand_quick if chk.tier == "quick" else nrand_thorough
        for i in range(n):
            prof = profiles[i % len(profiles)]
            cases.append(gen_case(chk.rng, "g%d" % i, prof, maxops=24 if chk.tier == "quick" else 40, races=races))
    io, icr, mo, mcr = run_both(model, impl, cases)
    corr_bad, orc_bad = [], []
    sigs = set()
    hist = {}
    for c in cases:
        chk.cov["evaluations"] += 1
        for op in c.ops:
            k = op.split()[0]
            hist[k] = hist.get(k, 0) + 1
        li, lm = io.get(c.cid), mo.get(c.cid)
        if c.cid in icr:
            rc, se, partial = icr[c.cid]
            li = partial or ["case " + c.cid]
            msgs = [(len(li) - 1, None, "implementation crashed (rc=%s): %s" % (rc, se.strip().split("\n")[0][:300]))]
            # a crash is matched against known findings by the op pattern that precedes it
            key = crash_signature(c, len(li) - 1, se)
            if key is None:
                obs_sofar = [parse_line(l) for l in li[1:]]
                j = race_manifested(c, obs_sofar)
                if j is not None and j <= len(li) - 1:
                    key = F19_KEY
            msgs = [(len(li) - 1, key, msgs[0][2])]
        else:
            if li is None:
                orc_bad.append((c, 0, None, "no implementation output"))
                continue
            tr = Trace(c, li)
            msgs = oracle(tr)
            # F-19: whatever the oracle reports from the racy store on is the consequence of the corrupted state_
            j = race_manifested(c, tr.obs) if not tr.bad else None
            if j is not None:
                msgs = [(i, (F19_KEY if (key is None and i >= j) else key), msg) for (i, key, msg) in msgs]
            if nontrivial:
                sg = nontrivial(c, tr)
                if sg:
                    sigs.add(sg)
            if lm is None or li != lm:
                idx = next((i for i in range(min(len(li), len(lm or []))) if li[i] != lm[i]), min(len(li), len(lm or [])))
                corr_bad.append((c, idx, "impl %r vs model %r" % (li[idx] if idx < len(li) else None, lm[idx] if lm and idx < len(lm) else None)))
        for (i, key, msg) in msgs:
            k = next((kf for kf in known if key and kf["key"] == key), None)
            if k:
                chk.known(k["key"], "%s [case %s op %d: %s]" % (k["text"], c.cid, i, msg[:160]))
            else:
                orc_bad.append((c, i, key, msg))
        if len(chk.cov["samples"]) < 3 and c.tag != "corpus" and len(c.ops) <= 14 and li and lm == li:
            chk.sample({"case": c.text().split("\n")[:-1], "impl_last_line": li[len(c.ops)] if len(li) > len(c.ops) else ""})
    chk.cov["distinct_nontrivial"] = len(sigs)
    chk.cov["rule"] = rule
    chk.cov["generator_histogram"] = hist
    chk.cov["traces_validated_against_impl"] = len(cases) - len(corr_bad)
    chk.add_obligation("correspondence: extracted Conn_Model.step == real TcpConnection (scripted kernel, raw peer) on every case, every observer after every op", not corr_bad)
    chk.add_obligation("oracle: %s evaluated on the implementation's own trace" % prop, not orc_bad)
    if extra and not replay:
        extra(chk)
    soak_bad = []
    if chk.tier == "thorough" and not replay:
        ok_soak, soak_bad, summ = soak(chk, prop)
        chk.cov["soak"] = summ
        chk.add_obligation("free-running loopback soak (real TcpServer, both pollers, 0/1/3 io threads, EINTR showers): %s clauses hold on what the raw peers received" % prop, ok_soak)
        chk.trusted("harness/Conn_soak.cc: raw-socket peers, frame parser, per-connection callback bookkeeping")
    chk.trusted("extraction: ExtrOcamlBasic only (Conn_Model.step/init/run_batch/uses_kernel/xstep/xinit); extract/util.ml + extract/Conn_driver.ml",
                "translator lib/cxxast.py + lib/gen_Conn.py: guards, argument expressions and structure facts of TcpConnection.cc from clang's JSON AST (Gen_Conn.v), "
                "linked to the model by Conn_GenTie*.v",
                "harness/Conn_driver.cc: op-by-op driver, '#define private public', link-time interposition of write/readv/shutdown/gettimeofday/pthread_mutex_lock, "
                "AF_UNIX socketpair as the TCP stream; TcpConnection.cc compiled into the driver with a schedule point in front of setState (only armed foreign threads stall)",
                *trusted)

    def shrink(c, pred):
        def fails(ops):
            cc = vlib.Case("s", c.header, ops)
            o1, cr1 = vlib.run_batch(impl, [cc], timeout=120)
            o2, _ = vlib.run_batch(model, [cc], timeout=120)
            return pred(cc, o1.get("s"), cr1.get("s"), o2.get("s"))
        return vlib.Case(c.cid, c.header, vlib.ddmin(c.ops, fails, max_tests=120))

    if orc_bad:
        c, i, key, msg = orc_bad[0]

        def pred(cc, li, crash, lm):
            if crash is not None:
                return "crashed" in msg
            if li is None:
                return False
            ms = oracle(Trace(cc, li))
            return any(m[1] == key and m[2].split(":")[0][:25] == msg.split(":")[0][:25] for m in ms)
        small = shrink(c, pred)
        path = chk.write_replay("oracle_%s.case" % c.cid, "# %s\n# signature: %s\n%s" % (msg.replace("\n", " "), key, small.text()))
        chk.violation(path, "%s fails on the implementation: %s (%d failing case(s))" % (prop, msg, len(set(x[0].cid for x in orc_bad))))
    elif soak_bad:
        path = chk.write_replay("soak_failure.txt", "# free-running soak (harness/Conn_soak.cc); re-run the command below against the same tree (seeded; scheduling is the OS's)\n"
                                + "\n".join(soak_bad) + "\n")
        chk.violation(path, "%s fails in the free-running soak: %s (%d failure line(s))" % (prop, soak_bad[0], len(soak_bad)))
    elif corr_bad or not pr["ok"]:
        what = []
        body = ""
        if not pr["ok"]:
            what.append("proof obligation(s) no longer check: %s %s" % (pr["broken"], pr["problems"]))
        if corr_bad:
            c, idx, msg = corr_bad[0]
            small = shrink(c, lambda cc, li, crash, lm: crash is None and li != lm)
            what.append("correspondence Conn_Model vs TcpConnection broken at line %d (%s); the %s oracle holds on all %d cases" % (idx, msg, prop, len(cases)))
            body = small.text()
        path = chk.write_replay("broken_obligation.txt", "\n".join("# " + w for w in what) + "\n" + body +
                                ("\n--- coq log tail ---\n" + pr["log"][-3000:] if not pr["ok"] else ""))
        # "no failing input found" only if no other part of this run exhibited one
        chk.violation(path, "; ".join(what), no_input=not any(not v[2] for v in chk.violations))
    return chk.finish(level="proof", assumptions=list(assumptions) + [
        "an AF_UNIX stream socketpair stands in for the TCP stream; the kernel's write results are scripted at the sockets::write boundary (environment contract, DESIGN 3.4)",
        "loop-thread code is atomic w.r.t. other loop-thread code; foreign calls interleave only at their state test and their enqueue (DESIGN 3.2)"])


F19_KEY = "foreign-close-request-races-close"


def race_manifested(case, obs):
    """F-19 signature (never the property id): the index of the first XRS <t> whose request's state test had passed
    (XRC <t> issued while the connection was up / connected) and which executes when the loop thread has meanwhile
    brought the connection down (state kDisconnected right before the store): from that op on state_ is corrupted.
    None if no such op."""
    passed = {}
    for i, op in enumerate(case.ops):
        if i >= len(obs) or obs[i] is None:
            break
        t = op.split()
        pre_st = obs[i - 1].st if i else CONNECTING
        if obs[i].status != "ok":
            continue
        if t[0] == "XRC":
            passed[t[1]] = (pre_st == CONNECTED) if t[2] == "shut" else (pre_st in (CONNECTED, DISCONNECTING))
        elif t[0] == "XRS":
            if passed.pop(t[1], False) and pre_st == DISCONNECTED:
                return i
    return None


def crash_signature(case, idx, stderr):
    """known-finding signature of a crash: derived from the op pattern, never from the property id"""
    ops = case.ops[:idx + 1]
    if "isNoneEvent()" in stderr:
        # F-14: a startRead functor that was queued before the close runs after it and re-enables reading
        closed = None
        for i, op in enumerate(ops):
            if op.split()[0] in ("EOF", "HUP") or op.startswith("RUN"):
                pass
        if any(o.split()[0] == "XSR" for o in ops):
            return "startRead-functor-runs-after-close"
    return None


TRANSIENT = ("eagain", "eintr", "eother")


def calm_case(c):
    """the same scenario with every transient fault replaced by the corresponding zero-progress outcome:
    a failed write -> a write that takes 0 bytes, a failed read / error event -> no event"""
    ops = []
    for op in c.ops:
        t = op.split()
        if t[0] in ("RERR", "ERR"):
            continue
        if t[0] in ("SEND", "EVW", "RUN"):
            t = [("a0" if x in TRANSIENT else x) for x in t]
        ops.append(" ".join(t))
    return vlib.Case(c.cid + "_calm", c.header, ops, "calm")


def transparency(tr_fault, tr_calm):
    """C11: the faulted run and the calmed run must agree on everything a user or the peer can see"""
    msgs = []
    ev1 = [e for (_, e) in events(tr_fault)]
    ev2 = [e for (_, e) in events(tr_calm)]
    if ev1 != ev2:
        msgs.append("callbacks differ: with faults %s, without %s" % (ev1[:12], ev2[:12]))
    if tr_fault.final_stream != tr_calm.final_stream:
        msgs.append("outbound stream (wire ++ backlog) differs between the faulted and the fault-free run")
    if tr_fault.final_in != tr_calm.final_in:
        msgs.append("input buffer differs between the faulted and the fault-free run")
    a, b = (tr_fault.obs[-1] if tr_fault.obs else None), (tr_calm.obs[-1] if tr_calm.obs else None)
    if a and b and (a.st, a.out, a.wire, a.fin, a.wr, a.rd, a.reg, a.pend) != (b.st, b.out, b.wire, b.fin, b.wr, b.rd, b.reg, b.pend):
        msgs.append("final state differs: %s vs %s" % ((a.st, a.out, a.wire, a.fin, a.wr, a.rd, a.reg, a.pend), (b.st, b.out, b.wire, b.fin, b.wr, b.rd, b.reg, b.pend)))
    return msgs
