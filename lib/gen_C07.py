#!/usr/bin/env python3
"""gen_C07.py: generated boolean fact for property C07 (finding F-7), read from the clang
JSON AST of VERIF_REPO's CURRENT muduo/net/TimerQueue.cc on every check.

  TimerQueue_addTimer_reads_seq_after_handoff : bool

Rule.  Inside the body of TimerQueue::addTimer collect, with their begin offsets,
  * the hand-off: every CXXMemberCallExpr whose callee MemberExpr is `runInLoop` (or
    `queueInLoop`, the other way EventLoop hands a functor to the loop thread);
    the FIRST one in source order is "the hand-off";
  * the reads: every CXXMemberCallExpr whose callee MemberExpr is `sequence` and whose
    object expression has type (pointer/reference to) muduo::net::Timer.
The fact is `true` iff some read begins AFTER the hand-off begins (pinned tree:
`return TimerId(timer, timer->sequence());` after `loop_->runInLoop(...)`), and `false`
iff every read precedes it (the proposed repair reads the sequence into a local first).
If no hand-off or no read can be found the shape is not understood: a line
`FALLBACK gen_C07: ...` is printed and the conservative value `true` is emitted.

Writes coq/Gen_C07.v (only when the content changes), echoing the matched source lines
as comments.  Exit 0 always."""
import os, sys, re
sys.path.insert(0, os.path.dirname(os.path.abspath(__file__)))
import cxxast

RELFILE = "muduo/net/TimerQueue.cc"
QUALNAME = "TimerQueue::addTimer"
FACT = "TimerQueue_addTimer_reads_seq_after_handoff"
HANDOFF_NAMES = ("runInLoop", "queueInLoop")


def clean(s):
    """One line of source text that is safe inside a Coq comment (no comment delimiters,
    no string quotes: Coq lexes string literals inside comments)."""
    s = " ".join(str(s).split())
    s = s.replace("*)", "* )").replace("(*", "( *").replace('"', "'")
    while "*)" in s or "(*" in s:
        s = s.replace("*)", "* )").replace("(*", "( *")
    return s


def begin_offset(node):
    """Begin offset of a node in the file it is spelled in (None when clang gives none)."""
    b = (node.get("range", {}) or {}).get("begin", {}) or {}
    if "offset" in b:
        return b["offset"]
    for k in ("expansionLoc", "spellingLoc"):
        if "offset" in (b.get(k, {}) or {}):
            return b[k]["offset"]
    return None


def kids(n):
    return [c for c in n.get("inner", []) or [] if isinstance(c, dict) and c.get("kind")]


def callee_member(call):
    ks = kids(call)
    if not ks:
        return None
    me = cxxast.strip(ks[0])
    return me if me.get("kind") == "MemberExpr" else None


def object_type(me):
    ks = kids(me)
    return ks[0].get("type", {}).get("qualType", "") if ks else ""


def is_timer_type(qt):
    qt = re.sub(r"\b(const|volatile|class|struct)\b", " ", qt).replace("*", " ").replace("&", " ")
    toks = qt.split()
    return len(toks) == 1 and toks[0].split("::")[-1] == "Timer"


def analyse():
    """-> (value, echo lines, fallback reason or None)"""
    path = os.path.join(cxxast.REPO, RELFILE)
    data = open(path, "rb").read()

    def line_of(off):
        return data.count(b"\n", 0, off) + 1

    def line_text(off):
        a = data.rfind(b"\n", 0, off) + 1
        e = data.find(b"\n", off)
        return data[a: e if e >= 0 else len(data)].decode("utf-8", "replace")

    fn = cxxast.function_decl(RELFILE, QUALNAME)
    floc = fn.get("loc", {}) or {}
    ffile = floc.get("file") or (floc.get("expansionLoc", {}) or {}).get("file")
    if ffile and os.path.realpath(ffile) != os.path.realpath(path):
        raise cxxast.Untranslatable("body of %s is in %s, not in %s" % (QUALNAME, ffile, RELFILE))
    body = cxxast.body(fn)
    handoffs, reads = [], []
    for n in cxxast.walk(body):
        if n.get("kind") != "CXXMemberCallExpr":
            continue
        me = callee_member(n)
        if me is None:
            continue
        off = begin_offset(n)
        if me.get("name") in HANDOFF_NAMES:
            if off is None:
                raise cxxast.Untranslatable("hand-off call without a source offset (macro?)")
            handoffs.append((off, n, me.get("name")))
        elif me.get("name") == "sequence" and is_timer_type(object_type(me)):
            if off is None:
                raise cxxast.Untranslatable("sequence() call without a source offset (macro?)")
            reads.append((off, n))
    handoffs.sort(key=lambda t: t[0])
    reads.sort(key=lambda t: t[0])
    echo = []
    if not handoffs:
        return True, echo, "no runInLoop/queueInLoop member call in the body of %s" % QUALNAME
    h_off, h_node, h_name = handoffs[0]
    echo.append("%s:%d hand-off (%s): %s" % (RELFILE, line_of(h_off), h_name,
                                             clean(cxxast.src_text(h_node, RELFILE))))
    for (off, n, nm) in handoffs[1:]:
        echo.append("%s:%d further hand-off (%s): %s" % (RELFILE, line_of(off), nm,
                                                         clean(cxxast.src_text(n, RELFILE))))
    if not reads:
        return True, echo, "no Timer::sequence() member call in the body of %s" % QUALNAME
    after = False
    for (off, n) in reads:
        late = off > h_off
        after = after or late
        echo.append("%s:%d sequence() read %s the hand-off: %s   in: %s" % (
            RELFILE, line_of(off), "AFTER" if late else "before",
            clean(cxxast.src_text(n, RELFILE)), clean(line_text(off))))
    return after, echo, None


def main():
    out = ["(* GENERATED by lib/gen_C07.py from %s -- do not edit *)" % clean(cxxast.REPO)]
    fallback = None
    try:
        value, echo, fallback = analyse()
    except Exception as e:  # noqa
        value, echo, fallback = True, [], "%s: %s" % (type(e).__name__, e)
    for l in echo:
        out.append("(* %s *)" % l)
    if fallback:
        out.append("(* FALLBACK gen_C07: %s -- conservative value *)" % clean(fallback))
    out.append("Definition %s : bool := %s." % (FACT, "true" if value else "false"))
    txt = "\n".join(out) + "\n"
    path = os.path.join(cxxast.ROOT, "coq/Gen_C07.v")
    old = open(path).read() if os.path.exists(path) else None
    if old != txt:
        open(path, "w").write(txt)
    if fallback:
        print("FALLBACK gen_C07: %s (emitting %s := true)" % (" ".join(str(fallback).split()), FACT))
    return 0


if __name__ == "__main__":
    try:
        rc = main()
    except Exception as e:  # noqa
        print("FALLBACK gen_C07: generator crashed: %s" % " ".join(str(e).split()))
        try:   # never leave a stale (possibly `false`) fact behind
            open(os.path.join(cxxast.ROOT, "coq/Gen_C07.v"), "w").write(
                "(* GENERATED by lib/gen_C07.py -- do not edit *)\n(* FALLBACK gen_C07: generator crashed -- conservative value *)\n"
                "Definition %s : bool := true.\n" % FACT)
        except Exception:  # noqa
            pass
        rc = 0
    sys.exit(rc)
