#!/usr/bin/env python3
"""Translator output for C17 -> coq/Gen_C17.v (DESIGN 4.1), read from the *current* sources
of VERIF_REPO through clang's JSON AST:
  * the digit tables of LogStream.cc (digits, zero = digits + k, digitsHex) and LogLevelName,
  * the fit test of FixedBuffer::append and the headroom tests of formatInteger (every
    instantiation), operator<<(const void*) and operator<<(double),
  * the level gates of the LOG_* macros (a probe translation unit that uses each macro),
  * Logger::Impl::formatTime: cache refresh test, time format, the two zone branches (formats and
    lengths), the sizes of t_time and t_errnobuf,
  * the threshold ladders of formatSI (integer bounds) and formatIEC (double bounds, emitted
    as exact rationals), with precision, divisor and unit text of every rung.
Every fact echoes what was matched.  A piece that cannot be translated is emitted as the
committed default with a line `FALLBACK <piece>` on stdout (the correspondence harness then
is the only tie for that piece).  The file is rewritten only when its content changes."""
import os, sys, re
sys.path.insert(0, os.path.dirname(os.path.abspath(__file__)))
import cxxast
from cxxast import walk, strip, Untranslatable

LS_CC, LS_H, LG_CC = "muduo/base/LogStream.cc", "muduo/base/LogStream.h", "muduo/base/Logging.cc"
fallbacks = []


def bl(s):
    return "[" + ";".join("x%02x" % (c if isinstance(c, int) else ord(c)) for c in s) + "]"


def unquote(v):
    """clang prints StringLiteral values as a C literal."""
    assert v.startswith('"') and v.endswith('"')
    body = v[1:-1]
    out, i = [], 0
    while i < len(body):
        c = body[i]
        if c == "\\":
            i += 1
            e = body[i]
            m = {"n": 10, "t": 9, "\\": 92, '"': 34, "0": 0, "r": 13}
            if e == "x":
                out.append(int(body[i + 1:i + 3], 16))
                i += 2
            elif e in m:
                out.append(m[e])
            else:
                raise Untranslatable("escape \\" + e)
        else:
            out.append(ord(c))
        i += 1
    return out


def kids(n):
    return [c for c in n.get("inner", []) or [] if isinstance(c, dict)]


def var_decl(relfile, qual):
    short = qual.split("::")[-1]
    for d in cxxast.dump(relfile, qual):
        for v in cxxast.find(d, "VarDecl", short):
            if kids(v):
                return v
    raise Untranslatable("VarDecl " + qual)


def string_var(relfile, qual):
    v = var_decl(relfile, qual)
    for n in walk(v):
        if n.get("kind") == "StringLiteral":
            return unquote(n["value"])
    raise Untranslatable("no string literal in " + qual)


def tables():
    digits = string_var(LS_CC, "muduo::detail::digits")
    hexd = string_var(LS_CC, "muduo::detail::digitsHex")
    z = var_decl(LS_CC, "muduo::detail::zero")
    e = strip(kids(z)[0])
    if e.get("kind") != "BinaryOperator" or e.get("opcode") != "+":
        raise Untranslatable("zero is not digits + k")
    a, b = [strip(x) for x in kids(e)]
    if a.get("kind") != "DeclRefExpr" or a["referencedDecl"]["name"] != "digits":
        raise Untranslatable("zero is not based on digits")
    off = cxxast.const_eval(b)
    names = []
    v = var_decl(LG_CC, "muduo::LogLevelName")
    for n in walk(v):
        if n.get("kind") == "StringLiteral":
            names.append(unquote(n["value"]))
    return digits, off, hexd, names


CMP = {">": ">?", ">=": ">=?", "<": "<?", "<=": "<=?", "==": "=?"}


def mentions(n, member=None, decl=None):
    for x in walk(n):
        if member and x.get("kind") == "MemberExpr" and x.get("name") == member:
            return True
        if decl and x.get("kind") == "DeclRefExpr" and (x.get("referencedDecl") or {}).get("name") == decl:
            return True
    return False


def first_if_cond(fn):
    for n in walk(cxxast.body(fn)):
        if n.get("kind") == "IfStmt":
            return kids(n)[0]
    raise Untranslatable("no if")


def guard_avail_vs(cond, rhs_decl):
    """cond must be `<something calling avail()> OP <rhs_decl>`; returns the Coq operator."""
    cond = strip(cond)
    if cond.get("kind") != "BinaryOperator" or cond.get("opcode") not in CMP:
        raise Untranslatable("guard is not a comparison")
    a, b = kids(cond)
    if not mentions(a, member="avail") or mentions(a, decl=rhs_decl):
        raise Untranslatable("lhs is not avail()")
    if not mentions(b, decl=rhs_decl) or mentions(b, member="avail"):
        raise Untranslatable("rhs is not " + rhs_decl)
    # nothing else may take part in the comparison (e.g. `avail() > len + 1`)
    for side, okk in ((a, ("CallExpr", "CXXMemberCallExpr", "MemberExpr", "CXXThisExpr", "UnresolvedLookupExpr",
                           "ImplicitCastExpr", "ParenExpr", "CXXStaticCastExpr")),
                      (b, ("DeclRefExpr", "ImplicitCastExpr", "ParenExpr"))):
        for x in walk(side):
            if x.get("kind") not in okk:
                raise Untranslatable("unexpected %s in guard" % x.get("kind"))
    return CMP[cond["opcode"]], cxxast.src_text(cond)


def methods_named(relfile, qual, pred=lambda n: True):
    short = qual.split("::")[-1]
    res = []
    for d in cxxast.dump(relfile, qual):
        for n in walk(d):
            if n.get("kind") in ("CXXMethodDecl", "FunctionDecl") and n.get("name") == short and pred(n) \
               and any(c.get("kind") == "CompoundStmt" for c in kids(n)):
                res.append(n)
    return res


def fit_tests():
    out = {}
    ms = methods_named(LS_H, "muduo::detail::FixedBuffer::append")
    if not ms:
        raise Untranslatable("FixedBuffer::append")
    ops = set()
    for m in ms:
        ops.add(guard_avail_vs(first_if_cond(m), "len"))
    if len(set(o for o, _ in ops)) != 1:
        raise Untranslatable("append instantiations disagree")
    out["append"] = sorted(ops)[0]
    ms = methods_named(LS_CC, "muduo::LogStream::formatInteger")
    if len(ms) < 6:
        raise Untranslatable("formatInteger instantiations: %d" % len(ms))
    ops = set(guard_avail_vs(first_if_cond(m), "kMaxNumericSize")[0] for m in ms)
    if len(ops) != 1:
        raise Untranslatable("formatInteger instantiations disagree")
    out["integer"] = (sorted(ops)[0], "formatInteger<T> x%d: %s" % (len(ms), cxxast.src_text(first_if_cond(ms[0]))))
    for key, ty in (("pointer", "const void *"), ("double", "double")):
        ms = methods_named(LS_CC, "muduo::LogStream::operator<<",
                           lambda n: (n.get("type") or {}).get("qualType", "").endswith("(%s)" % ty))
        if len(ms) != 1:
            raise Untranslatable("operator<<(%s): %d bodies" % (ty, len(ms)))
        out[key] = guard_avail_vs(first_if_cond(ms[0]), "kMaxNumericSize")
    # the size handed to snprintf in operator<<(double)
    call = [n for n in walk(ms[0]) if n.get("kind") == "CallExpr" and mentions(kids(n)[0], decl="snprintf")]
    if len(call) != 1 or not mentions(kids(call[0])[2], decl="kMaxNumericSize") or \
       [x.get("kind") for x in walk(kids(call[0])[2])].count("DeclRefExpr") != 1 or \
       any(x.get("kind") in ("BinaryOperator", "UnaryOperator") for x in walk(kids(call[0])[2])):
        raise Untranslatable("snprintf size in operator<<(double) is not kMaxNumericSize")
    fmt = [unquote(x["value"]) for x in walk(kids(call[0])[3]) if x.get("kind") == "StringLiteral"]
    out["double_fmt"] = bytes(fmt[0]).decode()
    return out


def log_levels():
    """enumerators of Logger::LogLevel with their values (implicit = previous + 1)."""
    for d in cxxast.dump("muduo/base/Logging.h", "muduo::Logger::LogLevel"):
        for e in cxxast.find(d, "EnumDecl", "LogLevel"):
            res, nxt = [], 0
            for c in kids(e):
                if c.get("kind") != "EnumConstantDecl":
                    continue
                val = None
                for x in walk(c):
                    if x.get("kind") == "ConstantExpr" and "value" in x:
                        val = int(x["value"])
                        break
                if val is None and kids(c):
                    val = cxxast.const_eval(kids(c)[0])
                if val is None:
                    val = nxt
                res.append((c["name"], val))
                nxt = val + 1
            if res:
                return res
    raise Untranslatable("enum Logger::LogLevel")


MACROS = ["LOG_TRACE", "LOG_DEBUG", "LOG_INFO", "LOG_WARN", "LOG_ERROR", "LOG_FATAL", "LOG_SYSERR", "LOG_SYSFATAL"]


def gates():
    probe = os.path.join(cxxast.ROOT, "_work", "gen_C17_probe.cc")
    os.makedirs(os.path.dirname(probe), exist_ok=True)
    txt = '#include "muduo/base/Logging.h"\n' + "".join("void verif_gate_%s() { %s << 1; }\n" % (m, m) for m in MACROS)
    if not os.path.exists(probe) or open(probe).read() != txt:
        open(probe, "w").write(txt)
    res = {}
    hdr = open(os.path.join(cxxast.REPO, "muduo/base/Logging.h")).read()
    for m in MACROS:
        fn = cxxast.function_decl(probe, "verif_gate_" + m)
        st = kids(cxxast.body(fn))
        if len(st) != 1:
            raise Untranslatable("%s expands to %d statements" % (m, len(st)))
        s0 = st[0]
        mm = re.search(r"#define\s+%s\b(.*(?:\\\n.*)*)" % m, hdr)
        src = " ".join(mm.group(1).replace("\\\n", " ").split()) if mm else ""
        if s0.get("kind") == "IfStmt":
            cond = strip(kids(s0)[0])
            if len(kids(s0)) != 2:
                raise Untranslatable("%s: if with else" % m)
            if cond.get("kind") != "BinaryOperator" or cond.get("opcode") not in CMP:
                raise Untranslatable("%s: gate is not a comparison" % m)
            a, b = [strip(x) for x in kids(cond)]
            if not (a.get("kind") == "CallExpr" and mentions(a, decl="logLevel")):
                raise Untranslatable("%s: lhs is not logLevel()" % m)
            if b.get("kind") != "DeclRefExpr" or b["referencedDecl"].get("kind") != "EnumConstantDecl":
                raise Untranslatable("%s: rhs is not a LogLevel enumerator" % m)
            res[m] = ("(cfg %s Logger_%s)" % (CMP[cond["opcode"]], b["referencedDecl"]["name"]), src)
        else:
            if any(x.get("kind") in ("IfStmt", "ConditionalOperator") for x in walk(s0)):
                raise Untranslatable("%s: conditional inside" % m)
            res[m] = ("true", src)
    return res


def fval(node, env):
    node = strip(node)
    k = node.get("kind")
    if k == "FloatingLiteral":
        return float(node["value"])
    if k == "IntegerLiteral":
        return float(int(node["value"]))
    if k == "DeclRefExpr":
        return env[node["referencedDecl"]["name"]]
    if k == "BinaryOperator" and node.get("opcode") == "*":
        a, b = kids(node)
        return fval(a, env) * fval(b, env)      # IEEE binary64, round to nearest: what the compiler folds
    raise Untranslatable("double expr " + str(k))


def ladder(name):
    fn = cxxast.function_decl(LS_CC, "muduo::" + name)
    env = {}
    rungs = []
    cur = None
    for st in kids(cxxast.body(fn)):
        if st.get("kind") == "DeclStmt":
            for v in kids(st):
                if v.get("kind") == "VarDecl" and v.get("name") not in ("n", "buf") and kids(v):
                    env[v["name"]] = fval(kids(v)[0], env)
                if v.get("name") == "n":
                    e = kids(v)[0]
                    if not (mentions(e, decl="s") and (v.get("type") or {}).get("qualType") == "double"):
                        raise Untranslatable("n is not double(s)")
        elif st.get("kind") == "IfStmt":
            cur = st
    if cur is None:
        raise Untranslatable("no ladder")

    def call_info(call):
        call = strip(call)
        if call.get("kind") != "CallExpr" or not mentions(kids(call)[0], decl="snprintf"):
            raise Untranslatable("rung is not snprintf")
        args = kids(call)[1:]
        fmt = bytes([unquote(x["value"]) for x in walk(args[2]) if x.get("kind") == "StringLiteral"][0]).decode()
        val = strip(args[3])
        if fmt in ("%ld", "%lld"):
            if not (val.get("kind") == "DeclRefExpr" and val["referencedDecl"]["name"] == "s"):
                raise Untranslatable("%ld of something else")
            return ("int",)
        m = re.match(r"^%\.(\d)f([A-Za-z]+)$", fmt)
        if not m or val.get("kind") != "BinaryOperator" or val.get("opcode") != "/":
            raise Untranslatable("format " + fmt)
        a, b = kids(val)
        if not (strip(a).get("kind") == "DeclRefExpr" and strip(a)["referencedDecl"]["name"] == "n"):
            raise Untranslatable("dividend is not n")
        div = fval(b, env)
        if div != int(div):
            raise Untranslatable("divisor not integral")
        return ("f", int(m.group(1)), int(div), m.group(2))

    while True:
        ks = kids(cur)
        cond = strip(ks[0])
        if cond.get("kind") != "BinaryOperator" or cond.get("opcode") != "<":
            raise Untranslatable("rung test is not <")
        a, b = kids(cond)
        lhs = strip(a)
        if not (lhs.get("kind") == "DeclRefExpr" and lhs["referencedDecl"]["name"] in ("s", "n")):
            raise Untranslatable("rung compares %s, expected s or n" % lhs.get("kind"))
        # the comparison is made on the double when the (converted) left operand has type double:
        # `n < X`, or `s < 9995.0` (s converted: the same value as n = static_cast<double>(s))
        lty = (a.get("type") or {}).get("qualType", "")
        if lty == "double":
            bound = ("dbl",) + fval(b, env).as_integer_ratio()
        elif lty in ("int64_t", "long", "long long") and lhs["referencedDecl"]["name"] == "s":
            bound = ("int", cxxast.const_eval(b), 1)
        else:
            raise Untranslatable("rung compares in type %r" % lty)
        echo = cxxast.src_text(cond) or "%s < %s" % (lhs["referencedDecl"]["name"], bound[1] if bound[2] == 1 else "%d/%d" % bound[1:])
        rungs.append((bound, call_info(ks[1]), echo))
        if len(ks) < 3:
            raise Untranslatable("ladder without final else")
        if ks[2].get("kind") == "IfStmt":
            cur = ks[2]
        else:
            rungs.append((None, call_info(ks[2]), "else"))
            break
    return rungs


def array_size(relfile, qual):
    short = qual.split("::")[-1]
    for d in cxxast.dump(relfile, qual):
        for v in cxxast.find(d, "VarDecl", short):
            m = re.match(r"^char\s*\[(\d+)\]$", (v.get("type") or {}).get("qualType", ""))
            if m:
                return int(m.group(1))
    raise Untranslatable("char array " + qual)


def logger_time():
    """Logger::Impl::formatTime: the refresh test of the per-thread second cache, the snprintf format of
    t_time, and per branch of `if (g_logTimeZone.valid())` the Fmt format of the microseconds and the
    two lengths streamed (T(t_time, N), T(us.data(), M)); plus the sizes of t_time and t_errnobuf."""
    ms = methods_named(LG_CC, "muduo::Logger::Impl::formatTime")
    if len(ms) != 1:
        raise Untranslatable("formatTime: %d bodies" % len(ms))
    ifs = [st for st in kids(cxxast.body(ms[0])) if st.get("kind") == "IfStmt"]
    if len(ifs) != 2:
        raise Untranslatable("formatTime: %d top-level ifs" % len(ifs))
    res = {}
    # (a) if (seconds != t_lastSecond) { t_lastSecond = seconds; ... snprintf(t_time, sizeof(t_time), FORMAT, ...) }
    c = strip(kids(ifs[0])[0])
    if c.get("kind") != "BinaryOperator" or not (mentions(c, decl="seconds") and mentions(c, decl="t_lastSecond")):
        raise Untranslatable("formatTime: first if does not compare seconds with t_lastSecond")
    res["refresh_op"] = c.get("opcode")
    if len(kids(ifs[0])) != 2:
        raise Untranslatable("formatTime: refresh if has an else")
    then = kids(ifs[0])[1]
    first = strip(kids(then)[0])
    if not (first.get("kind") == "BinaryOperator" and first.get("opcode") == "=" and mentions(kids(first)[0], decl="t_lastSecond")
            and mentions(kids(first)[1], decl="seconds")):
        raise Untranslatable("formatTime: the refresh branch does not start with t_lastSecond = seconds")
    calls = [n for n in walk(then) if n.get("kind") == "CallExpr" and mentions(kids(n)[0], decl="snprintf")]
    if len(calls) != 1 or not mentions(kids(calls[0])[1], decl="t_time") or not mentions(kids(calls[0])[2], decl="t_time"):
        raise Untranslatable("formatTime: snprintf(t_time, sizeof t_time, ...)")
    fm = [unquote(x["value"]) for x in walk(kids(calls[0])[3]) if x.get("kind") == "StringLiteral"]
    args = kids(calls[0])[4:]
    names = [[x.get("name") for x in walk(a) if x.get("kind") == "MemberExpr"] for a in args]
    if [n[:1] for n in names] != [["year"], ["month"], ["day"], ["hour"], ["minute"], ["second"]]:
        raise Untranslatable("formatTime: snprintf arguments %r" % names)
    res["time_fmt"] = fm[0]
    # (b) if (g_logTimeZone.valid()) {Fmt us(F1, microseconds); stream_ << T(t_time, N1) << T(us.data(), M1);} else {...}
    c = strip(kids(ifs[1])[0])
    if not (c.get("kind") == "CXXMemberCallExpr" and mentions(c, member="valid") and mentions(c, decl="g_logTimeZone")):
        raise Untranslatable("formatTime: second if is not g_logTimeZone.valid()")
    if len(kids(ifs[1])) != 3:
        raise Untranslatable("formatTime: zone if without else")
    for key, br in (("zone", kids(ifs[1])[1]), ("utc", kids(ifs[1])[2])):
        sts = kids(br)
        if not sts or sts[0].get("kind") != "DeclStmt" or not mentions(sts[0], decl="microseconds"):
            raise Untranslatable("formatTime %s branch: no Fmt us(.., microseconds)" % key)
        f = [unquote(x["value"]) for x in walk(sts[0]) if x.get("kind") == "StringLiteral"]
        if len(f) != 1:
            raise Untranslatable("formatTime %s branch: format literal" % key)
        last = sts[-1]
        if not (mentions(last, member="stream_") and mentions(last, decl="t_time") and mentions(last, member="data")):
            raise Untranslatable("formatTime %s branch: last statement is not stream_ << T(t_time, ..) << T(us.data(), ..)" % key)
        ints = [int(x["value"]) for x in walk(last) if x.get("kind") == "IntegerLiteral"]
        if len(ints) != 2:
            raise Untranslatable("formatTime %s branch: lengths %r" % (key, ints))
        res[key] = (f[0], ints[0], ints[1])
    for fmt in (res["time_fmt"], res["zone"][0], res["utc"][0]):
        t = bytes(fmt).decode("latin1")
        if re.sub(r"%0?[1-9]?d", "", t).count("%"):
            raise Untranslatable("format %r uses a conversion other than %%[0][w]d" % t)
    res["t_time_size"] = array_size(LG_CC, "muduo::t_time")
    res["errnobuf_size"] = array_size(LG_CC, "muduo::t_errnobuf")
    return res


TH_CC, CT_H, CT_CC = "muduo/base/Thread.cc", "muduo/base/CurrentThread.h", "muduo/base/CurrentThread.cc"


def is_zero_test(c, var):
    c = strip(c)
    if c.get("kind") == "CallExpr":            # __builtin_expect(t_cachedTid == 0, 0)
        args = kids(c)[1:]
        if mentions(kids(c)[0], decl="__builtin_expect") and len(args) == 2 and cxxast.const_eval(args[1]) == 0:
            return is_zero_test(args[0], var)
        return False
    if c.get("kind") != "BinaryOperator" or c.get("opcode") != "==":
        return False
    a, b = [strip(x) for x in kids(c)]
    return a.get("kind") == "DeclRefExpr" and a["referencedDecl"]["name"] == var and b.get("kind") == "IntegerLiteral" and int(b["value"]) == 0


def thread_tid():
    """CurrentThread's tid cache: cacheTid(), tid(), the atfork child handler afterFork() as a list of
    steps, its registration in ThreadNameInitializer's constructor (+ the static object), initial values."""
    res = {}
    # cacheTid(): if (t_cachedTid == 0) { t_cachedTid = gettid(); t_tidStringLength = snprintf(t_tidString, sizeof t_tidString, FMT, t_cachedTid); }
    ms = methods_named(TH_CC, "muduo::CurrentThread::cacheTid")
    if len(ms) != 1:
        raise Untranslatable("cacheTid: %d bodies" % len(ms))
    sts = kids(cxxast.body(ms[0]))
    ok = len(sts) == 1 and sts[0].get("kind") == "IfStmt" and len(kids(sts[0])) == 2 and is_zero_test(kids(sts[0])[0], "t_cachedTid")
    fmt, size_ok = None, False
    if ok:
        inner = kids(kids(sts[0])[1])
        ok = len(inner) == 2
        if ok:
            a0, a1 = [strip(x) for x in inner]
            ok = (a0.get("kind") == "BinaryOperator" and a0.get("opcode") == "=" and mentions(kids(a0)[0], decl="t_cachedTid")
                  and mentions(kids(a0)[1], decl="gettid") and not mentions(kids(a0)[1], decl="t_cachedTid"))
            ok = ok and a1.get("kind") == "BinaryOperator" and a1.get("opcode") == "=" and mentions(kids(a1)[0], decl="t_tidStringLength")
            if ok:
                calls = [n for n in walk(kids(a1)[1]) if n.get("kind") == "CallExpr" and mentions(kids(n)[0], decl="snprintf")]
                ok = len(calls) == 1
                if ok:
                    ca = kids(calls[0])
                    ok = (len(ca) == 5 and mentions(ca[1], decl="t_tidString") and mentions(ca[2], decl="t_tidString")
                          and any(x.get("kind") == "UnaryExprOrTypeTraitExpr" for x in walk(ca[2])) and mentions(ca[4], decl="t_cachedTid"))
                    f = [unquote(x["value"]) for x in walk(ca[3]) if x.get("kind") == "StringLiteral"]
                    fmt = f[0] if len(f) == 1 else None
    if fmt is None:
        raise Untranslatable("cacheTid: no snprintf(t_tidString, sizeof t_tidString, <literal>, t_cachedTid)")
    if re.sub(r"%0?[1-9]?d", "", bytes(fmt).decode("latin1")).count("%"):
        raise Untranslatable("cacheTid format")
    res["cacheTid_ok"], res["tid_fmt"] = bool(ok), fmt
    # tid(): if (__builtin_expect(t_cachedTid == 0, 0)) cacheTid(); return t_cachedTid;
    ms = methods_named(CT_H, "muduo::CurrentThread::tid")
    if len(ms) != 1:
        raise Untranslatable("CurrentThread::tid: %d bodies" % len(ms))
    sts = kids(cxxast.body(ms[0]))
    res["tid_ok"] = bool(len(sts) == 2 and sts[0].get("kind") == "IfStmt" and len(kids(sts[0])) == 2
                         and is_zero_test(kids(sts[0])[0], "t_cachedTid") and mentions(kids(sts[0])[1], decl="cacheTid")
                         and sts[1].get("kind") == "ReturnStmt" and mentions(sts[1], decl="t_cachedTid"))
    # afterFork(): a list of steps
    ms = methods_named(TH_CC, "muduo::detail::afterFork")
    if len(ms) != 1:
        raise Untranslatable("afterFork: %d bodies" % len(ms))
    steps = []
    for st in kids(cxxast.body(ms[0])):
        e = strip(st)
        if e.get("kind") == "BinaryOperator" and e.get("opcode") == "=" and strip(kids(e)[0]).get("kind") == "DeclRefExpr":
            lhs = strip(kids(e)[0])["referencedDecl"]["name"]
            rhs = strip(kids(e)[1])
            if lhs == "t_cachedTid":
                if rhs.get("kind") == "IntegerLiteral" and int(rhs["value"]) == 0:
                    steps.append("AfZeroTid")
                elif mentions(rhs, decl="gettid") or mentions(rhs, decl="syscall"):
                    steps.append("AfSetTid")
                else:
                    raise Untranslatable("afterFork: t_cachedTid = <unknown>")
            elif lhs in ("t_tidString", "t_tidStringLength"):
                raise Untranslatable("afterFork writes " + lhs)
            else:
                steps.append("AfOther")
        elif e.get("kind") == "CallExpr" and strip(kids(e)[0]).get("kind") == "DeclRefExpr":
            callee = strip(kids(e)[0])["referencedDecl"]["name"]
            if callee == "tid":
                steps.append("AfCallTid")
            elif callee == "cacheTid":
                steps.append("AfCacheTid")
            elif mentions(e, decl="t_cachedTid") or mentions(e, decl="t_tidString") or mentions(e, decl="t_tidStringLength"):
                raise Untranslatable("afterFork: call %s touches the tid cache" % callee)
            else:
                steps.append("AfOther")
        elif any(mentions(e, decl=v) for v in ("t_cachedTid", "t_tidString", "t_tidStringLength")):
            raise Untranslatable("afterFork: statement %s touches the tid cache" % e.get("kind"))
        else:
            steps.append("AfOther")
    res["af_steps"] = steps
    # ThreadNameInitializer(): pthread_atfork(NULL, NULL, &afterFork);  + a namespace-scope object of the class
    reg = False
    for d in cxxast.dump(TH_CC, "muduo::detail::ThreadNameInitializer"):
        for n in walk(d):
            if n.get("kind") == "CXXConstructorDecl" and any(c.get("kind") == "CompoundStmt" for c in kids(n)):
                for c in walk(n):
                    if c.get("kind") == "CallExpr" and mentions(kids(c)[0], decl="pthread_atfork"):
                        a = kids(c)[1:]
                        if len(a) == 3 and mentions(a[2], decl="afterFork") and not mentions(a[0], decl="afterFork") and not mentions(a[1], decl="afterFork"):
                            reg = True
    obj = False
    for d in cxxast.dump(TH_CC, "muduo::detail::init"):
        for v in cxxast.find(d, "VarDecl", "init"):
            if "ThreadNameInitializer" in (v.get("type") or {}).get("qualType", "") and v.get("storageClass") != "extern":
                obj = True
    res["atfork"] = reg and obj
    res["tid_string_size"] = array_size(CT_CC, "muduo::CurrentThread::t_tidString")
    for nm in ("t_cachedTid", "t_tidStringLength"):
        v = var_decl(CT_CC, "muduo::CurrentThread::" + nm)
        res[nm] = cxxast.const_eval(kids(v)[0])
    return res


def stream_ops():
    """LogStream.h: what operator<<(bool / char / const char* / string / StringPiece / Buffer) and operator<<(LogStream&, Fmt)
    append; Fmt's buffer, snprintf and length assert; Logging.cc strerror_tl."""
    res = {}

    def op(ty):
        ms = methods_named(LS_H, "muduo::LogStream::operator<<", lambda n: (n.get("type") or {}).get("qualType", "").endswith("(%s)" % ty))
        if len(ms) != 1:
            raise Untranslatable("operator<<(%s): %d bodies" % (ty, len(ms)))
        return ms[0]

    def appends(n):
        return [c for c in walk(n) if c.get("kind") == "CXXMemberCallExpr" and mentions(kids(c)[0], member="append")]
    b = op("bool")
    ap = appends(b)
    conds = [c for c in walk(b) if c.get("kind") == "ConditionalOperator"]
    if len(ap) != 1 or len(conds) != 1 or not mentions(kids(conds[0])[0], decl="v"):
        raise Untranslatable("operator<<(bool)")
    lits = [unquote(x["value"]) for x in walk(conds[0]) if x.get("kind") == "StringLiteral"]
    ln = cxxast.const_eval(kids(ap[0])[2])
    res["bool"] = (lits[0][:ln], lits[1][:ln])
    c = op("char")
    ap = appends(c)
    res["char_ok"] = bool(len(ap) == 1 and mentions(kids(ap[0])[1], decl="v") and cxxast.const_eval(kids(ap[0])[2]) == 1)
    cs = op("const char *")
    ifs = [x for x in walk(cs) if x.get("kind") == "IfStmt"]
    if len(ifs) != 1 or len(kids(ifs[0])) != 3:
        raise Untranslatable("operator<<(const char*)")
    cond = strip(kids(ifs[0])[0])
    a_then, a_else = appends(kids(ifs[0])[1]), appends(kids(ifs[0])[2])
    if not (cond.get("kind") == "DeclRefExpr" and cond["referencedDecl"]["name"] == "str") or len(a_then) != 1 or len(a_else) != 1:
        raise Untranslatable("operator<<(const char*): if (str) append / else append")
    res["cstr_ok"] = bool(mentions(kids(a_then[0])[1], decl="str") and mentions(kids(a_then[0])[2], decl="strlen") and mentions(kids(a_then[0])[2], decl="str"))
    nl = [unquote(x["value"]) for x in walk(kids(a_else[0])[1]) if x.get("kind") == "StringLiteral"]
    res["null"] = nl[0][:cxxast.const_eval(kids(a_else[0])[2])]
    oks = []
    def op_any(*tys):
        for ty in tys:
            try:
                return op(ty)
            except Untranslatable:
                pass
        raise Untranslatable("operator<<(%s)" % tys[0])
    for tys, d, sz in ((("const std::string &", "const muduo::string &", "const string &"), "c_str", "size"),
                       (("const muduo::StringPiece &", "const StringPiece &"), "data", "size")):
        m = op_any(*tys)
        ap = appends(m)
        oks.append(len(ap) == 1 and mentions(kids(ap[0])[1], member=d) and mentions(kids(ap[0])[2], member=sz) and mentions(kids(ap[0])[1], decl="v")
                   and mentions(kids(ap[0])[2], decl="v"))
    m = op_any("const muduo::LogStream::Buffer &", "const Buffer &")
    oks.append(mentions(m, member="toStringPiece") and not appends(m))
    fo = [n for n in methods_named(LS_H, "muduo::operator<<") if "Fmt" in (n.get("type") or {}).get("qualType", "")]
    if len(fo) != 1:
        raise Untranslatable("operator<<(LogStream&, const Fmt&): %d" % len(fo))
    ap = [c for c in walk(fo[0]) if c.get("kind") == "CXXMemberCallExpr" and mentions(kids(c)[0], member="append")]
    oks.append(len(ap) == 1 and mentions(kids(ap[0])[1], member="data") and mentions(kids(ap[0])[2], member="length"))
    res["str_ok"] = all(bool(x) for x in oks)
    # Fmt: char buf_[N]; Fmt(fmt, val): static_assert(is_arithmetic); length_ = snprintf(buf_, sizeof buf_, fmt, val); assert(size_t(length_) < sizeof buf_)
    size = None
    for d in cxxast.dump(LS_H, "muduo::Fmt"):
        for f in walk(d):
            if f.get("kind") == "FieldDecl" and f.get("name") == "buf_":
                mm = re.match(r"^char\s*\[(\d+)\]$", (f.get("type") or {}).get("qualType", ""))
                if mm:
                    size = int(mm.group(1))
    if size is None:
        raise Untranslatable("Fmt::buf_")
    res["fmt_size"] = size
    ctors = []
    for d in cxxast.dump(LS_CC, "muduo::Fmt::Fmt"):
        for n in walk(d):
            if n.get("kind") == "CXXConstructorDecl" and any(c.get("kind") == "CompoundStmt" for c in kids(n)) \
               and not (n.get("type") or {}).get("qualType", "").endswith(", T)"):      # the instantiations, not the pattern
                ctors.append(n)
    if not ctors:
        raise Untranslatable("Fmt::Fmt bodies")
    good = True
    src = open(os.path.join(cxxast.REPO, LS_CC)).read()
    mm = re.search(r"Fmt::Fmt\(const char\* fmt, T val\)\s*\{(.*?)\n\}", src, re.S)
    body = mm.group(1) if mm else ""
    res["fmt_static_assert"] = bool(re.search(r"static_assert\(\s*std::is_arithmetic<T>::value\s*==\s*true", body))
    am = re.search(r"assert\(\s*static_cast<size_t>\(length_\)\s*(<=|<|>|>=|==|!=)\s*sizeof\s*\(?\s*buf_\s*\)?\s*\)", body)
    res["fmt_assert_op"] = am.group(1) if am else "?"
    for n in ctors:
        calls = [c for c in walk(n) if c.get("kind") == "CallExpr" and mentions(kids(c)[0], decl="snprintf")]
        if len(calls) != 1:
            good = False
            continue
        ca = kids(calls[0])
        good = good and mentions(ca[1], member="buf_") and mentions(ca[2], member="buf_") and mentions(ca[3], decl="fmt") and mentions(ca[4], decl="val")
    res["fmt_ctor_ok"] = bool(good)
    # strerror_tl: return strerror_r(savedErrno, t_errnobuf, sizeof t_errnobuf);  (GNU: the RESULT is the text, in the buffer or static)
    ms = methods_named(LG_CC, "muduo::strerror_tl")
    if len(ms) != 1:
        raise Untranslatable("strerror_tl")
    sts = kids(cxxast.body(ms[0]))
    ok = len(sts) == 1 and sts[0].get("kind") == "ReturnStmt"
    if ok:
        calls = [c for c in walk(sts[0]) if c.get("kind") == "CallExpr" and mentions(kids(c)[0], decl="strerror_r")]
        ok = len(calls) == 1
        if ok:
            ca = kids(calls[0])
            ok = (len(ca) == 4 and mentions(ca[1], decl="savedErrno") and mentions(ca[2], decl="t_errnobuf") and mentions(ca[3], decl="t_errnobuf")
                  and any(x.get("kind") == "UnaryExprOrTypeTraitExpr" for x in walk(ca[3])))
            ok = ok and "char *" in (calls[0].get("type") or {}).get("qualType", "")
    res["strerror_ok"] = bool(ok)
    return res


def coq_rung(r):
    bound, info, src = r
    b = "Else" if bound is None else "%s (%d) (%d)" % ("OnInt" if bound[0] == "int" else "OnDouble", bound[1], bound[2])
    if info[0] == "int":
        return "(%s, RInt)  (* %s *)" % (b, src)
    return "(%s, RFix %d (%d) %s)  (* %s *)" % (b, info[1], info[2], bl(info[3]), src)


DEFAULT = {
    "tables": (list(b"9876543210123456789"), 9, list(b"0123456789ABCDEF"),
               [list(x) for x in (b"TRACE ", b"DEBUG ", b"INFO  ", b"WARN  ", b"ERROR ", b"FATAL ")]),
    "fit": {"append": (">?", "default"), "integer": (">=?", "default"), "pointer": (">=?", "default"),
            "double": (">=?", "default"), "double_fmt": "%.12g"},
    "time": {"refresh_op": "!=", "time_fmt": list(b"%4d%02d%02d %02d:%02d:%02d"), "zone": (list(b".%06d "), 17, 8),
             "utc": (list(b".%06dZ "), 17, 9), "t_time_size": 64, "errnobuf_size": 512},
    "tid": {"cacheTid_ok": True, "tid_fmt": list(b"%5d "), "tid_ok": True, "af_steps": ["AfZeroTid", "AfOther", "AfCallTid"], "atfork": True,
            "tid_string_size": 32, "t_cachedTid": 0, "t_tidStringLength": 6},
    "ops": {"bool": (list(b"1"), list(b"0")), "char_ok": True, "cstr_ok": True, "null": list(b"(null)"), "str_ok": True, "fmt_size": 32,
            "fmt_static_assert": True, "fmt_assert_op": "<", "fmt_ctor_ok": True, "strerror_ok": True},
    "gates": {"LOG_TRACE": ("(cfg <=? Logger_TRACE)", "default"), "LOG_DEBUG": ("(cfg <=? Logger_DEBUG)", "default"),
              "LOG_INFO": ("(cfg <=? Logger_INFO)", "default"), "LOG_WARN": ("true", "default"),
              "LOG_ERROR": ("true", "default"), "LOG_FATAL": ("true", "default"),
              "LOG_SYSERR": ("true", "default"), "LOG_SYSFATAL": ("true", "default")},
}


def attempt(name, f):
    try:
        return f()
    except Exception as e:  # noqa
        fallbacks.append("%s (%s)" % (name, str(e)[:200]))
        return None


def stamp_key():
    import glob, hashlib
    h = hashlib.sha1()
    files = sorted(glob.glob(os.path.join(cxxast.REPO, "muduo/base/*.h"))) + \
        [os.path.join(cxxast.REPO, f) for f in (LS_CC, LG_CC, TH_CC, CT_CC)] + [os.path.abspath(__file__), cxxast.__file__]
    for f in files:
        h.update(f.encode())
        try:
            h.update(open(f, "rb").read())
        except OSError:
            h.update(b"<missing>")
    return h.hexdigest()


def main():
    # pure function of the sources hashed by stamp_key(): skip the clang runs when nothing changed
    path = os.path.join(cxxast.ROOT, "coq/Gen_C17.v")
    stamp = os.path.join(cxxast.ROOT, "_work", "gen_C17.stamp")
    key = stamp_key()
    if os.path.exists(path) and os.path.exists(stamp) and not os.environ.get("GEN_C17_WRITE_DEFAULT"):
        import hashlib
        st = open(stamp).read().split("\n")
        if len(st) >= 2 and st[0] == key and st[1] == hashlib.sha1(open(path, "rb").read()).hexdigest():
            for fb in st[2:]:
                if fb:
                    print(fb)
            return 0
    out = ["(* GENERATED by lib/gen_C17.py from the sources under VERIF_REPO -- do not edit *)",
           "From Coq Require Import List ZArith.", "From Coq.Strings Require Import Byte.",
           "From Muduo Require Import Gen_Consts.", "Import ListNotations.", "Local Open Scope Z_scope.", ""]
    t = attempt("tables", tables) or DEFAULT["tables"]
    out += ["(* LogStream.cc: const char digits[] / zero = digits + k / digitsHex; Logging.cc: LogLevelName *)",
            "Definition digits : list byte := %s." % bl(t[0]),
            "Definition zero_off : Z := (%d)." % t[1],
            "Definition digitsHex : list byte := %s." % bl(t[2]),
            "Definition LogLevelName : list (list byte) := [%s]." % "; ".join(bl(x) for x in t[3]), ""]
    f = attempt("fit tests", fit_tests) or DEFAULT["fit"]
    out += ["(* LogStream.h FixedBuffer::append: %s *)" % " ".join(f["append"][1].split()),
            "Definition append_fits (avail len : Z) : bool := (avail %s len)." % f["append"][0],
            "(* LogStream.cc %s *)" % " ".join(f["integer"][1].split()),
            "Definition integer_fits (avail : Z) : bool := (avail %s LogStream_kMaxNumericSize)." % f["integer"][0],
            "(* LogStream.cc operator<<(const void* ): %s *)" % " ".join(f["pointer"][1].split()),
            "Definition pointer_fits (avail : Z) : bool := (avail %s LogStream_kMaxNumericSize)." % f["pointer"][0],
            "(* LogStream.cc operator<<(double): %s ; snprintf(current(), kMaxNumericSize, \"%s\", v) *)"
            % (" ".join(f["double"][1].split()), f["double_fmt"]),
            "Definition double_fits (avail : Z) : bool := (avail %s LogStream_kMaxNumericSize)." % f["double"][0],
            "Definition double_format_is_12g : bool := %s." % ("true" if f["double_fmt"] == "%.12g" else "false"), ""]
    lv = attempt("LogLevel enum", log_levels) or [("TRACE", 0), ("DEBUG", 1), ("INFO", 2), ("WARN", 3), ("ERROR", 4),
                                                   ("FATAL", 5), ("NUM_LOG_LEVELS", 6)]
    out += ["(* Logging.h enum Logger::LogLevel *)"] + ["Definition Logger_%s : Z := (%d)." % nv for nv in lv] + [""]
    g = attempt("level gates", gates) or DEFAULT["gates"]
    for m in MACROS:
        out += ["(* Logging.h #define %s %s *)" % (m, g[m][1].replace("(*", "( *").replace("*)", "* )")),
                "Definition gate_%s (cfg : Z) : bool := %s." % (m, g[m][0])]
    lt = attempt("Logger::Impl::formatTime", logger_time) or DEFAULT["time"]
    out += ["", "(* Logging.cc Logger::Impl::formatTime: `if (seconds %s t_lastSecond)` refreshes the per-thread cache with" % lt["refresh_op"],
            "   snprintf(t_time, sizeof(t_time), time_format, year, month, day, hour, minute, second); then",
            "   if (g_logTimeZone.valid()) Fmt us(us_format_zone, microseconds), stream_ << T(t_time, time_len_zone) << T(us.data(), us_len_zone)",
            "   else                       Fmt us(us_format_utc, microseconds),  stream_ << T(t_time, time_len_utc)  << T(us.data(), us_len_utc) *)",
            "Definition cache_refresh_is_ne : bool := %s." % ("true" if lt["refresh_op"] == "!=" else "false"),
            "Definition time_format : list byte := %s." % bl(lt["time_fmt"]),
            "Definition us_format_zone : list byte := %s." % bl(lt["zone"][0]),
            "Definition time_len_zone : Z := (%d)." % lt["zone"][1],
            "Definition us_len_zone : Z := (%d)." % lt["zone"][2],
            "Definition us_format_utc : list byte := %s." % bl(lt["utc"][0]),
            "Definition time_len_utc : Z := (%d)." % lt["utc"][1],
            "Definition us_len_utc : Z := (%d)." % lt["utc"][2],
            "(* Logging.cc: __thread char t_time[..]; __thread char t_errnobuf[..] (strerror_tl's buffer) *)",
            "Definition Logging_t_time_size : Z := (%d)." % lt["t_time_size"],
            "Definition Logging_errnobuf_size : Z := (%d)." % lt["errnobuf_size"]]
    tt = attempt("CurrentThread tid cache / afterFork", thread_tid) or DEFAULT["tid"]
    out += ["", "(* CurrentThread.h/.cc, Thread.cc: the per-thread tid cache.  cacheTid(): `if (t_cachedTid == 0) { t_cachedTid = gettid();",
            "   t_tidStringLength = snprintf(t_tidString, sizeof t_tidString, tid_format, t_cachedTid); }`; tid(): `if (t_cachedTid == 0) cacheTid();",
            "   return t_cachedTid;`; afterFork() statement by statement; ThreadNameInitializer(): pthread_atfork(NULL, NULL, &afterFork) and the",
            "   namespace-scope object of that class; initial values *)",
            "Inductive af_step := AfZeroTid | AfSetTid | AfCallTid | AfCacheTid | AfOther.",
            "Definition afterFork_steps : list af_step := [%s]." % "; ".join(tt["af_steps"]),
            "Definition atfork_child_registered : bool := %s." % ("true" if tt["atfork"] else "false"),
            "Definition tid_format : list byte := %s." % bl(tt["tid_fmt"]),
            "Definition tid_string_size : Z := (%d)." % tt["tid_string_size"],
            "Definition cacheTid_shape_ok : bool := %s." % ("true" if tt["cacheTid_ok"] else "false"),
            "Definition tid_shape_ok : bool := %s." % ("true" if tt["tid_ok"] else "false"),
            "Definition cachedTid_init : Z := (%d)." % tt["t_cachedTid"],
            "Definition tidStringLength_init : Z := (%d)." % tt["t_tidStringLength"]]
    so = attempt("LogStream operators / Fmt / strerror_tl", stream_ops) or DEFAULT["ops"]
    out += ["", "(* LogStream.h: operator<<(bool) appends one of two literals; operator<<(const char* ) appends the string or this literal for NULL;",
            "   char / string / StringPiece / Buffer / Fmt append their bytes; Fmt: char buf_[..], length_ = snprintf(buf_, sizeof buf_, fmt, val),",
            "   assert(size_t(length_) < sizeof buf_), static_assert(is_arithmetic); Logging.cc strerror_tl returns strerror_r's result *)",
            "Definition bool_true_text : list byte := %s." % bl(so["bool"][0]),
            "Definition bool_false_text : list byte := %s." % bl(so["bool"][1]),
            "Definition null_text_gen : list byte := %s." % bl(so["null"]),
            "Definition append_ops_shape_ok : bool := %s." % ("true" if (so["char_ok"] and so["cstr_ok"] and so["str_ok"]) else "false"),
            "Definition Fmt_buf_size : Z := (%d)." % so["fmt_size"],
            "Definition Fmt_length_assert_is_lt : bool := %s." % ("true" if so["fmt_assert_op"] == "<" else "false"),
            "Definition Fmt_shape_ok : bool := %s." % ("true" if (so["fmt_static_assert"] and so["fmt_ctor_ok"]) else "false"),
            "Definition strerror_tl_shape_ok : bool := %s." % ("true" if so["strerror_ok"] else "false")]
    out += ["", "(* one rung: (the test, what is printed).  OnInt: `s < num/den` on the integer; OnDouble: `double(s) < num/den`",
            "   (num/den = exact value of the folded double constant); Else = final else *)",
            "Inductive rung_test := OnInt (num den : Z) | OnDouble (num den : Z) | Else.",
            "Inductive rung_fmt := RInt | RFix (prec : Z) (divisor : Z) (unit : list byte)."]
    si = attempt("formatSI ladder", lambda: ladder("formatSI"))
    iec = attempt("formatIEC ladder", lambda: ladder("formatIEC"))
    if si is None or iec is None:
        # committed defaults = the pinned tree's ladders
        import ast
        d = ast.literal_eval(open(os.path.join(cxxast.ROOT, "lib/consts/C17_ladders.default")).read())
        si = si or d["si"]
        iec = iec or d["iec"]
    if os.environ.get("GEN_C17_WRITE_DEFAULT"):
        open(os.path.join(cxxast.ROOT, "lib/consts/C17_ladders.default"), "w").write(repr({"si": si, "iec": iec}) + "\n")
    out += ["(* formatSI *)",
            "Definition si_ladder : list (rung_test * rung_fmt) := ["] + \
           ["  " + coq_rung(r) + (";" if i + 1 < len(si) else "") for i, r in enumerate([(a, tuple(b), c.replace(";", ",")) for a, b, c in si])] + ["]."]
    out += ["(* formatIEC *)",
            "Definition iec_ladder : list (rung_test * rung_fmt) := ["] + \
           ["  " + coq_rung(r) + (";" if i + 1 < len(iec) else "") for i, r in enumerate([(a, tuple(b), c.replace(";", ",")) for a, b, c in iec])] + ["]."]
    txt = "\n".join(out) + "\n"
    old = open(path).read() if os.path.exists(path) else None
    if old != txt:
        open(path, "w").write(txt)
    for fb in fallbacks:
        print("FALLBACK", fb)
    import hashlib
    os.makedirs(os.path.dirname(stamp), exist_ok=True)
    open(stamp, "w").write("\n".join([key, hashlib.sha1(txt.encode()).hexdigest()] + ["FALLBACK " + fb for fb in fallbacks]))
    return 0


if __name__ == "__main__":
    sys.exit(main())
