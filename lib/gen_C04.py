#!/usr/bin/env python3
"""C04/C05 translator output -> coq/Gen_C04.v: the three places of EventLoop.cc on which the
LoopModel (coq/C04_Model.v) is parametrised, read from the clang JSON AST of the CURRENT /repo:

  queueInLoop_wake_test (in_loop_thread calling looping : bool) : bool
      the condition guarding wakeup() in EventLoop::queueInLoop (true if wakeup() is called
      unconditionally, false if it is not called at all);
  quit_wake_test (in_loop_thread : bool) : bool        the same for EventLoop::quit;
  loop_resets_quit : rmode    where EventLoop::loop() assigns quit_ = false: before its while loop
                              (ResetEntry), after it (ResetExit) or nowhere (ResetNone).

Properties_C04.v / Properties_C05.v state their theorems about  Gen_C04.gen_shape ; which of the
theorem / refutation branches applies is decided inside Coq by computing the wake-up test on the
six relevant inputs, so editing the test in the source changes what is proved (or breaks it)."""
import os, sys
sys.path.insert(0, os.path.dirname(os.path.abspath(__file__)))
import cxxast

REL = "muduo/net/EventLoop.cc"
VARS = {"callingPendingFunctors_": "calling", "looping_": "looping"}


def kids(n):
    return [c for c in n.get("inner", []) or [] if isinstance(c, dict)]


def tr_bool(n):
    n = cxxast.strip(n)
    k = n.get("kind")
    if k == "BinaryOperator" and n.get("opcode") in ("||", "&&"):
        a, b = kids(n)
        return "(%s %s %s)" % (tr_bool(a), n["opcode"], tr_bool(b))
    if k == "UnaryOperator" and n.get("opcode") == "!":
        return "(negb %s)" % tr_bool(kids(n)[0])
    if k == "CXXMemberCallExpr":
        callee = cxxast.strip(kids(n)[0])
        if callee.get("kind") == "MemberExpr" and callee.get("name") == "isInLoopThread" and len(kids(n)) == 1:
            return "in_loop_thread"
        # std::atomic<bool>::operator bool  (quit_ / flags declared atomic)
        if callee.get("kind") == "MemberExpr" and callee.get("name", "").startswith("operator"):
            return tr_bool(kids(callee)[0])
    if k == "MemberExpr" and n.get("name") in VARS:
        return VARS[n["name"]]
    if k == "CXXBoolLiteralExpr":
        return "true" if n.get("value") else "false"
    raise cxxast.Untranslatable("boolean expression %s %s" % (k, n.get("name", "")))


def calls(node, member):
    for n in cxxast.walk(node):
        if n.get("kind") == "CXXMemberCallExpr":
            c = cxxast.strip(kids(n)[0])
            if c.get("kind") == "MemberExpr" and c.get("name") == member:
                return True
    return False


def guard_of(fn, member):
    """(coq term, source text) of the condition under which `member()` is called in fn:
    the innermost enclosing if (then-branch only; anything more complicated is untranslatable)."""
    body = cxxast.body(fn)
    if not calls(body, member):
        return "false", "(no call of %s())" % member

    def rec(node, conds):
        res = []
        for c in kids(node):
            if c.get("kind") == "IfStmt":
                ks = kids(c)
                cond, then = ks[0], ks[1]
                els = ks[2] if len(ks) > 2 else None
                if els is not None and calls(els, member):
                    raise cxxast.Untranslatable("%s() in an else branch" % member)
                if calls(cond, member):
                    raise cxxast.Untranslatable("%s() inside a condition" % member)
                if calls(then, member):
                    res += rec(then, conds + [cond]) or [conds + [cond]]
            elif c.get("kind") in ("WhileStmt", "ForStmt", "DoStmt", "SwitchStmt", "CXXForRangeStmt", "LambdaExpr") and calls(c, member):
                raise cxxast.Untranslatable("%s() inside a loop/switch/lambda" % member)
            elif c.get("kind") == "CXXMemberCallExpr" and calls(c, member) and cxxast.strip(kids(c)[0]).get("name") == member:
                res.append(list(conds))
            elif calls(c, member):
                res += rec(c, conds)
        return res
    paths = rec(body, [])
    if not paths:
        raise cxxast.Untranslatable("call of %s() not found structurally" % member)
    terms, srcs = [], []
    for p in paths:
        if not p:
            terms.append("true")
            srcs.append("(unconditional)")
        else:
            terms.append("(" + " && ".join(tr_bool(c) for c in p) + ")")
            srcs.append(" && ".join(" ".join(cxxast.src_text(c, REL).split()) for c in p))
    return "(" + " || ".join(terms) + ")", " || ".join(srcs)


def loop_resets(fn):
    """Where EventLoop::loop() assigns `quit_ = false` at its top level: before the while loop
    (ResetEntry), after it (ResetExit), nowhere (ResetNone).  Anything else (both places, another
    value, an assignment inside the while loop) is untranslatable."""
    body = cxxast.body(fn)
    before, after = [], []
    seen_while = False
    for c in kids(body):
        if c.get("kind") == "WhileStmt":
            if seen_while:
                raise cxxast.Untranslatable("more than one while loop at the top level of EventLoop::loop")
            seen_while = True
            for n in cxxast.walk(c):
                if n.get("kind") in ("BinaryOperator", "CXXOperatorCallExpr") and n.get("opcode", "=") == "=":
                    ks = kids(n)
                    lhs = cxxast.strip(ks[0]) if ks else {}
                    if n.get("kind") == "CXXOperatorCallExpr" and len(ks) > 1:
                        lhs = cxxast.strip(ks[1])
                    if lhs.get("kind") == "MemberExpr" and lhs.get("name") == "quit_":
                        raise cxxast.Untranslatable("assignment to quit_ inside the while loop of EventLoop::loop")
            continue
        if c.get("kind") in ("BinaryOperator", "CXXOperatorCallExpr"):
            names = [n.get("name") for n in cxxast.walk(c) if n.get("kind") == "MemberExpr"]
            lits = [n.get("value") for n in cxxast.walk(c) if n.get("kind") == "CXXBoolLiteralExpr"]
            txt = " ".join(cxxast.src_text(c, REL).split())
            if "quit_" in names and "=" in txt:
                if lits == [False]:
                    (after if seen_while else before).append(txt)
                else:
                    raise cxxast.Untranslatable("assignment to quit_ that is not `= false`: " + txt)
    if not seen_while:
        raise cxxast.Untranslatable("no while loop at the top level of EventLoop::loop")
    if before and after:
        raise cxxast.Untranslatable("quit_ = false both before and after the while loop")
    if before:
        return "ResetEntry", "before the while loop: " + before[0]
    if after:
        return "ResetExit", "after the while loop: " + after[0]
    return "ResetNone", "(no assignment quit_ = false at the top level of loop())"


def quit_order(fn):
    """does EventLoop::quit() store quit_ = true BEFORE the statement that (conditionally) calls wakeup()?"""
    pos_store, pos_wake = None, None
    for i, c in enumerate(kids(cxxast.body(fn))):
        if c.get("kind") in ("BinaryOperator", "CXXOperatorCallExpr") and pos_store is None:
            names = [n.get("name") for n in cxxast.walk(c) if n.get("kind") == "MemberExpr"]
            lits = [n.get("value") for n in cxxast.walk(c) if n.get("kind") == "CXXBoolLiteralExpr"]
            if "quit_" in names and lits == [True]:
                pos_store = i
        if calls(c, "wakeup") and pos_wake is None:
            pos_wake = i
    if pos_store is None:
        raise cxxast.Untranslatable("EventLoop::quit does not assign quit_ = true at its top level")
    if pos_wake is None:
        return True, "quit_ = true; (no call of wakeup())"
    return pos_store < pos_wake, ("quit_ = true comes before the wake-up" if pos_store < pos_wake else "the wake-up comes before quit_ = true")


def clean(s):
    return s.replace("*)", "* )").replace("(*", "( *")


def main():
    out = ["(* GENERATED by lib/gen_C04.py from %s -- do not edit *)" % cxxast.REPO,
           "From Coq Require Import Bool.", "From Muduo Require Import C04_Model.", "Local Open Scope bool_scope.", ""]
    msgs = []
    try:
        term, src = guard_of(cxxast.function_decl(REL, "EventLoop::queueInLoop"), "wakeup")
        out.append("(* %s, EventLoop::queueInLoop, guard of wakeup(): %s *)" % (REL, clean(src)))
        out.append("Definition queueInLoop_wake_test (in_loop_thread calling looping : bool) : bool :=\n  %s." % term)
    except Exception as e:  # noqa
        out.append("(* MISSING queueInLoop_wake_test: %s *)" % clean(str(e)))
        msgs.append("MISSING queueInLoop_wake_test (%s)" % e)
    try:
        term, src = guard_of(cxxast.function_decl(REL, "EventLoop::quit"), "wakeup")
        out.append("(* %s, EventLoop::quit, guard of wakeup(): %s *)" % (REL, clean(src)))
        out.append("Definition quit_wake_test (in_loop_thread : bool) : bool :=\n  let calling := false in let looping := false in %s." % term)
    except Exception as e:  # noqa
        out.append("(* MISSING quit_wake_test: %s *)" % clean(str(e)))
        msgs.append("MISSING quit_wake_test (%s)" % e)
    try:
        r, src = loop_resets(cxxast.function_decl(REL, "EventLoop::loop"))
        out.append("(* %s, EventLoop::loop, %s *)" % (REL, clean(src)))
        out.append("Definition loop_resets_quit : C04_Model.rmode := C04_Model.%s." % r)
    except Exception as e:  # noqa
        out.append("(* MISSING loop_resets_quit: %s *)" % clean(str(e)))
        msgs.append("MISSING loop_resets_quit (%s)" % e)
    try:
        qf, src = quit_order(cxxast.function_decl(REL, "EventLoop::quit"))
        out.append("(* %s, EventLoop::quit: %s *)" % (REL, clean(src)))
        out.append("Definition quit_stores_before_wakeup : bool := %s." % ("true" if qf else "false"))
    except Exception as e:  # noqa
        out.append("(* FALLBACK quit_stores_before_wakeup: %s *)" % clean(str(e)))
        out.append("Definition quit_stores_before_wakeup : bool := true.")
        msgs.append("FALLBACK quit_stores_before_wakeup (%s)" % e)
    out.append("")
    out.append("Definition gen_shape : C04_Model.shape :=\n  C04_Model.mkShape queueInLoop_wake_test loop_resets_quit quit_wake_test.")
    txt = "\n".join(out) + "\n"
    path = os.path.join(cxxast.ROOT, "coq/Gen_C04.v")
    old = open(path).read() if os.path.exists(path) else None
    if old != txt:
        open(path, "w").write(txt)
    for m in msgs:
        print(m)
    return 0


if __name__ == "__main__":
    sys.exit(main())
