"""vlib: shared machinery for every check (DESIGN.md 2.3): regenerate -> prove -> extract
-> build harness against /repo's current sources -> run both sides -> verdict -> evidence."""
import os, sys, re, json, time, glob, hashlib, subprocess, fcntl, shutil, random
from concurrent.futures import ThreadPoolExecutor

ROOT = os.path.dirname(os.path.dirname(os.path.abspath(__file__)))
REPO = os.environ.get("VERIF_REPO", "/repo")
WORK = os.path.join(ROOT, "_work")
COQ = os.path.join(ROOT, "coq")
NPROC = int(os.environ.get("VERIF_JOBS", "16"))

os.makedirs(WORK, exist_ok=True)


def sh(cmd, cwd=None, timeout=1800, env=None, stdin=None, shell=False):
    """Run, return (rc, stdout+stderr). rc = 124 on timeout."""
    e = dict(os.environ)
    if env:
        e.update(env)
    try:
        p = subprocess.run(cmd, cwd=cwd, env=e, input=stdin, stdout=subprocess.PIPE,
                           stderr=subprocess.STDOUT, timeout=timeout, shell=shell)
        return p.returncode, p.stdout.decode("utf-8", "replace")
    except subprocess.TimeoutExpired as ex:
        return 124, (ex.stdout or b"").decode("utf-8", "replace") + "\nTIMEOUT"


def sh2(cmd, cwd=None, timeout=1800, env=None, stdin=None):
    """Run, return (rc, stdout, stderr) separately (bytes in, str out)."""
    e = dict(os.environ)
    if env:
        e.update(env)
    try:
        p = subprocess.run(cmd, cwd=cwd, env=e, input=stdin, stdout=subprocess.PIPE,
                           stderr=subprocess.PIPE, timeout=timeout)
        return p.returncode, p.stdout.decode("utf-8", "replace"), p.stderr.decode("utf-8", "replace")
    except subprocess.TimeoutExpired as ex:
        return 124, (ex.stdout or b"").decode("utf-8", "replace"), "TIMEOUT"


class Lock:
    def __init__(self, name):
        self.path = os.path.join(WORK, name + ".lock")

    def __enter__(self):
        self.f = open(self.path, "w")
        fcntl.flock(self.f, fcntl.LOCK_EX)
        return self

    def __exit__(self, *a):
        fcntl.flock(self.f, fcntl.LOCK_UN)
        self.f.close()


def sha_files(paths, extra=""):
    h = hashlib.sha1()
    h.update(extra.encode())
    for p in sorted(paths):
        h.update(p.encode())
        try:
            h.update(open(p, "rb").read())
        except OSError:
            h.update(b"<missing>")
    return h.hexdigest()[:16]


# --------------------------------------------------------------------------- Coq

FORBIDDEN = re.compile(r"\b(Admitted|admit|Axiom|Axioms|Parameter|Parameters|Conjecture|Conjectures|"
                       r"Unset\s+Guard|Unset\s+Positivity|Unset\s+Universe|bypass_check|Admit\s+Obligations|"
                       r"native_compute|type-in-type|impredicative-set)\b")


def strip_coq_comments(txt):
    out = []
    depth = 0
    i = 0
    n = len(txt)
    while i < n:
        if txt.startswith("(*", i):
            depth += 1
            i += 2
        elif txt.startswith("*)", i) and depth > 0:
            depth -= 1
            i += 2
        else:
            if depth == 0:
                out.append(txt[i])
            elif txt[i] == "\n":
                out.append("\n")
            i += 1
    return "".join(out)


def hygiene(closure=None, prop=None):
    """Forbidden constructs (comments stripped) in the files the property's theorems depend on: the
    closure of Properties_<prop>.v and its extraction file; the whole development when no closure is given."""
    bad = []
    files = sorted(glob.glob(os.path.join(COQ, "*.v")) + glob.glob(os.path.join(ROOT, "extract", "*.v")))
    if closure is not None:
        files = [f for f in files if (os.path.dirname(f) == COQ and os.path.basename(f)[:-2] in closure)
                 or (os.path.dirname(f) != COQ and prop is not None and os.path.basename(f).startswith(prop + "_"))]
    for f in files:
        txt = strip_coq_comments(open(f).read())
        for ln, line in enumerate(txt.split("\n"), 1):
            m = FORBIDDEN.search(line)
            if m:
                bad.append("%s:%d: %s" % (os.path.relpath(f, ROOT), ln, m.group(0)))
            if re.match(r"\s*(Variable|Variables|Hypothesis|Hypotheses|Context)\b", line):
                # allowed only inside a Section: checked structurally below
                pass
        # Variables / Hypotheses outside sections
        depth = 0
        for ln, line in enumerate(txt.split("\n"), 1):
            if re.match(r"\s*Section\s+\w+", line):
                depth += 1
            elif re.match(r"\s*End\s+\w+", line) and depth > 0:
                depth -= 1
            elif depth == 0 and re.match(r"\s*(Variable|Variables|Hypothesis|Hypotheses)\b", line):
                bad.append("%s:%d: %s outside a Section" % (os.path.relpath(f, ROOT), ln, line.strip()))
    return bad


def coq_closure(prop):
    """Basenames (without .v) of the files Properties_<prop>.v transitively depends on (itself included),
    from `coqdep`; None if it cannot be computed (then callers fall back to 'everything')."""
    try:
        vs = sorted(os.path.basename(f) for f in glob.glob(os.path.join(COQ, "*.v")))
        rc, out, err = sh2(["coqdep", "-Q", ".", "Muduo"] + vs, cwd=COQ, timeout=300)
        deps = {}
        for line in out.splitlines():
            if ":" not in line:
                continue
            lhs, rhs = line.split(":", 1)
            tg = [t for t in lhs.split() if t.endswith(".vo")]
            if not tg:
                continue
            name = os.path.basename(tg[0])[:-3]
            deps.setdefault(name, set()).update(os.path.basename(d)[:-3] for d in rhs.split() if d.endswith(".vo"))
        root = "Properties_%s" % prop
        if root not in deps:
            return None
        seen, todo = set(), [root]
        while todo:
            x = todo.pop()
            if x in seen:
                continue
            seen.add(x)
            todo += list(deps.get(x, ()))
        return seen
    except Exception:
        return None


def regenerate(prop=None):
    """L0: regenerate coq/Gen_*.v from REPO (in parallel).  With `prop`, only the generators whose output
    the closure of Properties_<prop>.v imports (all of them when a Gen file is missing or the closure is
    unknown).  Returns list of problems (strings)."""
    problems = []
    gens = sorted(glob.glob(os.path.join(ROOT, "lib/gen_*.py")))

    def outname(g):
        b = os.path.basename(g)[4:-3]
        return "Gen_Consts" if b == "consts" else "Gen_" + b
    need = None
    if prop is not None and all(os.path.exists(os.path.join(COQ, outname(g) + ".v")) for g in gens):
        need = coq_closure(prop)
    if need is not None:
        sel = [g for g in gens if outname(g) in need or g.endswith("gen_consts.py")]
    else:
        sel = gens
    # gen_consts first (others may import its output conventions), the rest in parallel
    first = [g for g in sel if g.endswith("gen_consts.py")]
    rest = [g for g in sel if not g.endswith("gen_consts.py")]

    def one(g):
        rc, out = sh([sys.executable, g], env={"VERIF_REPO": REPO}, timeout=600)
        if g.endswith("gen_consts.py"):
            return [l for l in out.splitlines() if l.startswith("MISSING")]
        return [os.path.basename(g) + ": " + l for l in out.splitlines() if l.startswith(("MISSING", "FALLBACK"))]
    with ThreadPoolExecutor(max_workers=max(1, min(NPROC, len(sel)))) as ex:
        for r in ex.map(one, first + rest):
            problems += r
    return problems


def theorems_in(vfile):
    """[(kind, name, line)] of the statements in a Properties file, and the names that have
    a Print Assumptions."""
    txt = open(vfile).read()
    stripped = strip_coq_comments(txt)
    thms = []
    for ln, line in enumerate(stripped.split("\n"), 1):
        m = re.match(r"\s*(Theorem|Example|Corollary|Lemma)\s+(\w+)", line)
        if m:
            thms.append((m.group(1), m.group(2), ln))
    printed = re.findall(r"Print\s+Assumptions\s+(\w+)\s*\.", stripped)
    return thms, printed


def parse_assumptions(log, printed):
    """Map each `Print Assumptions X` (in order) to 'closed' or the list of axioms printed."""
    blocks = []
    cur = None
    for line in log.splitlines():
        if line.startswith("Closed under the global context"):
            if cur is not None:
                blocks.append(cur)
                cur = None
            blocks.append([])
        elif line.startswith("Axioms:"):
            if cur is not None:
                blocks.append(cur)
            cur = []
        elif cur is not None:
            # an axiom is printed as `name : type` or as `name` with `  : type` on the following line(s)
            m = re.match(r"^([A-Za-z_][\w.']*)\s*(:.*)?$", line)
            if m and not line.startswith(" "):
                cur.append(m.group(1))
            elif line.startswith(" "):
                pass
            elif line.strip() == "" or line.startswith("File "):
                blocks.append(cur)
                cur = None
    if cur is not None:
        blocks.append(cur)
    res = {}
    for i, name in enumerate(printed):
        res[name] = blocks[i] if i < len(blocks) else None
    return res


# axioms of the standard library that the brief allows, when named in the trusted base
ALLOWED_AXIOMS = {
    # exactly the standard-library axioms named in DESIGN.md section 7 (used through Flocq's real numbers by a few
    # theorems of C17 and C20 only)
    "ClassicalDedekindReals.sig_forall_dec", "ClassicalDedekindReals.sig_not_dec",
    "FunctionalExtensionality.functional_extensionality_dep", "Classical_Prop.classic",
}


def enclosing_statement(vfile, line):
    try:
        lines = open(vfile).read().split("\n")
    except OSError:
        return None
    for i in range(min(line, len(lines)) - 1, -1, -1):
        m = re.match(r"\s*(Theorem|Lemma|Example|Corollary|Definition|Fixpoint)\s+(\w+)", lines[i])
        if m:
            return m.group(2)
    return None


def coq_prove(prop, extra_targets=()):
    """Build the closure of Properties_<prop>.v (full .vo), re-check the properties file itself on
    every run, collect assumptions.  Returns a dict; never raises."""
    t0 = time.time()
    res = {"ok": False, "obligations": [], "discharged": [], "broken": [], "assumptions": {},
           "axioms": [], "log": "", "problems": []}
    pf = os.path.join(COQ, "Properties_%s.v" % prop)
    with Lock("coq"):
        res["problems"] += regenerate(prop)
        sh([os.path.join(ROOT, "bin/mkcoqproject")])
        targets = ["Properties_%s.vo" % prop] + list(extra_targets)
        rc, out = sh(["make", "-k", "-j%d" % NPROC] + targets, cwd=COQ, timeout=3000)
        res["log"] = out
        # always re-check the properties file itself and capture Print Assumptions
        rc2, out2 = sh(["coqc", "-Q", ".", "Muduo", "Properties_%s.v" % prop], cwd=COQ, timeout=3000)
        res["log"] += "\n--- coqc Properties_%s.v ---\n" % prop + out2
    thms, printed = theorems_in(pf)
    res["obligations"] = [n for (k, n, l) in thms]
    if rc2 == 0:
        res["discharged"] = list(res["obligations"])
    else:
        # which statement broke: first error location in either log
        m = re.search(r'File "\./?([\w./]+\.v)", line (\d+)', out if "Error" in out else out2)
        m2 = re.search(r'File "\./?([\w./]+\.v)", line (\d+)', out2)
        broken_file, broken_line = None, None
        for mm in (m, m2):
            if mm:
                broken_file, broken_line = mm.group(1), int(mm.group(2))
                break
        if broken_file and os.path.basename(broken_file) == "Properties_%s.v" % prop:
            for (k, n, l) in thms:
                nxt = min([l2 for (_, _, l2) in thms if l2 > l] + [10 ** 9])
                if nxt <= broken_line:
                    res["discharged"].append(n)
            res["broken"].append(enclosing_statement(pf, broken_line) or "Properties_%s.v:%d" % (prop, broken_line))
        else:
            st = enclosing_statement(os.path.join(COQ, broken_file), broken_line) if broken_file else None
            res["broken"].append("%s:%s (%s)" % (broken_file, broken_line, st))
    res["assumptions"] = parse_assumptions(out2, printed)
    axioms = set()
    for n, a in res["assumptions"].items():
        for x in (a or []):
            axioms.add(x)
    res["axioms"] = sorted(axioms)
    clo = coq_closure(prop)
    res["closure"] = sorted(clo) if clo else None
    bad = hygiene(clo, prop)
    if bad:
        res["problems"] += ["hygiene: " + b for b in bad]
    short = {a.split(".")[-1] for a in ALLOWED_AXIOMS}
    not_allowed = [a for a in res["axioms"] if a not in ALLOWED_AXIOMS and a not in short]
    # only the properties whose trusted base names them may depend on those axioms at all
    if prop not in ("C17", "C20"):
        not_allowed = list(res["axioms"])
    if not_allowed:
        res["problems"] += ["axiom not in allow-list: " + a for a in not_allowed]
    unprinted = [n for (k, n, l) in thms if k in ("Theorem", "Lemma", "Corollary") and n not in printed]
    res["unprinted"] = unprinted
    # a generator that could not translate a piece of the current source (MISSING / FALLBACK) leaves the
    # theorems that depend on that piece unchecked against the code: fail closed, uniformly for every property
    untranslated = [p_ for p_ in res["problems"] if ("MISSING" in p_ or "FALLBACK" in p_)]
    if untranslated:
        res["broken"] += ["generated fact not regenerated from the current source: " + u for u in untranslated]
    res["ok"] = (rc2 == 0 and not bad and not not_allowed and not untranslated
                 and len(res["discharged"]) == len(res["obligations"]))
    res["wall_s"] = time.time() - t0
    return res


# --------------------------------------------------------------------------- extraction

def build_model(prop):
    """Extract extract/<prop>_Extract.v and build the OCaml runner. Returns path or raises."""
    d = os.path.join(WORK, "extract", prop)
    os.makedirs(d, exist_ok=True)
    ev = os.path.join(ROOT, "extract", "%s_Extract.v" % prop)
    drv = os.path.join(ROOT, "extract", "%s_driver.ml" % prop)
    util = os.path.join(ROOT, "extract", "util.ml")
    with Lock("extract_" + prop):
        # key: the .vo files the extraction depends on + driver sources
        deps = glob.glob(os.path.join(COQ, "*.vo"))
        key = sha_files([ev, drv, util]) + sha_files([p for p in deps if os.path.basename(p).startswith(("Base_", "Gen_", prop + "_"))])
        stamp = os.path.join(d, "stamp")
        exe = os.path.join(d, "modelrun")
        if os.path.exists(stamp) and open(stamp).read() == key and os.path.exists(exe):
            return exe
        rc, out = sh(["coqc", "-Q", COQ, "Muduo", "-o", "./%s_Extract.vo" % prop, ev], cwd=d, timeout=900)
        if rc != 0:
            # a file the extraction requires may not be compiled yet (fresh tree, not in the closure of the
            # property's theorems): build exactly those under the shared Coq lock and try once more
            req = re.findall(r"From\s+Muduo\s+Require\s+(?:Import\s+|Export\s+)?([\w\s]+?)\.", strip_coq_comments(open(ev).read()))
            tg = sorted({n + ".vo" for r in req for n in r.split() if os.path.exists(os.path.join(COQ, n + ".v"))})
            if tg:
                with Lock("coq"):
                    sh([os.path.join(ROOT, "bin/mkcoqproject")])
                    sh(["make", "-k", "-j%d" % NPROC] + tg, cwd=COQ, timeout=3000)
                rc, out = sh(["coqc", "-Q", COQ, "Muduo", "-o", "./%s_Extract.vo" % prop, ev], cwd=d, timeout=900)
        if rc != 0:
            raise RuntimeError("extraction failed:\n" + out)
        with open(os.path.join(d, "main.ml"), "w") as f:
            f.write("open Model\n")
            f.write(open(util).read())
            f.write(open(drv).read())
        rc, out = sh(["ocamlfind", "ocamlopt", "-w", "-a", "-package", "str,unix", "-linkpkg",
                      "model.mli", "model.ml", "main.ml", "-o", "modelrun"], cwd=d, timeout=900)
        if rc != 0:
            raise RuntimeError("ocaml build failed:\n" + out)
        open(stamp, "w").write(key)
        return exe


# --------------------------------------------------------------------------- C++ builds

CXXFLAGS_COMMON = ["-std=c++11", "-g", "-DMUDUO_VERIF", "-DCHECK_PTHREAD_RETURN_VALUE", "-D_FILE_OFFSET_BITS=64",
                   "-fno-omit-frame-pointer", "-w"]
VARIANTS = {
    "asan": (["g++"], ["-O1", "-fsanitize=address,undefined", "-fno-sanitize-recover=all"]),
    "plain": (["g++"], ["-O1"]),
    "ndebug": (["g++"], ["-O2", "-DNDEBUG"]),
    "tsan": (["clang++"], ["-O1", "-fsanitize=thread"]),
}

COMPONENTS = {
    "base": ["muduo/base/*.cc"],
    "net": ["muduo/net/*.cc", "muduo/net/poller/*.cc"],
    "http": ["muduo/net/http/*.cc"],
    "protobuf": ["muduo/net/protobuf/*.cc"],
    "protorpc": ["muduo/net/protorpc/RpcChannel.cc", "muduo/net/protorpc/RpcCodec.cc", "muduo/net/protorpc/RpcServer.cc"],
}


def repo_sources_hash():
    files = []
    for pat in ("muduo/base/*", "muduo/net/*", "muduo/net/*/*"):
        files += [f for f in glob.glob(os.path.join(REPO, pat)) if os.path.isfile(f) and f.endswith((".h", ".cc", ".proto"))]
    return sha_files(files)


def _compile_many(jobs):
    """jobs: list of (cmd, out) ; parallel; returns list of (rc, out_text)."""
    def one(j):
        return sh(j, timeout=900)
    with ThreadPoolExecutor(max_workers=NPROC) as ex:
        return list(ex.map(one, jobs))


def protoc_rpc(outdir):
    """Generate rpc.pb.{h,cc} / rpcservice.pb.{h,cc} for muduo/net/protorpc into outdir/muduo/net/protorpc."""
    dst = os.path.join(outdir, "muduo/net/protorpc")
    os.makedirs(dst, exist_ok=True)
    rc, out = sh(["protoc", "--cpp_out=" + dst, "-I" + os.path.join(REPO, "muduo/net/protorpc"),
                  os.path.join(REPO, "muduo/net/protorpc/rpc.proto"),
                  os.path.join(REPO, "muduo/net/protorpc/rpcservice.proto")])
    if rc != 0:
        raise RuntimeError("protoc failed: " + out)
    return dst


def build_muduo(variant="asan", components=("base", "net")):
    """Static library of the requested muduo components compiled from REPO's current sources.
    Returns (libpath, include_flags)."""
    cc, vflags = VARIANTS[variant]
    key = repo_sources_hash() + "-" + variant + "-" + "+".join(sorted(components))
    d = os.path.join(WORK, "muduo", key)
    lib = os.path.join(d, "libmuduo_verif.a")
    inc = ["-I" + REPO]
    if "protorpc" in components or "protobuf" in components:
        inc.append("-I" + d + "/gen")
    with Lock("muduo_" + key):
        if os.path.exists(lib):
            os.utime(lib, None)
            return lib, inc
        os.makedirs(d, exist_ok=True)
        srcs = []
        for c in components:
            for pat in COMPONENTS[c]:
                srcs += sorted(glob.glob(os.path.join(REPO, pat)))
        srcs = [s for s in srcs if not s.endswith(("_test.cc", "_unittest.cc", "boilerplate.cc"))]
        if "protorpc" in components:
            gen = protoc_rpc(os.path.join(d, "gen"))
            srcs += sorted(glob.glob(os.path.join(gen, "*.pb.cc")))
        jobs, objs = [], []
        for s in srcs:
            o = os.path.join(d, hashlib.sha1(s.encode()).hexdigest()[:10] + "_" + os.path.basename(s) + ".o")
            objs.append(o)
            jobs.append(cc + CXXFLAGS_COMMON + vflags + inc + ["-c", s, "-o", o])
        results = _compile_many(jobs)
        errs = [out for (rc, out) in results if rc != 0]
        if errs:
            raise RuntimeError("muduo build failed:\n" + "\n".join(errs)[:4000])
        rc, out = sh(["ar", "rcs", lib] + objs)
        if rc != 0:
            raise RuntimeError("ar failed: " + out)
        _gc_muduo_builds(keep=key)
        return lib, inc


def _gc_muduo_builds(keep, max_keep=6):
    base = os.path.join(WORK, "muduo")
    ds = sorted([os.path.join(base, x) for x in os.listdir(base)], key=lambda p: os.path.getmtime(p))
    while len(ds) > max_keep:
        v = ds.pop(0)
        if not v.endswith(keep):
            shutil.rmtree(v, ignore_errors=True)


def build_driver(name, sources, variant="asan", components=("base", "net"), extra_flags=(), libs=(), wrap=()):
    """Compile harness sources against the current REPO and link. Returns exe path."""
    lib, inc = build_muduo(variant, components)
    cc, vflags = VARIANTS[variant]
    srcs = [os.path.join(ROOT, "harness", s) if not os.path.isabs(s) else s for s in sources]
    fam = name.split("_")[0]
    hdrs = [h for h in glob.glob(os.path.join(ROOT, "harness", "*.h"))
            if os.path.basename(h) in ("common.h", "sched.h") or os.path.basename(h).startswith(fam)
            or any(os.path.basename(h) in open(x, errors="replace").read() for x in srcs if os.path.exists(x))]
    key = sha_files(srcs + hdrs, extra=lib + variant + " ".join(extra_flags) + " ".join(libs) + " ".join(wrap))
    d = os.path.join(WORK, "drivers")
    os.makedirs(d, exist_ok=True)
    exe = os.path.join(d, "%s-%s" % (name, key))
    with Lock("driver_" + name):
        if os.path.exists(exe):
            return exe
        for old in glob.glob(os.path.join(d, name + "-*")):
            try:
                os.remove(old)
            except OSError:
                pass
        wrapflags = ["-Wl,--wrap=" + w for w in wrap]
        cmd = cc + CXXFLAGS_COMMON + vflags + inc + ["-I" + os.path.join(ROOT, "harness")] + list(extra_flags) + srcs + \
            [lib] + wrapflags + list(libs) + ["-lpthread", "-lrt", "-o", exe]
        rc, out = sh(cmd, timeout=900)
        if rc != 0:
            raise RuntimeError("driver build failed (%s):\n%s" % (name, out[:6000]))
        return exe


# --------------------------------------------------------------------------- findings, verdict, evidence

def known_findings():
    """KNOWN_FINDINGS.txt: lines `known: property=Cxx key=<sig> <text>` / `fixed: property=Cxx <commit> <text>`."""
    res = []
    p = os.path.join(ROOT, "KNOWN_FINDINGS.txt")
    if not os.path.exists(p):
        return res
    for line in open(p):
        line = line.strip()
        m = re.match(r"known:\s+property=(\w+)\s+key=(\S+)\s+(.*)", line)
        if m:
            res.append({"property": m.group(1), "key": m.group(2), "text": m.group(3)})
    return res


class Check:
    """One run of one property's check."""

    def __init__(self, prop, tier, seed):
        self.prop, self.tier, self.seed = prop, tier, seed
        self.t0 = time.time()
        self.violations = []       # (replay_path, text, no_input)
        self.known_hits = {}       # key -> text
        self.cov = {"evaluations": 0, "distinct_nontrivial": 0, "samples": [], "obligations": 0, "discharged": 0,
                    "checker_cmd": "", "trusted_base": []}
        self.assumptions = []
        self.notes = []
        self.replay_dir = os.path.join(WORK, "replay", prop)
        os.makedirs(self.replay_dir, exist_ok=True)
        self.rng = random.Random(seed)

    # ---- proof part
    def prove(self, extra_targets=()):
        r = coq_prove(self.prop, extra_targets)
        self.proof = r
        self.cov["obligations"] += len(r["obligations"])
        self.cov["discharged"] += len(r["discharged"])
        self.cov["checker_cmd"] = "make -k -j16 Properties_%s.vo && coqc -Q . Muduo Properties_%s.v (Coq 8.16.1, full .vo)" % (self.prop, self.prop)
        self.cov["theorems"] = r["obligations"]
        self.cov["axioms_printed"] = r["axioms"]
        self.cov["proof_wall_s"] = round(r["wall_s"], 1)
        tb = ["Coq 8.16.1 kernel + vm_compute (no native_compute)"]
        tb += ["axiom: " + a for a in r["axioms"]] or []
        if not r["axioms"]:
            tb.append("axioms: none (every Print Assumptions says 'Closed under the global context')")
        self.cov["trusted_base"] += tb
        if r["problems"]:
            self.cov["proof_problems"] = r["problems"]
        return r

    def add_obligation(self, name, ok):
        """A non-Coq obligation (a correspondence suite, a generated-fact check)."""
        self.cov["obligations"] += 1
        if ok:
            self.cov["discharged"] += 1
        self.cov.setdefault("other_obligations", []).append({"name": name, "ok": bool(ok)})

    def trusted(self, *items):
        self.cov["trusted_base"] += list(items)

    # ---- reporting
    def sample(self, s, limit=6):
        if len(self.cov["samples"]) < limit:
            self.cov["samples"].append(s)

    def write_replay(self, name, text):
        p = os.path.join(self.replay_dir, name)
        with open(p, "w") as f:
            f.write(text)
        return p

    def violation(self, replay_path, text, no_input=False):
        self.violations.append((replay_path, text, no_input))

    def known(self, key, text):
        self.known_hits[key] = text

    def finish(self, level="proof", assumptions=(), extra=None):
        wall = time.time() - self.t0
        ev = {"property_id": self.prop, "tier": self.tier, "seed": self.seed, "level": level,
              "coverage": self.cov, "assumptions": list(assumptions) + self.assumptions,
              "wall_s": round(wall, 2), "violations": len(self.violations)}
        if self.notes:
            ev["coverage"]["notes"] = self.notes
        if extra:
            ev["coverage"].update(extra)
        os.makedirs(os.path.join(ROOT, "evidence"), exist_ok=True)
        with open(os.path.join(ROOT, "evidence", "%s.json" % self.prop), "w") as f:
            json.dump(ev, f, indent=1, sort_keys=True)
            f.write("\n")
        for key, text in sorted(self.known_hits.items()):
            print("KNOWN-FINDING: property=%s %s" % (self.prop, text))
        for (rp, text, no_input) in self.violations:
            print("# " + text.replace("\n", "\n# "))
            print("VIOLATION property=%s replay=%s%s" % (self.prop, rp, " no-failing-input-found" if no_input else ""))
        sys.stdout.flush()
        return 1 if self.violations else 0


def ddmin(items, fails, max_tests=400):
    """Delta debugging over a list: smallest sublist (keeping order) on which fails() is True."""
    n = 2
    tests = 0
    cur = list(items)
    while len(cur) >= 2 and tests < max_tests:
        chunk = max(1, len(cur) // n)
        reduced = False
        for i in range(0, len(cur), chunk):
            cand = cur[:i] + cur[i + chunk:]
            tests += 1
            if cand and fails(cand):
                cur = cand
                n = max(n - 1, 2)
                reduced = True
                break
        if not reduced:
            if chunk == 1:
                break
            n = min(len(cur), n * 2)
    return cur


# --------------------------------------------------------------------------- differential running

class Case:
    __slots__ = ("cid", "header", "ops", "tag")

    def __init__(self, cid, header, ops, tag=""):
        self.cid, self.header, self.ops, self.tag = cid, header, list(ops), tag

    def text(self):
        return "\n".join(["case %s %s" % (self.cid, self.header)] + self.ops + ["end"]) + "\n"


def split_outputs(out):
    """{case id: [lines]} from a driver's stdout ('case <id> ...' ... 'end')."""
    res, cur, cid = {}, None, None
    for line in out.split("\n"):
        if line.startswith("case "):
            cid = line.split()[1]
            cur = [line]
        elif line == "end":
            if cur is not None:
                cur.append(line)
                res[cid] = cur
            cur, cid = None, None
        elif cur is not None:
            cur.append(line)
    partial = (cid, cur) if cur is not None else None
    return res, partial


def run_batch(exe, cases, timeout=1200, env=None, pre=()):
    """Run a driver on many cases; survives crashes (the crashing case is reported, the rest re-run).
    Returns ({cid: lines}, {cid: (rc, stderr tail, partial lines)})."""
    outs, crashes = {}, {}
    todo = list(cases)
    e = {"ASAN_OPTIONS": "detect_leaks=0:abort_on_error=0:allocator_may_return_null=1",
         "UBSAN_OPTIONS": "print_stacktrace=1", "MALLOC_ARENA_MAX": "2"}
    if env:
        e.update(env)
    guard = 0
    while todo and guard < 200:
        guard += 1
        text = "".join(c.text() for c in todo).encode()
        rc, so, se = sh2(list(pre) + [exe], stdin=text, timeout=timeout, env=e)
        got, partial = split_outputs(so)
        outs.update(got)
        if rc == 0 and len(got) == len(todo):
            break
        # find first case without complete output
        idx = None
        for i, c in enumerate(todo):
            if c.cid not in got:
                idx = i
                break
        if idx is None:
            break
        c = todo[idx]
        crashes[c.cid] = (rc, (se if len(se) <= 4500 else se[:1500] + "\n[...]\n" + se[-3000:]), partial[1] if partial and partial[0] == c.cid else [])
        todo = todo[idx + 1:]
    return outs, crashes


def run_batch_parallel(exe, cases, jobs=None, **kw):
    """run_batch over chunks in parallel processes."""
    jobs = jobs or NPROC
    if len(cases) < 4 * jobs:
        return run_batch(exe, cases, **kw)
    chunks = [cases[i::jobs] for i in range(jobs)]
    outs, crashes = {}, {}
    with ThreadPoolExecutor(max_workers=jobs) as ex:
        for o, c in ex.map(lambda ch: run_batch(exe, ch, **kw), chunks):
            outs.update(o)
            crashes.update(c)
    return outs, crashes
