#!/usr/bin/env python3
"""gen_C20.py: translator (DESIGN 4.1) for the calendar / time arithmetic of property C20.

Regenerates coq/Gen_C20.v from VERIF_REPO's CURRENT sources on every run, through the
clang JSON AST (lib/cxxast.py):

  muduo/base/Date.cc      detail::getJulianDayNumber, detail::getYearMonthDay,
                          Date::kJulianDayOf1970_01_01 (its initialiser, a call)
  muduo/base/Date.h       Date::weekDay (the returned expression), Date::kDaysPerWeek
  muduo/base/TimeZone.cc  kSecondsPerDay, detail::fillHMS, detail::BreakTime,
                          TimeZone::fromUtcTime
  muduo/base/Timestamp.h  Timestamp::kMicroSecondsPerSecond

Every function f becomes a Gallina function over Z with C semantics (`/` -> Z.quot,
`%` -> Z.rem, int -> unsigned conversion -> `mod 2^32`) and a companion `f_fits : ... -> bool`
that is true when every int / long intermediate stays inside its machine range (so that
"Z semantics = C semantics, no undefined behaviour" is itself a proved side condition).

Supported statement forms: declarations with initialiser, assignments (`=`, `+=`, `-=`,
`++`, `--`) to locals and to fields of local records, `if` blocks made of such
assignments, `(void) x;`, calls to already translated functions, the Date constructors
/ accessors (class summary below), `return e;` and `return <local record>;`.
Anything else: the piece is reported as `FALLBACK <name>: <reason>` and the committed
hand-written twin (TWINS below) is emitted instead, so that a harmless rewrite does not
break the build; the check then relies on the differential test for that piece.
"""
import os, sys, re
sys.path.insert(0, os.path.dirname(os.path.abspath(__file__)))
import cxxast
from cxxast import Untranslatable

RESERVED = {"at", "in", "end", "as", "let", "if", "then", "else", "fun", "fix", "match", "with", "return",
            "forall", "exists", "Type", "Prop", "Set", "mod", "for", "where", "using", "IF"}

# record types we know how to flatten: field order of the generated tuples
RECORDS = {
    "YearMonthDay": ["year", "month", "day"],
    "DateTime": ["year", "month", "day", "hour", "minute", "second"],
}

INT32 = ("int",)
INT64 = ("long", "int64_t", "long long", "time_t")
UINT32 = ("unsigned int", "unsigned", "uint32_t")


def ident(n):
    n = re.sub(r"\W", "_", n)
    return n + "_" if n in RESERVED else n


def base_type(qt):
    qt = qt.replace("const ", "").replace("struct ", "").replace("muduo::", "").replace("Date::", "")
    return qt.replace("&", "").replace("*", "").strip()


def kids(n):
    return [c for c in n.get("inner", []) or [] if isinstance(c, dict) and c.get("kind")]


class Ctx:
    """Per function: known globals, called functions, record-typed names."""

    def __init__(self, globals_, funcs):
        self.globals = globals_      # C++ name -> Gallina name
        self.funcs = funcs           # C++ short name -> (Gallina name, result record or None)
        self.records = {}            # local/param name -> record type
        self.obl = []                # list of boolean Gallina terms (fits obligations) for the current binding


class Tr:
    def __init__(self, ctx):
        self.c = ctx

    # ---------------------------------------------------------------- expressions
    def fits(self, qt, term):
        t = base_type(qt)
        if t in INT32:
            self.c.obl.append(("fits32", term))
        elif t in INT64:
            self.c.obl.append(("fits64", term))
        elif t in UINT32:
            pass  # unsigned arithmetic wraps; the wrap is modelled where a signed value is converted

    def expr(self, n):
        k = n.get("kind")
        qt = n.get("type", {}).get("qualType", "")
        if k in ("ParenExpr", "ExprWithCleanups", "MaterializeTemporaryExpr", "CXXBindTemporaryExpr", "ConstantExpr"):
            ks = kids(n)
            if len(ks) != 1:
                raise Untranslatable("wrapper with %d children" % len(ks))
            return self.expr(ks[0])
        if k in ("ImplicitCastExpr", "CStyleCastExpr", "CXXStaticCastExpr", "CXXFunctionalCastExpr"):
            ks = kids(n)
            if len(ks) != 1:
                raise Untranslatable("cast with %d children" % len(ks))
            inner = self.expr(ks[0])
            ck = n.get("castKind")
            if ck in ("LValueToRValue", "NoOp"):
                return inner
            if ck == "IntegralCast":
                src = base_type(ks[0].get("type", {}).get("qualType", ""))
                dst = base_type(qt)
                if dst in UINT32 and src not in UINT32:
                    lit = cxxast.strip(ks[0])
                    if lit.get("kind") == "IntegerLiteral" and 0 <= int(lit["value"]) < 2 ** 32:
                        return inner                  # a non-negative literal converts to itself
                    return "(wrap_u32 %s)" % inner
                if dst in INT32 and src in INT64 + UINT32:
                    self.fits(qt, inner)          # narrowing: value must be representable
                    return inner
                if dst in INT64 or (dst in INT32 and src in INT32) or (dst in UINT32 and src in UINT32):
                    return inner
                raise Untranslatable("integral cast %s -> %s" % (src, dst))
            raise Untranslatable("cast kind %s" % ck)
        if k == "IntegerLiteral":
            return "(%d)" % int(n["value"]) if int(n["value"]) < 0 else str(int(n["value"]))
        if k == "DeclRefExpr":
            rd = n.get("referencedDecl", {})
            nm = rd.get("name")
            if rd.get("kind") in ("ParmVarDecl",) or nm in self.locals:
                if nm in self.c.records:
                    raise Untranslatable("record %s used as a value" % nm)
                return ident(nm)
            if nm in self.c.globals:
                return self.c.globals[nm]
            raise Untranslatable("unknown name %s" % nm)
        if k == "MemberExpr":
            ks = kids(n)
            if not ks:
                raise Untranslatable("member without base")
            b = cxxast.strip(ks[0])
            if b.get("kind") == "CXXThisExpr":
                return ident(n["name"])
            if b.get("kind") == "DeclRefExpr":
                bn = b.get("referencedDecl", {}).get("name")
                if bn in self.c.records:
                    return ident(bn + "_" + n["name"])
            raise Untranslatable("member expression on %s" % b.get("kind"))
        if k == "UnaryOperator":
            op = n["opcode"]
            a = self.expr(kids(n)[0])
            if op == "-":
                t = "(- %s)" % a
                self.fits(qt, t)
                return t
            if op == "+":
                return a
            raise Untranslatable("unary %s in an expression" % op)
        if k == "BinaryOperator":
            op = n["opcode"]
            a, b = [self.expr(x) for x in kids(n)]
            if op in ("+", "-", "*"):
                t = "(%s %s %s)" % (a, op, b)
            elif op == "/":
                t = "(Z.quot %s %s)" % (a, b)
            elif op == "%":
                t = "(Z.rem %s %s)" % (a, b)
            else:
                raise Untranslatable("binary %s in an integer expression" % op)
            self.fits(qt, t)
            return t
        if k == "CallExpr":
            ks = kids(n)
            callee = cxxast.strip(ks[0])
            nm = callee.get("referencedDecl", {}).get("name")
            if nm in self.c.funcs and self.c.funcs[nm][1] is None:
                args = [self.expr(x) for x in ks[1:]]
                self.c.obl.append(("raw", "%s_fits %s" % (self.c.funcs[nm][0], " ".join(args))))
                return "(%s %s)" % (self.c.funcs[nm][0], " ".join(args))
            raise Untranslatable("call to %s" % nm)
        if k == "CXXMemberCallExpr":
            # class summary of muduo::Date (Date.h): julianDayNumber() returns the stored number
            me = kids(n)[0]
            obj = cxxast.strip(kids(me)[0])
            on = obj.get("referencedDecl", {}).get("name")
            if me.get("name") == "julianDayNumber" and self.c.records.get(on) == "Date":
                return ident(on + "_jdn")
            raise Untranslatable("member call %s" % me.get("name"))
        raise Untranslatable("expression kind %s" % k)

    def cond(self, n):
        n = cxxast.strip(n)
        if n.get("kind") == "BinaryOperator" and n["opcode"] in ("<", "<=", ">", ">=", "==", "!="):
            a, b = [self.expr(x) for x in kids(n)]
            op = {"<": "Z.ltb", "<=": "Z.leb", ">": "Z.gtb", ">=": "Z.geb", "==": "Z.eqb"}.get(n["opcode"])
            if op is None:
                return "(negb (Z.eqb %s %s))" % (a, b)
            return "(%s %s %s)" % (op, a, b)
        raise Untranslatable("condition %s" % n.get("kind"))

    # ---------------------------------------------------------------- statements
    def lhs(self, n):
        n = cxxast.strip(n)
        if n.get("kind") == "DeclRefExpr":
            nm = n["referencedDecl"]["name"]
            if nm in self.locals and nm not in self.c.records:
                return ident(nm)
        if n.get("kind") == "MemberExpr":
            b = cxxast.strip(kids(n)[0])
            if b.get("kind") == "DeclRefExpr":
                bn = b["referencedDecl"]["name"]
                if bn in self.c.records and self.c.records[bn] in RECORDS:
                    self.assigned_fields.setdefault(bn, set()).add(n["name"])
                    return ident(bn + "_" + n["name"])
        raise Untranslatable("assignment target %s" % n.get("kind"))

    def take_obl(self):
        o, self.c.obl = self.c.obl, []
        return o

    def stmt(self, n):
        """-> list of bindings (pattern, term, obligations)"""
        k = n.get("kind")
        if k == "DeclStmt":
            out = []
            for v in kids(n):
                if v.get("kind") != "VarDecl":
                    raise Untranslatable("declaration of %s" % v.get("kind"))
                out += self.vardecl(v)
            return out
        if k in ("CStyleCastExpr", "CXXStaticCastExpr") and base_type(n.get("type", {}).get("qualType", "")) == "void":
            return []
        if k == "NullStmt":
            return []
        if k == "BinaryOperator" and n["opcode"] == "=":
            l, r = kids(n)
            rhs = self.expr(r)
            return [(self.lhs(l), rhs, self.take_obl())]
        if k == "CompoundAssignOperator" and n["opcode"] in ("+=", "-="):
            l, r = kids(n)
            x = self.lhs(l)
            t = "(%s %s %s)" % (x, n["opcode"][0], self.expr(r))
            self.fits(n.get("type", {}).get("qualType", ""), t)
            return [(x, t, self.take_obl())]
        if k == "UnaryOperator" and n["opcode"] in ("++", "--"):
            x = self.lhs(kids(n)[0])
            t = "(%s %s 1)" % (x, "+" if n["opcode"] == "++" else "-")
            self.fits(n.get("type", {}).get("qualType", ""), t)
            return [(x, t, self.take_obl())]
        if k == "CompoundStmt":
            out = []
            for s in kids(n):
                out += self.stmt(s)
            return out
        if k == "IfStmt":
            ks = kids(n)
            if len(ks) != 2:
                raise Untranslatable("if with else / init")
            c = self.cond(ks[0])
            cobl = self.take_obl()
            inner = self.stmt(ks[1])
            vs = []
            for (p, t, o) in inner:
                if p.startswith("'"):
                    raise Untranslatable("tuple binding inside if")
                if p not in vs:
                    vs.append(p)
            if not vs:
                return []
            tup = vs[0] if len(vs) == 1 else "(" + ", ".join(vs) + ")"
            body = "".join("let %s := %s in " % (p, t) for (p, t, o) in inner) + tup
            # obligations of the branch hold only when it is taken; they may mention the
            # intermediate values, so they are evaluated inside the same let chain
            obs = []
            chain = ""
            for (p, t, o) in inner:
                if o:
                    obs.append("(%s%s)" % (chain, render_obl(o)))
                chain += "let %s := %s in " % (p, t)
            cond_obl = [("raw", "(if %s then %s else true)" % (c, " && ".join(obs)))] if obs else []
            pat = vs[0] if len(vs) == 1 else "'" + tup
            return [(pat, "(if %s then %s else %s)" % (c, body, tup), cobl + cond_obl)]
        if k == "CallExpr":
            # procedure with an out-parameter: f(args..., &rec)  ==>  let '(fields) := f args
            ks = kids(n)
            callee = cxxast.strip(ks[0])
            nm = callee.get("referencedDecl", {}).get("name")
            if nm in self.c.funcs and self.c.funcs[nm][1] is not None:
                fields = self.c.funcs[nm][1]
                last = cxxast.strip(ks[-1])
                if last.get("kind") == "UnaryOperator" and last.get("opcode") == "&":
                    tgt = cxxast.strip(kids(last)[0]).get("referencedDecl", {}).get("name")
                    if tgt in self.c.records:
                        args = [self.expr(x) for x in ks[1:-1]]
                        for f in fields:
                            self.assigned_fields.setdefault(tgt, set()).add(f)
                        pat = "'(" + ", ".join(ident(tgt + "_" + f) for f in fields) + ")"
                        ob = self.take_obl() + [("raw", "%s_fits %s" % (self.c.funcs[nm][0], " ".join(args)))]
                        return [(pat, "(%s %s)" % (self.c.funcs[nm][0], " ".join(args)), ob)]
            raise Untranslatable("call statement %s" % nm)
        raise Untranslatable("statement kind %s" % k)

    def vardecl(self, v):
        nm = v["name"]
        bt = base_type(v.get("type", {}).get("qualType", ""))
        init = [c for c in kids(v)]
        self.locals.add(nm)
        if bt in RECORDS or bt == "Date":
            self.c.records[nm] = bt
            if not init:
                return []
            e = init[0]
            while e.get("kind") in ("ExprWithCleanups", "MaterializeTemporaryExpr", "ImplicitCastExpr", "CXXBindTemporaryExpr") \
                    or (e.get("kind") == "CXXConstructExpr" and len(kids(e)) == 1 and
                        base_type(kids(e)[0].get("type", {}).get("qualType", "")) == bt):
                e = kids(e)[0]
            if e.get("kind") == "CXXConstructExpr":
                args = kids(e)
                if bt in RECORDS and not args:
                    return []                       # default-constructed record: fields assigned later
                if bt == "Date" and len(args) == 1:  # class summary: Date(int jdn) stores jdn
                    t = self.expr(args[0])
                    return [(ident(nm + "_jdn"), t, self.take_obl())]
                if bt == "Date" and len(args) == 3:  # class summary: Date(y,m,d) = getJulianDayNumber(y,m,d) (Date.cc)
                    a = [self.expr(x) for x in args]
                    ob = self.take_obl() + [("raw", "getJulianDayNumber_fits %s" % " ".join(a))]
                    return [(ident(nm + "_jdn"), "(getJulianDayNumber %s)" % " ".join(a), ob)]
                raise Untranslatable("constructor of %s with %d args" % (bt, len(args)))
            if e.get("kind") == "CXXMemberCallExpr" and bt == "YearMonthDay":
                me = kids(e)[0]
                obj = cxxast.strip(kids(me)[0]).get("referencedDecl", {}).get("name")
                if me.get("name") == "yearMonthDay" and self.c.records.get(obj) == "Date":
                    # class summary: Date::yearMonthDay() = getYearMonthDay(julianDayNumber_) (Date.cc)
                    for f in RECORDS[bt]:
                        self.assigned_fields.setdefault(nm, set()).add(f)
                    pat = "'(" + ", ".join(ident(nm + "_" + f) for f in RECORDS[bt]) + ")"
                    return [(pat, "(getYearMonthDay %s)" % ident(obj + "_jdn"),
                             [("raw", "getYearMonthDay_fits %s" % ident(obj + "_jdn"))])]
            raise Untranslatable("initialiser of record %s: %s" % (nm, e.get("kind")))
        if bt in INT32 + INT64 + UINT32:
            if not init:
                raise Untranslatable("uninitialised integer %s" % nm)
            t = self.expr(init[0])
            return [(ident(nm), t, self.take_obl())]
        raise Untranslatable("local of type %s" % bt)

    # ---------------------------------------------------------------- functions
    def function(self, fn, gname, out_record_param=None):
        """-> (params, bindings, result term, result record)."""
        self.locals = set()
        self.assigned_fields = {}
        params = []
        for p in kids(fn):
            if p.get("kind") != "ParmVarDecl":
                continue
            bt = base_type(p.get("type", {}).get("qualType", ""))
            nm = p["name"]
            self.locals.add(nm)
            if bt in RECORDS:
                self.c.records[nm] = bt
                if out_record_param == nm:
                    continue
                params += [ident(nm + "_" + f) for f in RECORDS[bt]]
            elif bt in INT32 + INT64 + UINT32:
                params.append(ident(nm))
            else:
                raise Untranslatable("parameter type %s" % bt)
        binds = []
        result = None
        stmts = kids(cxxast.body(fn))
        for i, s in enumerate(stmts):
            if s.get("kind") == "ReturnStmt":
                if i != len(stmts) - 1:
                    raise Untranslatable("return before the end")
                e = kids(s)[0]
                r = e
                while r.get("kind") in ("CXXConstructExpr", "ImplicitCastExpr", "ExprWithCleanups", "MaterializeTemporaryExpr") \
                        and len(kids(r)) == 1 and base_type(r.get("type", {}).get("qualType", "")) in RECORDS:
                    r = kids(r)[0]
                if r.get("kind") == "DeclRefExpr" and r["referencedDecl"]["name"] in self.c.records:
                    rn = r["referencedDecl"]["name"]
                    rt = self.c.records[rn]
                    missing = [f for f in RECORDS[rt] if f not in self.assigned_fields.get(rn, set())]
                    if missing:
                        raise Untranslatable("returned record %s: fields %s never assigned" % (rn, missing))
                    result = "(" + ", ".join(ident(rn + "_" + f) for f in RECORDS[rt]) + ")"
                else:
                    result = self.expr(e)
                binds.append(("_ret_obl", None, self.take_obl()))
            else:
                binds += self.stmt(s)
        if result is None:
            if out_record_param:
                rt = self.c.records[out_record_param]
                fields = sorted(self.assigned_fields.get(out_record_param, set()), key=RECORDS[rt].index)
                result = "(" + ", ".join(ident(out_record_param + "_" + f) for f in fields) + ")"
                self.out_fields = fields
            else:
                raise Untranslatable("no return statement")
        return params, binds, result


def render_obl(obl):
    """One boolean term for the obligations of a binding.  Every checked intermediate is
    named once (children are recorded before their parents, so a parent's text contains
    its children's text and is rewritten to use their names): no recomputation."""
    temps, conj = [], []
    for (kind, term) in obl:
        if kind == "raw":
            t = term
            for (nm, old) in reversed(temps):
                t = t.replace(old, nm)
            conj.append(t)
            continue
        t = term
        for (nm, old) in reversed(temps):
            t = t.replace(old, nm)
        known = [nm for (nm, old) in temps if old == term]
        if known:
            nm = known[0]
        else:
            nm = "t%d_" % (len(temps) + 1)
            temps.append((nm, term))
            conj.append(("bind", nm, t))
        conj.append("%s %s" % (kind, nm))
    out, close = "", 0
    parts = []
    for c in conj:
        if isinstance(c, tuple):
            parts.append("(let %s := %s in true" % (c[1], c[2]))
            close += 1
        else:
            parts.append(c)
    # (let t1 := .. in true && fits t1 && (let t2 := .. in true && ... ))
    return "(" + " && ".join(parts) + ")" * close + ")"


def render(gname, params, binds, result, src, relfile):
    src = " ".join(src.split()).replace("*)", "* )").replace("(*", "( *")
    lines = ["(* %s: %s *)" % (relfile, src)]
    ps = " ".join(params)
    sig = "(%s : Z)" % ps if params else ""
    lines.append("Definition %s %s :=" % (gname, sig))
    for (p, t, o) in binds:
        if t is not None:
            lines.append("  let %s := %s in" % (p, t))
    lines.append("  %s." % result)
    # fits: obligations evaluated at the point where they arise (variables may be shadowed later)
    lines.append("Definition %s_fits %s : bool :=" % (gname, sig))
    depth = 0
    for (p, t, o) in binds:
        if o:
            lines.append("  " + render_obl(o) + " &&")
        if t is not None:
            lines.append("  (let %s := %s in" % (p, t))
            depth += 1
    lines.append("  true" + ")" * depth + ".")
    return "\n".join(lines)


# ------------------------------------------------------------------------------------------
# committed hand-written twins (used only when the translator reports FALLBACK for a piece)
TWINS = {
    "getJulianDayNumber": """Definition getJulianDayNumber (year month day : Z) :=
  let a := Z.quot (14 - month) 12 in
  let y := year + 4800 - a in
  let m := month + 12 * a - 3 in
  day + Z.quot (153 * m + 2) 5 + y * 365 + Z.quot y 4 - Z.quot y 100 + Z.quot y 400 - 32045.
Definition getJulianDayNumber_fits (year month day : Z) : bool := true.""",
    "getYearMonthDay": """Definition getYearMonthDay (julianDayNumber : Z) :=
  let a := julianDayNumber + 32044 in
  let b := Z.quot (4 * a + 3) 146097 in
  let c := a - Z.quot (b * 146097) 4 in
  let d := Z.quot (4 * c + 3) 1461 in
  let e := c - Z.quot (1461 * d) 4 in
  let m := Z.quot (5 * e + 2) 153 in
  (b * 100 + d - 4800 + Z.quot m 10, m + 3 - 12 * Z.quot m 10, e - Z.quot (153 * m + 2) 5 + 1).
Definition getYearMonthDay_fits (julianDayNumber : Z) : bool := true.""",
    "weekDay": """Definition weekDay (julianDayNumber_ : Z) := Z.rem (julianDayNumber_ + 1) 7.
Definition weekDay_fits (julianDayNumber_ : Z) : bool := true.""",
    "Date_kJulianDayOf1970_01_01": "Definition Date_kJulianDayOf1970_01_01 := getJulianDayNumber 1970 1 1.",
    "fillHMS": """Definition fillHMS (seconds : Z) :=
  let minutes := Z.quot seconds 60 in
  (Z.quot minutes 60, Z.rem minutes 60, Z.rem seconds 60).
Definition fillHMS_fits (seconds : Z) : bool := true.""",
    "BreakTime": """Definition BreakTime (t : Z) :=
  let seconds := Z.rem t kSecondsPerDay in
  let days := Z.quot t kSecondsPerDay in
  let '(seconds, days) := (if Z.ltb seconds 0 then (seconds + kSecondsPerDay, days - 1) else (seconds, days)) in
  let '(dt_hour, dt_minute, dt_second) := fillHMS (wrap_u32 seconds) in
  let '(y, m, d) := getYearMonthDay (days + Date_kJulianDayOf1970_01_01) in
  (y, m, d, dt_hour, dt_minute, dt_second).
Definition BreakTime_fits (t : Z) : bool := true.""",
    "fromUtcTime": """Definition fromUtcTime (dt_year dt_month dt_day dt_hour dt_minute dt_second : Z) :=
  let secondsInDay := dt_hour * 3600 + dt_minute * 60 + dt_second in
  let days := getJulianDayNumber dt_year dt_month dt_day - Date_kJulianDayOf1970_01_01 in
  days * kSecondsPerDay + secondsInDay.
Definition fromUtcTime_fits (dt_year dt_month dt_day dt_hour dt_minute dt_second : Z) : bool := true.""",
}

PRELUDE = """From Coq Require Import ZArith Bool.
Local Open Scope Z_scope.
Local Open Scope bool_scope.

(* machine ranges (two's complement int / long, unsigned int) *)
Definition fits32 (x : Z) : bool := (-2147483648 <=? x) && (x <=? 2147483647).
Definition fits64 (x : Z) : bool := (-9223372036854775808 <=? x) && (x <=? 9223372036854775807).
Definition wrap_u32 (x : Z) : Z := x mod 4294967296.
"""


def main():
    out = ["(* GENERATED by lib/gen_C20.py from the current muduo sources (VERIF_REPO) -- do not edit *)", PRELUDE]
    fallbacks = []
    globals_ = {}
    funcs = {}

    def const(gname, relfile, cname, default):
        try:
            v, src = cxxast.var_const(relfile, cname)
            src = " ".join(src.split())
            out.append("(* %s: %s *)\nDefinition %s : Z := (%d).\n" % (relfile, src, gname, v))
        except Exception as e:  # noqa
            fallbacks.append("%s: %s (twin value %d)" % (gname, e, default))
            out.append("(* FALLBACK %s *)\nDefinition %s : Z := (%d).\n" % (gname, gname, default))
        globals_[cname] = gname

    const("kDaysPerWeek", "muduo/base/Date.h", "kDaysPerWeek", 7)
    const("kSecondsPerDay", "muduo/base/TimeZone.cc", "kSecondsPerDay", 86400)
    const("kMicroSecondsPerSecond", "muduo/base/Timestamp.h", "kMicroSecondsPerSecond", 1000000)

    def func(gname, relfile, qualname, out_param=None, this_fields=()):
        try:
            fn = cxxast.function_decl(relfile, qualname)
            ctx = Ctx(globals_, funcs)
            tr = Tr(ctx)
            params, binds, result = tr.function(fn, gname, out_param)
            if this_fields:
                params = [ident(f) for f in this_fields] + params
            txt = render(gname, params, binds, result, cxxast.src_text(fn, relfile), relfile)
            out.append(txt + "\n")
            return getattr(tr, "out_fields", None)
        except Exception as e:  # noqa
            fallbacks.append("%s: %s" % (gname, e))
            out.append("(* FALLBACK %s: %s *)\n%s\n" % (gname, str(e).replace("*)", ""), TWINS[gname]))
            return None

    func("getJulianDayNumber", "muduo/base/Date.cc", "muduo::detail::getJulianDayNumber")
    funcs["getJulianDayNumber"] = ("getJulianDayNumber", None)
    func("getYearMonthDay", "muduo/base/Date.cc", "muduo::detail::getYearMonthDay")
    func("weekDay", "muduo/base/Date.h", "muduo::Date::weekDay", this_fields=("julianDayNumber_",))

    # const int Date::kJulianDayOf1970_01_01 = detail::getJulianDayNumber(1970, 1, 1);
    try:
        val = None
        for d in cxxast.dump("muduo/base/Date.cc", "kJulianDayOf1970_01_01"):
            for v in cxxast.find(d, "VarDecl", "kJulianDayOf1970_01_01"):
                init = [c for c in kids(v)]
                if init:
                    ctx = Ctx(globals_, funcs)
                    tr = Tr(ctx)
                    tr.locals = set()
                    val = (tr.expr(init[0]), cxxast.src_text(v))
        if val is None:
            raise Untranslatable("no initialiser found")
        out.append("(* muduo/base/Date.cc: %s *)\nDefinition Date_kJulianDayOf1970_01_01 := %s.\n" % (" ".join(val[1].split()), val[0]))
    except Exception as e:  # noqa
        fallbacks.append("Date_kJulianDayOf1970_01_01: %s" % e)
        out.append("(* FALLBACK *)\n" + TWINS["Date_kJulianDayOf1970_01_01"] + "\n")
    globals_["kJulianDayOf1970_01_01"] = "Date_kJulianDayOf1970_01_01"

    fields = func("fillHMS", "muduo/base/TimeZone.cc", "muduo::detail::fillHMS", out_param="dt")
    hms = ["hour", "minute", "second"]
    if fields is not None and fields != hms:
        # shape changed: the callers below would bind the wrong fields
        fallbacks.append("fillHMS: assigns fields %s, expected %s" % (fields, hms))
        out[-1] = "(* FALLBACK fillHMS: unexpected out fields *)\n" + TWINS["fillHMS"] + "\n"
    funcs["fillHMS"] = ("fillHMS", hms)
    func("BreakTime", "muduo/base/TimeZone.cc", "muduo::detail::BreakTime")
    func("fromUtcTime", "muduo/base/TimeZone.cc", "muduo::TimeZone::fromUtcTime")

    txt = "\n".join(out) + "\n"
    path = os.path.join(cxxast.ROOT, "coq/Gen_C20.v")
    old = open(path).read() if os.path.exists(path) else None
    if old != txt:
        open(path, "w").write(txt)
    for f in fallbacks:
        print("FALLBACK", f)
    return 0


# ==========================================================================================
# second output: coq/Gen_C20Net.v -- byte-order helpers (muduo/net/Endian.h) and the places of
# SocketsOps.cc / InetAddress.cc where a port or an IPv4 address changes byte order or a text
# form is assembled.  Kept apart from Gen_C20.v so that the calendar sweeps (which depend on
# Gen_C20.vo) are not re-run when only the address facts change.
#
#   Endian.h        hostToNetwork{16,32,64}, networkToHost{16,32,64}: the returned expression
#                   (after macro expansion glibc's htobeN/beNtoh are __bswap_N or __uintN_identity)
#   SocketsOps.cc   toIpPort: the initialiser of `port` in the AF_INET6 branch and after it, the
#                   snprintf formats, the '[' stored first, the family constant tested;
#                   toIp: the families tested; fromIpPort (both overloads): the value stored in
#                   sin_port / sin6_port, the family stored, the family handed to inet_pton
#   InetAddress.cc  InetAddress(port, loopbackOnly, ipv6): the values stored in sin_port,
#                   sin6_port, sin_addr.s_addr and the families; InetAddress(ip, port, ipv6): the
#                   character searched by strchr; InetAddress::port(): the returned expression
#
# Unsigned values only: an integral cast to a narrower unsigned type is `mod 2^width`.

UWIDTH = {"uint16_t": 16, "__uint16_t": 16, "unsigned short": 16, "in_port_t": 16,
          "uint32_t": 32, "__uint32_t": 32, "unsigned int": 32, "in_addr_t": 32,
          "uint64_t": 64, "__uint64_t": 64, "unsigned long": 64}

NET_PRELUDE = """From Coq Require Import ZArith Bool List.
Import ListNotations.
Local Open Scope Z_scope.

(* unsigned machine words *)
Definition wrap_u (w : Z) (x : Z) : Z := x mod 2 ^ w.
(* glibc <bits/byteswap.h>: __bswap_16/32/64 reverse the bytes of a 16/32/64-bit unsigned value;
   <bits/uintn-identity.h>: __uintN_identity return their argument *)
Definition bswap_16 (x : Z) : Z := (x mod 256) * 256 + (x / 256) mod 256.
Definition bswap_32 (x : Z) : Z := bswap_16 (x mod 65536) * 65536 + bswap_16 ((x / 65536) mod 65536).
Definition bswap_64 (x : Z) : Z := bswap_32 (x mod 4294967296) * 4294967296 + bswap_32 ((x / 4294967296) mod 4294967296).
Definition uint_identity (x : Z) : Z := x.
"""

NET_TWINS = {
    "Endian_hostToNetwork64": "Definition Endian_hostToNetwork64 (host64 : Z) : Z := (bswap_64 host64).",
    "Endian_hostToNetwork32": "Definition Endian_hostToNetwork32 (host32 : Z) : Z := (bswap_32 host32).",
    "Endian_hostToNetwork16": "Definition Endian_hostToNetwork16 (host16 : Z) : Z := (bswap_16 host16).",
    "Endian_networkToHost64": "Definition Endian_networkToHost64 (net64 : Z) : Z := (bswap_64 net64).",
    "Endian_networkToHost32": "Definition Endian_networkToHost32 (net32 : Z) : Z := (bswap_32 net32).",
    "Endian_networkToHost16": "Definition Endian_networkToHost16 (net16 : Z) : Z := (bswap_16 net16).",
    "SocketsOps_toIpPort_port6": "Definition SocketsOps_toIpPort_port6 (sin6_port : Z) : Z := (Endian_networkToHost16 sin6_port).",
    "SocketsOps_toIpPort_port4": "Definition SocketsOps_toIpPort_port4 (sin_port : Z) : Z := (Endian_networkToHost16 sin_port).",
    "SocketsOps_toIpPort_fmt6": "Definition SocketsOps_toIpPort_fmt6 : list Z := [93; 58; 37; 117].",
    "SocketsOps_toIpPort_fmt4": "Definition SocketsOps_toIpPort_fmt4 : list Z := [58; 37; 117].",
    "SocketsOps_toIpPort_open6": "Definition SocketsOps_toIpPort_open6 : Z := 91.",
    "SocketsOps_toIpPort_family6": "Definition SocketsOps_toIpPort_family6 : Z := 10.",
    "SocketsOps_toIp_family4": "Definition SocketsOps_toIp_family4 : Z := 2.",
    "SocketsOps_toIp_family6": "Definition SocketsOps_toIp_family6 : Z := 10.",
    "SocketsOps_fromIpPort4_sin_port": "Definition SocketsOps_fromIpPort4_sin_port (port : Z) : Z := (Endian_hostToNetwork16 port).",
    "SocketsOps_fromIpPort6_sin6_port": "Definition SocketsOps_fromIpPort6_sin6_port (port : Z) : Z := (Endian_hostToNetwork16 port).",
    "SocketsOps_fromIpPort4_family": "Definition SocketsOps_fromIpPort4_family : Z := 2.",
    "SocketsOps_fromIpPort6_family": "Definition SocketsOps_fromIpPort6_family : Z := 10.",
    "SocketsOps_fromIpPort4_pton_family": "Definition SocketsOps_fromIpPort4_pton_family : Z := 2.",
    "SocketsOps_fromIpPort6_pton_family": "Definition SocketsOps_fromIpPort6_pton_family : Z := 10.",
    "InetAddress_ctor_sin_port": "Definition InetAddress_ctor_sin_port (portArg : Z) : Z := (Endian_hostToNetwork16 portArg).",
    "InetAddress_ctor_sin6_port": "Definition InetAddress_ctor_sin6_port (portArg : Z) : Z := (Endian_hostToNetwork16 portArg).",
    "InetAddress_ctor_s_addr": "Definition InetAddress_ctor_s_addr (loopbackOnly : bool) : Z := (Endian_hostToNetwork32 (if loopbackOnly then 2130706433 else 0)).",
    "InetAddress_ctor_family4": "Definition InetAddress_ctor_family4 : Z := 2.",
    "InetAddress_ctor_family6": "Definition InetAddress_ctor_family6 : Z := 10.",
    "InetAddress_ipv6_marker": "Definition InetAddress_ipv6_marker : Z := 58.",
    "InetAddress_port": "Definition InetAddress_port (portNetEndian : Z) : Z := (Endian_networkToHost16 portNetEndian).",
}


def uw(qt):
    qt = qt.replace("const ", "").strip()
    return UWIDTH.get(qt)


class NetTr:
    """unsigned integer expressions: parameters / named fields, calls to the byte-order helpers,
    glibc's __bswap_N / __uintN_identity, integer literals, ?: on a bool parameter, named constants"""

    def __init__(self, vars_, consts=None, boolvars=()):
        self.vars = vars_            # C++ name (variable, field or accessor) -> Gallina variable
        self.consts = consts or {}   # C++ constant name -> int
        self.boolvars = set(boolvars)

    def expr(self, n):
        k = n.get("kind")
        qt = n.get("type", {}).get("qualType", "")
        ks = kids(n)
        if k in ("ParenExpr", "ExprWithCleanups", "MaterializeTemporaryExpr", "ConstantExpr"):
            return self.expr(ks[0])
        if k in ("ImplicitCastExpr", "CStyleCastExpr", "CXXStaticCastExpr", "CXXFunctionalCastExpr"):
            inner = self.expr(ks[0])
            ck = n.get("castKind")
            if ck in ("LValueToRValue", "NoOp"):
                return inner
            if ck == "IntegralCast":
                sw, dw = uw(ks[0].get("type", {}).get("qualType", "")), uw(qt)
                lit = cxxast.strip(ks[0])
                if dw and lit.get("kind") == "IntegerLiteral" and 0 <= int(lit["value"]) < 2 ** dw:
                    return inner
                if sw and dw:
                    return inner if dw >= sw else "(wrap_u %d %s)" % (dw, inner)
                raise Untranslatable("integral cast %s -> %s" % (ks[0].get("type", {}).get("qualType"), qt))
            raise Untranslatable("cast kind %s" % ck)
        if k == "IntegerLiteral":
            return str(int(n["value"]))
        if k == "DeclRefExpr":
            nm = n.get("referencedDecl", {}).get("name")
            if nm in self.vars:
                return self.vars[nm]
            if nm in self.consts:
                return str(self.consts[nm])
            raise Untranslatable("unknown name %s" % nm)
        if k == "MemberExpr":
            if n.get("name") in self.vars:
                return self.vars[n["name"]]
            raise Untranslatable("member %s" % n.get("name"))
        if k == "CXXMemberCallExpr":
            me = ks[0]
            if me.get("name") in self.vars and len(ks) == 1:
                return self.vars[me["name"]]
            raise Untranslatable("member call %s" % me.get("name"))
        if k == "ConditionalOperator":
            c = cxxast.strip(ks[0])
            cn = c.get("referencedDecl", {}).get("name")
            if c.get("kind") == "DeclRefExpr" and cn in self.boolvars:
                return "(if %s then %s else %s)" % (cn, self.expr(ks[1]), self.expr(ks[2]))
            raise Untranslatable("condition of ?:")
        if k == "CallExpr":
            callee = cxxast.strip(ks[0])
            nm = callee.get("referencedDecl", {}).get("name")
            args = [self.expr(x) for x in ks[1:]]
            m = re.match(r"__bswap_(16|32|64)$", nm or "")
            if m and len(args) == 1:
                return "(bswap_%s %s)" % (m.group(1), args[0])
            if re.match(r"__uint(16|32|64)_identity$", nm or "") and len(args) == 1:
                return "(uint_identity %s)" % args[0]
            if nm in ("hostToNetwork16", "hostToNetwork32", "hostToNetwork64",
                      "networkToHost16", "networkToHost32", "networkToHost64") and len(args) == 1:
                return "(Endian_%s %s)" % (nm, args[0])
            raise Untranslatable("call to %s" % nm)
        raise Untranslatable("expression kind %s" % k)


def fn_candidates(relfile, qualname, kinds=("FunctionDecl", "CXXMethodDecl", "CXXConstructorDecl")):
    short = qualname.split("::")[-1]
    out = []
    for d in cxxast.dump(relfile, qualname):
        for n in cxxast.walk(d):
            if n.get("kind") in kinds and n.get("name") == short and \
               any(isinstance(c, dict) and c.get("kind") == "CompoundStmt" for c in n.get("inner", [])):
                out.append(n)
    return out


def stmts_of(n):
    return kids(n) if n.get("kind") == "CompoundStmt" else [n]


def assigned(stmts, field):
    """RHS nodes of `x.field = e` / `p->field = e` among the statements (not descending into nested ifs)"""
    out = []
    for s in stmts:
        if s.get("kind") == "BinaryOperator" and s.get("opcode") == "=":
            l, r = kids(s)
            if l.get("kind") == "MemberExpr" and l.get("name") == field:
                out.append(r)
    return out


def main_net():
    out = ["(* GENERATED by lib/gen_C20.py (main_net) from the current muduo sources (VERIF_REPO) -- do not edit *)", NET_PRELUDE]
    fallbacks = []

    def emit(name, thunk):
        try:
            txt, src = thunk()
            src = " ".join(src.split()).replace("*)", "* )").replace("(*", "( *")
            out.append("(* %s *)\n%s\n" % (src, txt))
        except Exception as e:  # noqa
            fallbacks.append("%s: %s" % (name, e))
            out.append("(* FALLBACK %s: %s *)\n%s\n" % (name, str(e).replace("*)", ""), NET_TWINS[name]))

    def one(xs, what):
        if len(xs) != 1:
            raise Untranslatable("%s: %d matches" % (what, len(xs)))
        return xs[0]

    # ---- Endian.h
    for f in ("hostToNetwork64", "hostToNetwork32", "hostToNetwork16", "networkToHost64", "networkToHost32", "networkToHost16"):
        def th(f=f):
            fn = cxxast.function_decl("muduo/net/Endian.h", "muduo::net::sockets::" + f)
            ps = [p for p in kids(fn) if p.get("kind") == "ParmVarDecl"]
            p = one(ps, "parameters")
            w = uw(p.get("type", {}).get("qualType", ""))
            rw = uw(fn.get("type", {}).get("qualType", "").split("(")[0])
            if not w or not rw:
                raise Untranslatable("parameter / result type")
            st = kids(cxxast.body(fn))
            r = one([s for s in st if s.get("kind") == "ReturnStmt"], "return")
            if len(st) != 1:
                raise Untranslatable("more than a return statement")
            e = kids(r)[0]
            t = NetTr({p["name"]: ident(p["name"])}).expr(e)
            ew = uw(e.get("type", {}).get("qualType", ""))
            if ew and ew > rw:
                t = "(wrap_u %d %s)" % (rw, t)
            return ("Definition Endian_%s (%s : Z) : Z := %s." % (f, ident(p["name"]), t),
                    "muduo/net/Endian.h: " + cxxast.src_text(fn, "muduo/net/Endian.h"))
        emit("Endian_" + f, th)

    # ---- SocketsOps.cc toIpPort
    SO = "muduo/net/SocketsOps.cc"
    state = {}

    def toipport():
        if "fn" not in state:
            fn = one(fn_candidates(SO, "muduo::net::sockets::toIpPort"), "toIpPort")
            top = kids(cxxast.body(fn))
            ifs = one([s for s in top if s.get("kind") == "IfStmt"], "if statements of toIpPort")
            cond, then = kids(ifs)[0], kids(ifs)[1]
            state.update(fn=fn, top=top, cond=cond, then=stmts_of(then))
        return state

    def port_init(stmts, field, gname):
        vs = []
        for s in stmts:
            if s.get("kind") == "DeclStmt":
                vs += [v for v in kids(s) if v.get("kind") == "VarDecl" and v.get("name") == "port"]
        v = one(vs, "declaration of port")
        t = NetTr({field: field}).expr(kids(v)[0])
        if uw(v.get("type", {}).get("qualType", "")) != 16:
            raise Untranslatable("port is not uint16_t")
        return "Definition %s (%s : Z) : Z := %s." % (gname, field, t), SO + ": " + cxxast.src_text(v, SO)

    def fmt_of(stmts, gname):
        calls = [s for s in stmts if s.get("kind") == "CallExpr" and
                 cxxast.strip(kids(s)[0]).get("referencedDecl", {}).get("name") == "snprintf"]
        c = one(calls, "snprintf calls")
        a = kids(c)
        if len(a) != 5:
            raise Untranslatable("snprintf with %d arguments" % (len(a) - 1))
        lit = cxxast.strip(a[3])
        if lit.get("kind") != "StringLiteral":
            raise Untranslatable("format is not a literal")
        arg = cxxast.strip(a[4])
        if arg.get("referencedDecl", {}).get("name") != "port":
            raise Untranslatable("snprintf argument is not port")
        val = json_string(lit["value"])
        return ("Definition %s : list Z := [%s]." % (gname, "; ".join(str(ord(ch)) for ch in val)),
                SO + ": " + cxxast.src_text(c, SO))

    emit("SocketsOps_toIpPort_port6", lambda: port_init(toipport()["then"], "sin6_port", "SocketsOps_toIpPort_port6"))
    emit("SocketsOps_toIpPort_port4", lambda: port_init(toipport()["top"], "sin_port", "SocketsOps_toIpPort_port4"))
    emit("SocketsOps_toIpPort_fmt6", lambda: fmt_of(toipport()["then"], "SocketsOps_toIpPort_fmt6"))
    emit("SocketsOps_toIpPort_fmt4", lambda: fmt_of(toipport()["top"], "SocketsOps_toIpPort_fmt4"))

    def open6():
        for s in toipport()["then"]:
            if s.get("kind") == "BinaryOperator" and s.get("opcode") == "=":
                l, r = kids(s)
                if l.get("kind") == "ArraySubscriptExpr":
                    idx = cxxast.const_eval(kids(l)[1])
                    if idx == 0:
                        return ("Definition SocketsOps_toIpPort_open6 : Z := %d." % cxxast.const_eval(r), SO + ": " + cxxast.src_text(s, SO))
        raise Untranslatable("no buf[0] = <char> in the AF_INET6 branch")
    emit("SocketsOps_toIpPort_open6", open6)

    def family_test(cond):
        c = cxxast.strip(cond)
        if c.get("kind") == "BinaryOperator" and c.get("opcode") == "==":
            l, r = kids(c)
            if cxxast.strip(l).get("kind") == "MemberExpr" and cxxast.strip(l).get("name") == "sa_family":
                return cxxast.const_eval(r)
        raise Untranslatable("family test")
    emit("SocketsOps_toIpPort_family6", lambda: ("Definition SocketsOps_toIpPort_family6 : Z := %d." % family_test(toipport()["cond"]),
                                                  SO + ": if (" + cxxast.src_text(toipport()["cond"], SO) + ")"))

    def toip(which):
        fn = one(fn_candidates(SO, "muduo::net::sockets::toIp"), "toIp")
        top = kids(cxxast.body(fn))
        i1 = one([s for s in top if s.get("kind") == "IfStmt"], "if statements of toIp")
        ks = kids(i1)
        fams = [(family_test(ks[0]), ks[1])]
        if len(ks) == 3 and ks[2].get("kind") == "IfStmt":
            k2 = kids(ks[2])
            fams.append((family_test(k2[0]), k2[1]))
        # which branch calls inet_ntop with which family / field
        for (fam, blk) in fams:
            for c in cxxast.find(blk, "CallExpr"):
                if cxxast.strip(kids(c)[0]).get("referencedDecl", {}).get("name") == "inet_ntop":
                    af = cxxast.const_eval(kids(c)[1])
                    fld = [m.get("name") for m in cxxast.find(kids(c)[2], "MemberExpr")]
                    want = ("sin_addr", 2) if which == 4 else ("sin6_addr", 10)
                    if af == want[1] and want[0] in fld and fam == af:
                        return "Definition SocketsOps_toIp_family%d : Z := %d." % (which, fam), SO + ": " + cxxast.src_text(c, SO)
        raise Untranslatable("no branch printing %s with its own family" % ("sin_addr" if which == 4 else "sin6_addr"))
    emit("SocketsOps_toIp_family4", lambda: toip(4))
    emit("SocketsOps_toIp_family6", lambda: toip(6))

    def fromipport(which):
        want = "sockaddr_in6 *" if which == 6 else "sockaddr_in *"
        fns = [f for f in fn_candidates(SO, "muduo::net::sockets::fromIpPort")
               if f.get("type", {}).get("qualType", "").rstrip(")").endswith(want)]
        fn = one(fns, "fromIpPort overload")
        return fn, kids(cxxast.body(fn))

    def from_port(which):
        fn, st = fromipport(which)
        fld = "sin6_port" if which == 6 else "sin_port"
        r = one(assigned(st, fld), "assignments to " + fld)
        t = NetTr({"port": "port"}).expr(r)
        g = "SocketsOps_fromIpPort%d_%s" % (which, fld)
        return "Definition %s (port : Z) : Z := %s." % (g, t), SO + ": " + fld + " = " + cxxast.src_text(r, SO)

    def from_family(which):
        fn, st = fromipport(which)
        fld = "sin6_family" if which == 6 else "sin_family"
        r = one(assigned(st, fld), "assignments to " + fld)
        return "Definition SocketsOps_fromIpPort%d_family : Z := %d." % (which, cxxast.const_eval(r)), SO + ": " + fld + " = " + cxxast.src_text(r, SO)

    def from_pton(which):
        fn, st = fromipport(which)
        cs = [c for s in st for c in cxxast.find(s, "CallExpr")
              if cxxast.strip(kids(c)[0]).get("referencedDecl", {}).get("name") == "inet_pton"]
        c = one(cs, "inet_pton calls")
        fld = [m.get("name") for m in cxxast.find(kids(c)[3], "MemberExpr")]
        if ("sin6_addr" if which == 6 else "sin_addr") not in fld:
            raise Untranslatable("inet_pton destination")
        return "Definition SocketsOps_fromIpPort%d_pton_family : Z := %d." % (which, cxxast.const_eval(kids(c)[1])), SO + ": " + cxxast.src_text(c, SO)

    emit("SocketsOps_fromIpPort4_sin_port", lambda: from_port(4))
    emit("SocketsOps_fromIpPort6_sin6_port", lambda: from_port(6))
    emit("SocketsOps_fromIpPort4_family", lambda: from_family(4))
    emit("SocketsOps_fromIpPort6_family", lambda: from_family(6))
    emit("SocketsOps_fromIpPort4_pton_family", lambda: from_pton(4))
    emit("SocketsOps_fromIpPort6_pton_family", lambda: from_pton(6))

    # ---- InetAddress.cc
    IA = "muduo/net/InetAddress.cc"

    def ctor(sig):
        cs = [c for c in fn_candidates(IA, "muduo::net::InetAddress::InetAddress") if c.get("type", {}).get("qualType", "") == sig]
        c = one(cs, "constructor " + sig)
        top = kids(cxxast.body(c))
        ifs = one([s for s in top if s.get("kind") == "IfStmt"], "if statements of the constructor")
        ks = kids(ifs)
        if len(ks) != 3:
            raise Untranslatable("if without else")
        return c, ks[0], stmts_of(ks[1]), stmts_of(ks[2])

    def ctor_port():
        c, cond, then, els = ctor("void (uint16_t, bool, bool)")
        if cxxast.strip(cond).get("referencedDecl", {}).get("name") != "ipv6":
            raise Untranslatable("constructor condition is not ipv6")
        return c, then, els

    def ctor_fact(branch, fld, gname):
        c, then, els = ctor_port()
        st = then if branch == 6 else els
        r = one(assigned(st, fld), "assignments to " + fld)
        t = NetTr({"portArg": "portArg"}).expr(r)
        return "Definition %s (portArg : Z) : Z := %s." % (gname, t), IA + ": " + fld + " = " + cxxast.src_text(r, IA)

    def ctor_family(branch, fld, gname):
        c, then, els = ctor_port()
        r = one(assigned(then if branch == 6 else els, fld), "assignments to " + fld)
        return "Definition %s : Z := %d." % (gname, cxxast.const_eval(r)), IA + ": " + fld + " = " + cxxast.src_text(r, IA)

    def ctor_s_addr():
        c, then, els = ctor_port()
        consts = {}
        for nm in ("kInaddrAny", "kInaddrLoopback"):
            consts[nm] = cxxast.var_const(IA, nm, {"INADDR_ANY": 0, "INADDR_LOOPBACK": 0x7f000001})[0] % 2 ** 32
        r = one(assigned(els, "s_addr"), "assignments to s_addr")
        ipdecl = None
        for s in els:
            if s.get("kind") == "DeclStmt":
                for v in kids(s):
                    if v.get("kind") == "VarDecl" and v.get("name") == "ip":
                        ipdecl = v
        if ipdecl is None:
            raise Untranslatable("no local ip")
        ipt = NetTr({}, consts, boolvars=("loopbackOnly",)).expr(kids(ipdecl)[0])
        t = NetTr({"ip": ipt}, consts).expr(r)
        return ("Definition InetAddress_ctor_s_addr (loopbackOnly : bool) : Z := %s." % t,
                IA + ": " + cxxast.src_text(ipdecl, IA) + "; s_addr = " + cxxast.src_text(r, IA) +
                "  [kInaddrAny = %d, kInaddrLoopback = %d]" % (consts["kInaddrAny"], consts["kInaddrLoopback"]))

    emit("InetAddress_ctor_sin_port", lambda: ctor_fact(4, "sin_port", "InetAddress_ctor_sin_port"))
    emit("InetAddress_ctor_sin6_port", lambda: ctor_fact(6, "sin6_port", "InetAddress_ctor_sin6_port"))
    emit("InetAddress_ctor_s_addr", ctor_s_addr)
    emit("InetAddress_ctor_family4", lambda: ctor_family(4, "sin_family", "InetAddress_ctor_family4"))
    emit("InetAddress_ctor_family6", lambda: ctor_family(6, "sin6_family", "InetAddress_ctor_family6"))

    def marker():
        c, cond, then, els = ctor("void (muduo::StringArg, uint16_t, bool)")
        cn = cxxast.strip(cond)
        if cn.get("kind") != "BinaryOperator" or cn.get("opcode") != "||":
            raise Untranslatable("condition is not ipv6 || strchr(...)")
        l, r = kids(cn)
        if cxxast.strip(l).get("referencedDecl", {}).get("name") != "ipv6":
            raise Untranslatable("left operand is not ipv6")
        call = cxxast.strip(r)
        while call.get("kind") == "ImplicitCastExpr":
            call = kids(call)[0]
        if call.get("kind") != "CallExpr" or cxxast.strip(kids(call)[0]).get("referencedDecl", {}).get("name") != "strchr":
            raise Untranslatable("right operand is not strchr(...)")
        # the branch taken must be the sockaddr_in6 one
        f6 = [x for s in then for x in cxxast.find(s, "MemberExpr") if x.get("name") == "addr6_"]
        f4 = [x for s in els for x in cxxast.find(s, "MemberExpr") if x.get("name") == "addr_"]
        if not f6 or not f4:
            raise Untranslatable("branches do not fill addr6_ / addr_")
        return "Definition InetAddress_ipv6_marker : Z := %d." % cxxast.const_eval(kids(call)[2]), IA + ": if (" + cxxast.src_text(cond, IA) + ")"
    emit("InetAddress_ipv6_marker", marker)

    def port_fn():
        fn = one(fn_candidates(IA, "muduo::net::InetAddress::port"), "InetAddress::port")
        st = kids(cxxast.body(fn))
        r = one([s for s in st if s.get("kind") == "ReturnStmt"], "return")
        if len(st) != 1:
            raise Untranslatable("more than a return statement")
        t = NetTr({"portNetEndian": "portNetEndian"}).expr(kids(r)[0])
        return "Definition InetAddress_port (portNetEndian : Z) : Z := %s." % t, IA + ": " + cxxast.src_text(fn, IA)
    emit("InetAddress_port", port_fn)

    txt = "\n".join(out) + "\n"
    path = os.path.join(cxxast.ROOT, "coq/Gen_C20Net.v")
    old = open(path).read() if os.path.exists(path) else None
    if old != txt:
        open(path, "w").write(txt)
    for f in fallbacks:
        print("FALLBACK", f)
    return 0


def json_string(v):
    """clang prints a StringLiteral's value as a quoted C string"""
    if len(v) >= 2 and v[0] == '"' and v[-1] == '"':
        body = v[1:-1]
        if "\\" in body:
            raise Untranslatable("escape in format string")
        return body
    raise Untranslatable("string literal value")


if __name__ == "__main__":
    rc = main()
    rc2 = main_net()
    sys.exit(rc or rc2)
