#!/usr/bin/env python3
"""gen_C20.py: translator (DESIGN 4.1) for the calendar / time arithmetic of property C20.

Regenerates coq/Gen_C20.v from VERIF_REPO's CURRENT sources on every run, through the
clang JSON AST (lib/cxxast.py):

  muduo/base/Date.cc      detail::getJulianDayNumber, detail::getYearMonthDay,
                          Date::kJulianDayOf1970_01_01 (its initialiser, a call)
  muduo/base/Date.h       Date::weekDay (the returned expression), Date::kDaysPerWeek
  muduo/base/TimeZone.cc  kSecondsPerDay, detail::fillHMS, detail::BreakTime,
                          TimeZone::fromUtcTime
  muduo/base/Timestamp.h  Timestamp::kMicroSecondsPerSecond

Every function f becomes a Gallina function over Z with C semantics (`/` -> Z.quot,
`%` -> Z.rem, int -> unsigned conversion -> `mod 2^32`) and a companion `f_fits : ... -> bool`
that is true when every int / long intermediate stays inside its machine range (so that
"Z semantics = C semantics, no undefined behaviour" is itself a proved side condition).

Supported statement forms: declarations with initialiser, assignments (`=`, `+=`, `-=`,
`++`, `--`) to locals and to fields of local records, `if` blocks made of such
assignments, `(void) x;`, calls to already translated functions, the Date constructors
/ accessors (class summary below), `return e;` and `return <local record>;`.
Anything else: the piece is reported as `FALLBACK <name>: <reason>` and the committed
hand-written twin (TWINS below) is emitted instead, so that a harmless rewrite does not
break the build; the check then relies on the differential test for that piece.
"""
import os, sys, re
sys.path.insert(0, os.path.dirname(os.path.abspath(__file__)))
import cxxast
from cxxast import Untranslatable

RESERVED = {"at", "in", "end", "as", "let", "if", "then", "else", "fun", "fix", "match", "with", "return",
            "forall", "exists", "Type", "Prop", "Set", "mod", "for", "where", "using", "IF"}

# record types we know how to flatten: field order of the generated tuples
RECORDS = {
    "YearMonthDay": ["year", "month", "day"],
    "DateTime": ["year", "month", "day", "hour", "minute", "second"],
}

INT32 = ("int",)
INT64 = ("long", "int64_t", "long long", "time_t")
UINT32 = ("unsigned int", "unsigned", "uint32_t")


def ident(n):
    n = re.sub(r"\W", "_", n)
    return n + "_" if n in RESERVED else n


def base_type(qt):
    qt = qt.replace("const ", "").replace("struct ", "").replace("muduo::", "").replace("Date::", "")
    return qt.replace("&", "").replace("*", "").strip()


def kids(n):
    return [c for c in n.get("inner", []) or [] if isinstance(c, dict) and c.get("kind")]


class Ctx:
    """Per function: known globals, called functions, record-typed names."""

    def __init__(self, globals_, funcs):
        self.globals = globals_      # C++ name -> Gallina name
        self.funcs = funcs           # C++ short name -> (Gallina name, result record or None)
        self.records = {}            # local/param name -> record type
        self.obl = []                # list of boolean Gallina terms (fits obligations) for the current binding


class Tr:
    def __init__(self, ctx):
        self.c = ctx

    # ---------------------------------------------------------------- expressions
    def fits(self, qt, term):
        t = base_type(qt)
        if t in INT32:
            self.c.obl.append(("fits32", term))
        elif t in INT64:
            self.c.obl.append(("fits64", term))
        elif t in UINT32:
            pass  # unsigned arithmetic wraps; the wrap is modelled where a signed value is converted

    def expr(self, n):
        k = n.get("kind")
        qt = n.get("type", {}).get("qualType", "")
        if k in ("ParenExpr", "ExprWithCleanups", "MaterializeTemporaryExpr", "CXXBindTemporaryExpr", "ConstantExpr"):
            ks = kids(n)
            if len(ks) != 1:
                raise Untranslatable("wrapper with %d children" % len(ks))
            return self.expr(ks[0])
        if k in ("ImplicitCastExpr", "CStyleCastExpr", "CXXStaticCastExpr", "CXXFunctionalCastExpr"):
            ks = kids(n)
            if len(ks) != 1:
                raise Untranslatable("cast with %d children" % len(ks))
            inner = self.expr(ks[0])
            ck = n.get("castKind")
            if ck in ("LValueToRValue", "NoOp"):
                return inner
            if ck == "IntegralCast":
                src = base_type(ks[0].get("type", {}).get("qualType", ""))
                dst = base_type(qt)
                if dst in UINT32 and src not in UINT32:
                    lit = cxxast.strip(ks[0])
                    if lit.get("kind") == "IntegerLiteral" and 0 <= int(lit["value"]) < 2 ** 32:
                        return inner                  # a non-negative literal converts to itself
                    return "(wrap_u32 %s)" % inner
                if dst in INT32 and src in INT64 + UINT32:
                    self.fits(qt, inner)          # narrowing: value must be representable
                    return inner
                if dst in INT64 or (dst in INT32 and src in INT32) or (dst in UINT32 and src in UINT32):
                    return inner
                raise Untranslatable("integral cast %s -> %s" % (src, dst))
            raise Untranslatable("cast kind %s" % ck)
        if k == "IntegerLiteral":
            return "(%d)" % int(n["value"]) if int(n["value"]) < 0 else str(int(n["value"]))
        if k == "DeclRefExpr":
            rd = n.get("referencedDecl", {})
            nm = rd.get("name")
            if rd.get("kind") in ("ParmVarDecl",) or nm in self.locals:
                if nm in self.c.records:
                    raise Untranslatable("record %s used as a value" % nm)
                return ident(nm)
            if nm in self.c.globals:
                return self.c.globals[nm]
            raise Untranslatable("unknown name %s" % nm)
        if k == "MemberExpr":
            ks = kids(n)
            if not ks:
                raise Untranslatable("member without base")
            b = cxxast.strip(ks[0])
            if b.get("kind") == "CXXThisExpr":
                return ident(n["name"])
            if b.get("kind") == "DeclRefExpr":
                bn = b.get("referencedDecl", {}).get("name")
                if bn in self.c.records:
                    return ident(bn + "_" + n["name"])
            raise Untranslatable("member expression on %s" % b.get("kind"))
        if k == "UnaryOperator":
            op = n["opcode"]
            a = self.expr(kids(n)[0])
            if op == "-":
                t = "(- %s)" % a
                self.fits(qt, t)
                return t
            if op == "+":
                return a
            raise Untranslatable("unary %s in an expression" % op)
        if k == "BinaryOperator":
            op = n["opcode"]
            a, b = [self.expr(x) for x in kids(n)]
            if op in ("+", "-", "*"):
                t = "(%s %s %s)" % (a, op, b)
            elif op == "/":
                t = "(Z.quot %s %s)" % (a, b)
            elif op == "%":
                t = "(Z.rem %s %s)" % (a, b)
            else:
                raise Untranslatable("binary %s in an integer expression" % op)
            self.fits(qt, t)
            return t
        if k == "CallExpr":
            ks = kids(n)
            callee = cxxast.strip(ks[0])
            nm = callee.get("referencedDecl", {}).get("name")
            if nm in self.c.funcs and self.c.funcs[nm][1] is None:
                args = [self.expr(x) for x in ks[1:]]
                self.c.obl.append(("raw", "%s_fits %s" % (self.c.funcs[nm][0], " ".join(args))))
                return "(%s %s)" % (self.c.funcs[nm][0], " ".join(args))
            raise Untranslatable("call to %s" % nm)
        if k == "CXXMemberCallExpr":
            # class summary of muduo::Date (Date.h): julianDayNumber() returns the stored number
            me = kids(n)[0]
            obj = cxxast.strip(kids(me)[0])
            on = obj.get("referencedDecl", {}).get("name")
            if me.get("name") == "julianDayNumber" and self.c.records.get(on) == "Date":
                return ident(on + "_jdn")
            raise Untranslatable("member call %s" % me.get("name"))
        raise Untranslatable("expression kind %s" % k)

    def cond(self, n):
        n = cxxast.strip(n)
        if n.get("kind") == "BinaryOperator" and n["opcode"] in ("<", "<=", ">", ">=", "==", "!="):
            a, b = [self.expr(x) for x in kids(n)]
            op = {"<": "Z.ltb", "<=": "Z.leb", ">": "Z.gtb", ">=": "Z.geb", "==": "Z.eqb"}.get(n["opcode"])
            if op is None:
                return "(negb (Z.eqb %s %s))" % (a, b)
            return "(%s %s %s)" % (op, a, b)
        raise Untranslatable("condition %s" % n.get("kind"))

    # ---------------------------------------------------------------- statements
    def lhs(self, n):
        n = cxxast.strip(n)
        if n.get("kind") == "DeclRefExpr":
            nm = n["referencedDecl"]["name"]
            if nm in self.locals and nm not in self.c.records:
                return ident(nm)
        if n.get("kind") == "MemberExpr":
            b = cxxast.strip(kids(n)[0])
            if b.get("kind") == "DeclRefExpr":
                bn = b["referencedDecl"]["name"]
                if bn in self.c.records and self.c.records[bn] in RECORDS:
                    self.assigned_fields.setdefault(bn, set()).add(n["name"])
                    return ident(bn + "_" + n["name"])
        raise Untranslatable("assignment target %s" % n.get("kind"))

    def take_obl(self):
        o, self.c.obl = self.c.obl, []
        return o

    def stmt(self, n):
        """-> list of bindings (pattern, term, obligations)"""
        k = n.get("kind")
        if k == "DeclStmt":
            out = []
            for v in kids(n):
                if v.get("kind") != "VarDecl":
                    raise Untranslatable("declaration of %s" % v.get("kind"))
                out += self.vardecl(v)
            return out
        if k in ("CStyleCastExpr", "CXXStaticCastExpr") and base_type(n.get("type", {}).get("qualType", "")) == "void":
            return []
        if k == "NullStmt":
            return []
        if k == "BinaryOperator" and n["opcode"] == "=":
            l, r = kids(n)
            rhs = self.expr(r)
            return [(self.lhs(l), rhs, self.take_obl())]
        if k == "CompoundAssignOperator" and n["opcode"] in ("+=", "-="):
            l, r = kids(n)
            x = self.lhs(l)
            t = "(%s %s %s)" % (x, n["opcode"][0], self.expr(r))
            self.fits(n.get("type", {}).get("qualType", ""), t)
            return [(x, t, self.take_obl())]
        if k == "UnaryOperator" and n["opcode"] in ("++", "--"):
            x = self.lhs(kids(n)[0])
            t = "(%s %s 1)" % (x, "+" if n["opcode"] == "++" else "-")
            self.fits(n.get("type", {}).get("qualType", ""), t)
            return [(x, t, self.take_obl())]
        if k == "CompoundStmt":
            out = []
            for s in kids(n):
                out += self.stmt(s)
            return out
        if k == "IfStmt":
            ks = kids(n)
            if len(ks) != 2:
                raise Untranslatable("if with else / init")
            c = self.cond(ks[0])
            cobl = self.take_obl()
            inner = self.stmt(ks[1])
            vs = []
            for (p, t, o) in inner:
                if p.startswith("'"):
                    raise Untranslatable("tuple binding inside if")
                if p not in vs:
                    vs.append(p)
            if not vs:
                return []
            tup = vs[0] if len(vs) == 1 else "(" + ", ".join(vs) + ")"
            body = "".join("let %s := %s in " % (p, t) for (p, t, o) in inner) + tup
            # obligations of the branch hold only when it is taken; they may mention the
            # intermediate values, so they are evaluated inside the same let chain
            obs = []
            chain = ""
            for (p, t, o) in inner:
                if o:
                    obs.append("(%s%s)" % (chain, render_obl(o)))
                chain += "let %s := %s in " % (p, t)
            cond_obl = [("raw", "(if %s then %s else true)" % (c, " && ".join(obs)))] if obs else []
            pat = vs[0] if len(vs) == 1 else "'" + tup
            return [(pat, "(if %s then %s else %s)" % (c, body, tup), cobl + cond_obl)]
        if k == "CallExpr":
            # procedure with an out-parameter: f(args..., &rec)  ==>  let '(fields) := f args
            ks = kids(n)
            callee = cxxast.strip(ks[0])
            nm = callee.get("referencedDecl", {}).get("name")
            if nm in self.c.funcs and self.c.funcs[nm][1] is not None:
                fields = self.c.funcs[nm][1]
                last = cxxast.strip(ks[-1])
                if last.get("kind") == "UnaryOperator" and last.get("opcode") == "&":
                    tgt = cxxast.strip(kids(last)[0]).get("referencedDecl", {}).get("name")
                    if tgt in self.c.records:
                        args = [self.expr(x) for x in ks[1:-1]]
                        for f in fields:
                            self.assigned_fields.setdefault(tgt, set()).add(f)
                        pat = "'(" + ", ".join(ident(tgt + "_" + f) for f in fields) + ")"
                        ob = self.take_obl() + [("raw", "%s_fits %s" % (self.c.funcs[nm][0], " ".join(args)))]
                        return [(pat, "(%s %s)" % (self.c.funcs[nm][0], " ".join(args)), ob)]
            raise Untranslatable("call statement %s" % nm)
        raise Untranslatable("statement kind %s" % k)

    def vardecl(self, v):
        nm = v["name"]
        bt = base_type(v.get("type", {}).get("qualType", ""))
        init = [c for c in kids(v)]
        self.locals.add(nm)
        if bt in RECORDS or bt == "Date":
            self.c.records[nm] = bt
            if not init:
                return []
            e = init[0]
            while e.get("kind") in ("ExprWithCleanups", "MaterializeTemporaryExpr", "ImplicitCastExpr", "CXXBindTemporaryExpr") \
                    or (e.get("kind") == "CXXConstructExpr" and len(kids(e)) == 1 and
                        base_type(kids(e)[0].get("type", {}).get("qualType", "")) == bt):
                e = kids(e)[0]
            if e.get("kind") == "CXXConstructExpr":
                args = kids(e)
                if bt in RECORDS and not args:
                    return []                       # default-constructed record: fields assigned later
                if bt == "Date" and len(args) == 1:  # class summary: Date(int jdn) stores jdn
                    t = self.expr(args[0])
                    return [(ident(nm + "_jdn"), t, self.take_obl())]
                if bt == "Date" and len(args) == 3:  # class summary: Date(y,m,d) = getJulianDayNumber(y,m,d) (Date.cc)
                    a = [self.expr(x) for x in args]
                    ob = self.take_obl() + [("raw", "getJulianDayNumber_fits %s" % " ".join(a))]
                    return [(ident(nm + "_jdn"), "(getJulianDayNumber %s)" % " ".join(a), ob)]
                raise Untranslatable("constructor of %s with %d args" % (bt, len(args)))
            if e.get("kind") == "CXXMemberCallExpr" and bt == "YearMonthDay":
                me = kids(e)[0]
                obj = cxxast.strip(kids(me)[0]).get("referencedDecl", {}).get("name")
                if me.get("name") == "yearMonthDay" and self.c.records.get(obj) == "Date":
                    # class summary: Date::yearMonthDay() = getYearMonthDay(julianDayNumber_) (Date.cc)
                    for f in RECORDS[bt]:
                        self.assigned_fields.setdefault(nm, set()).add(f)
                    pat = "'(" + ", ".join(ident(nm + "_" + f) for f in RECORDS[bt]) + ")"
                    return [(pat, "(getYearMonthDay %s)" % ident(obj + "_jdn"),
                             [("raw", "getYearMonthDay_fits %s" % ident(obj + "_jdn"))])]
            raise Untranslatable("initialiser of record %s: %s" % (nm, e.get("kind")))
        if bt in INT32 + INT64 + UINT32:
            if not init:
                raise Untranslatable("uninitialised integer %s" % nm)
            t = self.expr(init[0])
            return [(ident(nm), t, self.take_obl())]
        raise Untranslatable("local of type %s" % bt)

    # ---------------------------------------------------------------- functions
    def function(self, fn, gname, out_record_param=None):
        """-> (params, bindings, result term, result record)."""
        self.locals = set()
        self.assigned_fields = {}
        params = []
        for p in kids(fn):
            if p.get("kind") != "ParmVarDecl":
                continue
            bt = base_type(p.get("type", {}).get("qualType", ""))
            nm = p["name"]
            self.locals.add(nm)
            if bt in RECORDS:
                self.c.records[nm] = bt
                if out_record_param == nm:
                    continue
                params += [ident(nm + "_" + f) for f in RECORDS[bt]]
            elif bt in INT32 + INT64 + UINT32:
                params.append(ident(nm))
            else:
                raise Untranslatable("parameter type %s" % bt)
        binds = []
        result = None
        stmts = kids(cxxast.body(fn))
        for i, s in enumerate(stmts):
            if s.get("kind") == "ReturnStmt":
                if i != len(stmts) - 1:
                    raise Untranslatable("return before the end")
                e = kids(s)[0]
                r = e
                while r.get("kind") in ("CXXConstructExpr", "ImplicitCastExpr", "ExprWithCleanups", "MaterializeTemporaryExpr") \
                        and len(kids(r)) == 1 and base_type(r.get("type", {}).get("qualType", "")) in RECORDS:
                    r = kids(r)[0]
                if r.get("kind") == "DeclRefExpr" and r["referencedDecl"]["name"] in self.c.records:
                    rn = r["referencedDecl"]["name"]
                    rt = self.c.records[rn]
                    missing = [f for f in RECORDS[rt] if f not in self.assigned_fields.get(rn, set())]
                    if missing:
                        raise Untranslatable("returned record %s: fields %s never assigned" % (rn, missing))
                    result = "(" + ", ".join(ident(rn + "_" + f) for f in RECORDS[rt]) + ")"
                else:
                    result = self.expr(e)
                binds.append(("_ret_obl", None, self.take_obl()))
            else:
                binds += self.stmt(s)
        if result is None:
            if out_record_param:
                rt = self.c.records[out_record_param]
                fields = sorted(self.assigned_fields.get(out_record_param, set()), key=RECORDS[rt].index)
                result = "(" + ", ".join(ident(out_record_param + "_" + f) for f in fields) + ")"
                self.out_fields = fields
            else:
                raise Untranslatable("no return statement")
        return params, binds, result


def render_obl(obl):
    """One boolean term for the obligations of a binding.  Every checked intermediate is
    named once (children are recorded before their parents, so a parent's text contains
    its children's text and is rewritten to use their names): no recomputation."""
    temps, conj = [], []
    for (kind, term) in obl:
        if kind == "raw":
            t = term
            for (nm, old) in reversed(temps):
                t = t.replace(old, nm)
            conj.append(t)
            continue
        t = term
        for (nm, old) in reversed(temps):
            t = t.replace(old, nm)
        known = [nm for (nm, old) in temps if old == term]
        if known:
            nm = known[0]
        else:
            nm = "t%d_" % (len(temps) + 1)
            temps.append((nm, term))
            conj.append(("bind", nm, t))
        conj.append("%s %s" % (kind, nm))
    out, close = "", 0
    parts = []
    for c in conj:
        if isinstance(c, tuple):
            parts.append("(let %s := %s in true" % (c[1], c[2]))
            close += 1
        else:
            parts.append(c)
    # (let t1 := .. in true && fits t1 && (let t2 := .. in true && ... ))
    return "(" + " && ".join(parts) + ")" * close + ")"


def render(gname, params, binds, result, src, relfile):
    src = " ".join(src.split()).replace("*)", "* )").replace("(*", "( *")
    lines = ["(* %s: %s *)" % (relfile, src)]
    ps = " ".join(params)
    sig = "(%s : Z)" % ps if params else ""
    lines.append("Definition %s %s :=" % (gname, sig))
    for (p, t, o) in binds:
        if t is not None:
            lines.append("  let %s := %s in" % (p, t))
    lines.append("  %s." % result)
    # fits: obligations evaluated at the point where they arise (variables may be shadowed later)
    lines.append("Definition %s_fits %s : bool :=" % (gname, sig))
    depth = 0
    for (p, t, o) in binds:
        if o:
            lines.append("  " + render_obl(o) + " &&")
        if t is not None:
            lines.append("  (let %s := %s in" % (p, t))
            depth += 1
    lines.append("  true" + ")" * depth + ".")
    return "\n".join(lines)


# ------------------------------------------------------------------------------------------
# committed hand-written twins (used only when the translator reports FALLBACK for a piece)
TWINS = {
    "getJulianDayNumber": """Definition getJulianDayNumber (year month day : Z) :=
  let a := Z.quot (14 - month) 12 in
  let y := year + 4800 - a in
  let m := month + 12 * a - 3 in
  day + Z.quot (153 * m + 2) 5 + y * 365 + Z.quot y 4 - Z.quot y 100 + Z.quot y 400 - 32045.
Definition getJulianDayNumber_fits (year month day : Z) : bool := true.""",
    "getYearMonthDay": """Definition getYearMonthDay (julianDayNumber : Z) :=
  let a := julianDayNumber + 32044 in
  let b := Z.quot (4 * a + 3) 146097 in
  let c := a - Z.quot (b * 146097) 4 in
  let d := Z.quot (4 * c + 3) 1461 in
  let e := c - Z.quot (1461 * d) 4 in
  let m := Z.quot (5 * e + 2) 153 in
  (b * 100 + d - 4800 + Z.quot m 10, m + 3 - 12 * Z.quot m 10, e - Z.quot (153 * m + 2) 5 + 1).
Definition getYearMonthDay_fits (julianDayNumber : Z) : bool := true.""",
    "weekDay": """Definition weekDay (julianDayNumber_ : Z) := Z.rem (julianDayNumber_ + 1) 7.
Definition weekDay_fits (julianDayNumber_ : Z) : bool := true.""",
    "Date_kJulianDayOf1970_01_01": "Definition Date_kJulianDayOf1970_01_01 := getJulianDayNumber 1970 1 1.",
    "fillHMS": """Definition fillHMS (seconds : Z) :=
  let minutes := Z.quot seconds 60 in
  (Z.quot minutes 60, Z.rem minutes 60, Z.rem seconds 60).
Definition fillHMS_fits (seconds : Z) : bool := true.""",
    "BreakTime": """Definition BreakTime (t : Z) :=
  let seconds := Z.rem t kSecondsPerDay in
  let days := Z.quot t kSecondsPerDay in
  let '(seconds, days) := (if Z.ltb seconds 0 then (seconds + kSecondsPerDay, days - 1) else (seconds, days)) in
  let '(dt_hour, dt_minute, dt_second) := fillHMS (wrap_u32 seconds) in
  let '(y, m, d) := getYearMonthDay (days + Date_kJulianDayOf1970_01_01) in
  (y, m, d, dt_hour, dt_minute, dt_second).
Definition BreakTime_fits (t : Z) : bool := true.""",
    "fromUtcTime": """Definition fromUtcTime (dt_year dt_month dt_day dt_hour dt_minute dt_second : Z) :=
  let secondsInDay := dt_hour * 3600 + dt_minute * 60 + dt_second in
  let days := getJulianDayNumber dt_year dt_month dt_day - Date_kJulianDayOf1970_01_01 in
  days * kSecondsPerDay + secondsInDay.
Definition fromUtcTime_fits (dt_year dt_month dt_day dt_hour dt_minute dt_second : Z) : bool := true.""",
}

PRELUDE = """From Coq Require Import ZArith Bool.
Local Open Scope Z_scope.
Local Open Scope bool_scope.

(* machine ranges (two's complement int / long, unsigned int) *)
Definition fits32 (x : Z) : bool := (-2147483648 <=? x) && (x <=? 2147483647).
Definition fits64 (x : Z) : bool := (-9223372036854775808 <=? x) && (x <=? 9223372036854775807).
Definition wrap_u32 (x : Z) : Z := x mod 4294967296.
"""


def main():
    out = ["(* GENERATED by lib/gen_C20.py from the current muduo sources (VERIF_REPO) -- do not edit *)", PRELUDE]
    fallbacks = []
    globals_ = {}
    funcs = {}

    def const(gname, relfile, cname, default):
        try:
            v, src = cxxast.var_const(relfile, cname)
            src = " ".join(src.split())
            out.append("(* %s: %s *)\nDefinition %s : Z := (%d).\n" % (relfile, src, gname, v))
        except Exception as e:  # noqa
            fallbacks.append("%s: %s (twin value %d)" % (gname, e, default))
            out.append("(* FALLBACK %s *)\nDefinition %s : Z := (%d).\n" % (gname, gname, default))
        globals_[cname] = gname

    const("kDaysPerWeek", "muduo/base/Date.h", "kDaysPerWeek", 7)
    const("kSecondsPerDay", "muduo/base/TimeZone.cc", "kSecondsPerDay", 86400)
    const("kMicroSecondsPerSecond", "muduo/base/Timestamp.h", "kMicroSecondsPerSecond", 1000000)

    def func(gname, relfile, qualname, out_param=None, this_fields=()):
        try:
            fn = cxxast.function_decl(relfile, qualname)
            ctx = Ctx(globals_, funcs)
            tr = Tr(ctx)
            params, binds, result = tr.function(fn, gname, out_param)
            if this_fields:
                params = [ident(f) for f in this_fields] + params
            txt = render(gname, params, binds, result, cxxast.src_text(fn, relfile), relfile)
            out.append(txt + "\n")
            return getattr(tr, "out_fields", None)
        except Exception as e:  # noqa
            fallbacks.append("%s: %s" % (gname, e))
            out.append("(* FALLBACK %s: %s *)\n%s\n" % (gname, str(e).replace("*)", ""), TWINS[gname]))
            return None

    func("getJulianDayNumber", "muduo/base/Date.cc", "muduo::detail::getJulianDayNumber")
    funcs["getJulianDayNumber"] = ("getJulianDayNumber", None)
    func("getYearMonthDay", "muduo/base/Date.cc", "muduo::detail::getYearMonthDay")
    func("weekDay", "muduo/base/Date.h", "muduo::Date::weekDay", this_fields=("julianDayNumber_",))

    # const int Date::kJulianDayOf1970_01_01 = detail::getJulianDayNumber(1970, 1, 1);
    try:
        val = None
        for d in cxxast.dump("muduo/base/Date.cc", "kJulianDayOf1970_01_01"):
            for v in cxxast.find(d, "VarDecl", "kJulianDayOf1970_01_01"):
                init = [c for c in kids(v)]
                if init:
                    ctx = Ctx(globals_, funcs)
                    tr = Tr(ctx)
                    tr.locals = set()
                    val = (tr.expr(init[0]), cxxast.src_text(v))
        if val is None:
            raise Untranslatable("no initialiser found")
        out.append("(* muduo/base/Date.cc: %s *)\nDefinition Date_kJulianDayOf1970_01_01 := %s.\n" % (" ".join(val[1].split()), val[0]))
    except Exception as e:  # noqa
        fallbacks.append("Date_kJulianDayOf1970_01_01: %s" % e)
        out.append("(* FALLBACK *)\n" + TWINS["Date_kJulianDayOf1970_01_01"] + "\n")
    globals_["kJulianDayOf1970_01_01"] = "Date_kJulianDayOf1970_01_01"

    fields = func("fillHMS", "muduo/base/TimeZone.cc", "muduo::detail::fillHMS", out_param="dt")
    hms = ["hour", "minute", "second"]
    if fields is not None and fields != hms:
        # shape changed: the callers below would bind the wrong fields
        fallbacks.append("fillHMS: assigns fields %s, expected %s" % (fields, hms))
        out[-1] = "(* FALLBACK fillHMS: unexpected out fields *)\n" + TWINS["fillHMS"] + "\n"
    funcs["fillHMS"] = ("fillHMS", hms)
    func("BreakTime", "muduo/base/TimeZone.cc", "muduo::detail::BreakTime")
    func("fromUtcTime", "muduo/base/TimeZone.cc", "muduo::TimeZone::fromUtcTime")

    txt = "\n".join(out) + "\n"
    path = os.path.join(cxxast.ROOT, "coq/Gen_C20.v")
    old = open(path).read() if os.path.exists(path) else None
    if old != txt:
        open(path, "w").write(txt)
    for f in fallbacks:
        print("FALLBACK", f)
    return 0


# ==========================================================================================
# second output: coq/Gen_C20Net.v -- byte-order helpers (muduo/net/Endian.h) and the places of
# SocketsOps.cc / InetAddress.cc where a port or an IPv4 address changes byte order or a text
# form is assembled.  Kept apart from Gen_C20.v so that the calendar sweeps (which depend on
# Gen_C20.vo) are not re-run when only the address facts change.
#
#   Endian.h        hostToNetwork{16,32,64}, networkToHost{16,32,64}: the returned expression
#                   (after macro expansion glibc's htobeN/beNtoh are __bswap_N or __uintN_identity)
#   SocketsOps.cc   toIpPort: the initialiser of `port` in the AF_INET6 branch and after it, the
#                   snprintf formats, the '[' stored first, the family constant tested;
#                   toIp: the families tested; fromIpPort (both overloads): the value stored in
#                   sin_port / sin6_port, the family stored, the family handed to inet_pton
#   InetAddress.cc  InetAddress(port, loopbackOnly, ipv6): the values stored in sin_port,
#                   sin6_port, sin_addr.s_addr and the families; InetAddress(ip, port, ipv6): the
#                   character searched by strchr; InetAddress::port(): the returned expression
#
# Unsigned values only: an integral cast to a narrower unsigned type is `mod 2^width`.

UWIDTH = {"uint16_t": 16, "__uint16_t": 16, "unsigned short": 16, "in_port_t": 16,
          "uint32_t": 32, "__uint32_t": 32, "unsigned int": 32, "in_addr_t": 32,
          "uint64_t": 64, "__uint64_t": 64, "unsigned long": 64}

NET_PRELUDE = """From Coq Require Import ZArith Bool List.
Import ListNotations.
Local Open Scope Z_scope.

(* unsigned machine words *)
Definition wrap_u (w : Z) (x : Z) : Z := x mod 2 ^ w.
(* glibc <bits/byteswap.h>: __bswap_16/32/64 reverse the bytes of a 16/32/64-bit unsigned value;
   <bits/uintn-identity.h>: __uintN_identity return their argument *)
Definition bswap_16 (x : Z) : Z := (x mod 256) * 256 + (x / 256) mod 256.
Definition bswap_32 (x : Z) : Z := bswap_16 (x mod 65536) * 65536 + bswap_16 ((x / 65536) mod 65536).
Definition bswap_64 (x : Z) : Z := bswap_32 (x mod 4294967296) * 4294967296 + bswap_32 ((x / 4294967296) mod 4294967296).
Definition uint_identity (x : Z) : Z := x.
"""

NET_TWINS = {
    "Endian_hostToNetwork64": "Definition Endian_hostToNetwork64 (host64 : Z) : Z := (bswap_64 host64).",
    "Endian_hostToNetwork32": "Definition Endian_hostToNetwork32 (host32 : Z) : Z := (bswap_32 host32).",
    "Endian_hostToNetwork16": "Definition Endian_hostToNetwork16 (host16 : Z) : Z := (bswap_16 host16).",
    "Endian_networkToHost64": "Definition Endian_networkToHost64 (net64 : Z) : Z := (bswap_64 net64).",
    "Endian_networkToHost32": "Definition Endian_networkToHost32 (net32 : Z) : Z := (bswap_32 net32).",
    "Endian_networkToHost16": "Definition Endian_networkToHost16 (net16 : Z) : Z := (bswap_16 net16).",
    "SocketsOps_toIpPort_port6": "Definition SocketsOps_toIpPort_port6 (sin6_port : Z) : Z := (Endian_networkToHost16 sin6_port).",
    "SocketsOps_toIpPort_port4": "Definition SocketsOps_toIpPort_port4 (sin_port : Z) : Z := (Endian_networkToHost16 sin_port).",
    "SocketsOps_toIpPort_fmt6": "Definition SocketsOps_toIpPort_fmt6 : list Z := [93; 58; 37; 117].",
    "SocketsOps_toIpPort_fmt4": "Definition SocketsOps_toIpPort_fmt4 : list Z := [58; 37; 117].",
    "SocketsOps_toIpPort_open6": "Definition SocketsOps_toIpPort_open6 : Z := 91.",
    "SocketsOps_toIpPort_family6": "Definition SocketsOps_toIpPort_family6 : Z := 10.",
    "SocketsOps_toIp_family4": "Definition SocketsOps_toIp_family4 : Z := 2.",
    "SocketsOps_toIp_family6": "Definition SocketsOps_toIp_family6 : Z := 10.",
    "SocketsOps_fromIpPort4_sin_port": "Definition SocketsOps_fromIpPort4_sin_port (port : Z) : Z := (Endian_hostToNetwork16 port).",
    "SocketsOps_fromIpPort6_sin6_port": "Definition SocketsOps_fromIpPort6_sin6_port (port : Z) : Z := (Endian_hostToNetwork16 port).",
    "SocketsOps_fromIpPort4_family": "Definition SocketsOps_fromIpPort4_family : Z := 2.",
    "SocketsOps_fromIpPort6_family": "Definition SocketsOps_fromIpPort6_family : Z := 10.",
    "SocketsOps_fromIpPort4_pton_family": "Definition SocketsOps_fromIpPort4_pton_family : Z := 2.",
    "SocketsOps_fromIpPort6_pton_family": "Definition SocketsOps_fromIpPort6_pton_family : Z := 10.",
    "InetAddress_ctor_sin_port": "Definition InetAddress_ctor_sin_port (portArg : Z) : Z := (Endian_hostToNetwork16 portArg).",
    "InetAddress_ctor_sin6_port": "Definition InetAddress_ctor_sin6_port (portArg : Z) : Z := (Endian_hostToNetwork16 portArg).",
    "InetAddress_ctor_s_addr": "Definition InetAddress_ctor_s_addr (loopbackOnly : bool) : Z := (Endian_hostToNetwork32 (if loopbackOnly then 2130706433 else 0)).",
    "InetAddress_ctor_family4": "Definition InetAddress_ctor_family4 : Z := 2.",
    "InetAddress_ctor_family6": "Definition InetAddress_ctor_family6 : Z := 10.",
    "InetAddress_ipv6_marker": "Definition InetAddress_ipv6_marker : Z := 58.",
    "InetAddress_port": "Definition InetAddress_port (portNetEndian : Z) : Z := (Endian_networkToHost16 portNetEndian).",
    "InetAddress_toIp_bufsize": "Definition InetAddress_toIp_bufsize : Z := 64.",
    "InetAddress_toIpPort_bufsize": "Definition InetAddress_toIpPort_bufsize : Z := 64.",
    "SocketsOps_toIp_need4": "Definition SocketsOps_toIp_need4 : Z := 16.",
    "SocketsOps_toIp_need6": "Definition SocketsOps_toIp_need6 : Z := 46.",
    "SocketsOps_toIpPort_v6_off": "Definition SocketsOps_toIpPort_v6_off : Z := 1.",
    "InetAddress_setScopeId_family": "Definition InetAddress_setScopeId_family : Z := 10.",
}


def uw(qt):
    qt = qt.replace("const ", "").strip()
    return UWIDTH.get(qt)


class NetTr:
    """unsigned integer expressions: parameters / named fields, calls to the byte-order helpers,
    glibc's __bswap_N / __uintN_identity, integer literals, ?: on a bool parameter, named constants"""

    def __init__(self, vars_, consts=None, boolvars=()):
        self.vars = vars_            # C++ name (variable, field or accessor) -> Gallina variable
        self.consts = consts or {}   # C++ constant name -> int
        self.boolvars = set(boolvars)

    def expr(self, n):
        k = n.get("kind")
        qt = n.get("type", {}).get("qualType", "")
        ks = kids(n)
        if k in ("ParenExpr", "ExprWithCleanups", "MaterializeTemporaryExpr", "ConstantExpr"):
            return self.expr(ks[0])
        if k in ("ImplicitCastExpr", "CStyleCastExpr", "CXXStaticCastExpr", "CXXFunctionalCastExpr"):
            inner = self.expr(ks[0])
            ck = n.get("castKind")
            if ck in ("LValueToRValue", "NoOp"):
                return inner
            if ck == "IntegralCast":
                sw, dw = uw(ks[0].get("type", {}).get("qualType", "")), uw(qt)
                lit = cxxast.strip(ks[0])
                if dw and lit.get("kind") == "IntegerLiteral" and 0 <= int(lit["value"]) < 2 ** dw:
                    return inner
                if sw and dw:
                    return inner if dw >= sw else "(wrap_u %d %s)" % (dw, inner)
                raise Untranslatable("integral cast %s -> %s" % (ks[0].get("type", {}).get("qualType"), qt))
            raise Untranslatable("cast kind %s" % ck)
        if k == "IntegerLiteral":
            return str(int(n["value"]))
        if k == "DeclRefExpr":
            nm = n.get("referencedDecl", {}).get("name")
            if nm in self.vars:
                return self.vars[nm]
            if nm in self.consts:
                return str(self.consts[nm])
            raise Untranslatable("unknown name %s" % nm)
        if k == "MemberExpr":
            if n.get("name") in self.vars:
                return self.vars[n["name"]]
            raise Untranslatable("member %s" % n.get("name"))
        if k == "CXXMemberCallExpr":
            me = ks[0]
            if me.get("name") in self.vars and len(ks) == 1:
                return self.vars[me["name"]]
            raise Untranslatable("member call %s" % me.get("name"))
        if k == "ConditionalOperator":
            c = cxxast.strip(ks[0])
            cn = c.get("referencedDecl", {}).get("name")
            if c.get("kind") == "DeclRefExpr" and cn in self.boolvars:
                return "(if %s then %s else %s)" % (cn, self.expr(ks[1]), self.expr(ks[2]))
            raise Untranslatable("condition of ?:")
        if k == "CallExpr":
            callee = cxxast.strip(ks[0])
            nm = callee.get("referencedDecl", {}).get("name")
            args = [self.expr(x) for x in ks[1:]]
            m = re.match(r"__bswap_(16|32|64)$", nm or "")
            if m and len(args) == 1:
                return "(bswap_%s %s)" % (m.group(1), args[0])
            if re.match(r"__uint(16|32|64)_identity$", nm or "") and len(args) == 1:
                return "(uint_identity %s)" % args[0]
            if nm in ("hostToNetwork16", "hostToNetwork32", "hostToNetwork64",
                      "networkToHost16", "networkToHost32", "networkToHost64") and len(args) == 1:
                return "(Endian_%s %s)" % (nm, args[0])
            raise Untranslatable("call to %s" % nm)
        raise Untranslatable("expression kind %s" % k)


def fn_candidates(relfile, qualname, kinds=("FunctionDecl", "CXXMethodDecl", "CXXConstructorDecl")):
    short = qualname.split("::")[-1]
    out = []
    for d in cxxast.dump(relfile, qualname):
        for n in cxxast.walk(d):
            if n.get("kind") in kinds and n.get("name") == short and \
               any(isinstance(c, dict) and c.get("kind") == "CompoundStmt" for c in n.get("inner", [])):
                out.append(n)
    return out


def stmts_of(n):
    return kids(n) if n.get("kind") == "CompoundStmt" else [n]


def assigned(stmts, field):
    """RHS nodes of `x.field = e` / `p->field = e` among the statements (not descending into nested ifs)"""
    out = []
    for s in stmts:
        if s.get("kind") == "BinaryOperator" and s.get("opcode") == "=":
            l, r = kids(s)
            if l.get("kind") == "MemberExpr" and l.get("name") == field:
                out.append(r)
    return out


def main_net():
    out = ["(* GENERATED by lib/gen_C20.py (main_net) from the current muduo sources (VERIF_REPO) -- do not edit *)", NET_PRELUDE]
    fallbacks = []

    def emit(name, thunk):
        try:
            txt, src = thunk()
            src = " ".join(src.split()).replace("*)", "* )").replace("(*", "( *")
            out.append("(* %s *)\n%s\n" % (src, txt))
        except Exception as e:  # noqa
            fallbacks.append("%s: %s" % (name, e))
            out.append("(* FALLBACK %s: %s *)\n%s\n" % (name, str(e).replace("*)", ""), NET_TWINS[name]))

    def one(xs, what):
        if len(xs) != 1:
            raise Untranslatable("%s: %d matches" % (what, len(xs)))
        return xs[0]

    # ---- Endian.h
    for f in ("hostToNetwork64", "hostToNetwork32", "hostToNetwork16", "networkToHost64", "networkToHost32", "networkToHost16"):
        def th(f=f):
            fn = cxxast.function_decl("muduo/net/Endian.h", "muduo::net::sockets::" + f)
            ps = [p for p in kids(fn) if p.get("kind") == "ParmVarDecl"]
            p = one(ps, "parameters")
            w = uw(p.get("type", {}).get("qualType", ""))
            rw = uw(fn.get("type", {}).get("qualType", "").split("(")[0])
            if not w or not rw:
                raise Untranslatable("parameter / result type")
            st = kids(cxxast.body(fn))
            r = one([s for s in st if s.get("kind") == "ReturnStmt"], "return")
            if len(st) != 1:
                raise Untranslatable("more than a return statement")
            e = kids(r)[0]
            t = NetTr({p["name"]: ident(p["name"])}).expr(e)
            ew = uw(e.get("type", {}).get("qualType", ""))
            if ew and ew > rw:
                t = "(wrap_u %d %s)" % (rw, t)
            return ("Definition Endian_%s (%s : Z) : Z := %s." % (f, ident(p["name"]), t),
                    "muduo/net/Endian.h: " + cxxast.src_text(fn, "muduo/net/Endian.h"))
        emit("Endian_" + f, th)

    # ---- SocketsOps.cc toIpPort
    SO = "muduo/net/SocketsOps.cc"
    state = {}

    def toipport():
        if "fn" not in state:
            fn = one(fn_candidates(SO, "muduo::net::sockets::toIpPort"), "toIpPort")
            top = kids(cxxast.body(fn))
            ifs = one([s for s in top if s.get("kind") == "IfStmt"], "if statements of toIpPort")
            cond, then = kids(ifs)[0], kids(ifs)[1]
            state.update(fn=fn, top=top, cond=cond, then=stmts_of(then))
        return state

    def port_init(stmts, field, gname):
        vs = []
        for s in stmts:
            if s.get("kind") == "DeclStmt":
                vs += [v for v in kids(s) if v.get("kind") == "VarDecl" and v.get("name") == "port"]
        v = one(vs, "declaration of port")
        t = NetTr({field: field}).expr(kids(v)[0])
        if uw(v.get("type", {}).get("qualType", "")) != 16:
            raise Untranslatable("port is not uint16_t")
        return "Definition %s (%s : Z) : Z := %s." % (gname, field, t), SO + ": " + cxxast.src_text(v, SO)

    def fmt_of(stmts, gname):
        calls = [s for s in stmts if s.get("kind") == "CallExpr" and
                 cxxast.strip(kids(s)[0]).get("referencedDecl", {}).get("name") == "snprintf"]
        c = one(calls, "snprintf calls")
        a = kids(c)
        if len(a) != 5:
            raise Untranslatable("snprintf with %d arguments" % (len(a) - 1))
        lit = cxxast.strip(a[3])
        if lit.get("kind") != "StringLiteral":
            raise Untranslatable("format is not a literal")
        arg = cxxast.strip(a[4])
        if arg.get("referencedDecl", {}).get("name") != "port":
            raise Untranslatable("snprintf argument is not port")
        val = json_string(lit["value"])
        return ("Definition %s : list Z := [%s]." % (gname, "; ".join(str(ord(ch)) for ch in val)),
                SO + ": " + cxxast.src_text(c, SO))

    emit("SocketsOps_toIpPort_port6", lambda: port_init(toipport()["then"], "sin6_port", "SocketsOps_toIpPort_port6"))
    emit("SocketsOps_toIpPort_port4", lambda: port_init(toipport()["top"], "sin_port", "SocketsOps_toIpPort_port4"))
    emit("SocketsOps_toIpPort_fmt6", lambda: fmt_of(toipport()["then"], "SocketsOps_toIpPort_fmt6"))
    emit("SocketsOps_toIpPort_fmt4", lambda: fmt_of(toipport()["top"], "SocketsOps_toIpPort_fmt4"))

    def open6():
        for s in toipport()["then"]:
            if s.get("kind") == "BinaryOperator" and s.get("opcode") == "=":
                l, r = kids(s)
                if l.get("kind") == "ArraySubscriptExpr":
                    idx = cxxast.const_eval(kids(l)[1])
                    if idx == 0:
                        return ("Definition SocketsOps_toIpPort_open6 : Z := %d." % cxxast.const_eval(r), SO + ": " + cxxast.src_text(s, SO))
        raise Untranslatable("no buf[0] = <char> in the AF_INET6 branch")
    emit("SocketsOps_toIpPort_open6", open6)

    def family_test(cond):
        c = cxxast.strip(cond)
        if c.get("kind") == "BinaryOperator" and c.get("opcode") == "==":
            l, r = kids(c)
            if cxxast.strip(l).get("kind") == "MemberExpr" and cxxast.strip(l).get("name") == "sa_family":
                return cxxast.const_eval(r)
        raise Untranslatable("family test")
    emit("SocketsOps_toIpPort_family6", lambda: ("Definition SocketsOps_toIpPort_family6 : Z := %d." % family_test(toipport()["cond"]),
                                                  SO + ": if (" + cxxast.src_text(toipport()["cond"], SO) + ")"))

    def toip(which):
        fn = one(fn_candidates(SO, "muduo::net::sockets::toIp"), "toIp")
        top = kids(cxxast.body(fn))
        i1 = one([s for s in top if s.get("kind") == "IfStmt"], "if statements of toIp")
        ks = kids(i1)
        fams = [(family_test(ks[0]), ks[1])]
        if len(ks) == 3 and ks[2].get("kind") == "IfStmt":
            k2 = kids(ks[2])
            fams.append((family_test(k2[0]), k2[1]))
        # which branch calls inet_ntop with which family / field
        for (fam, blk) in fams:
            for c in cxxast.find(blk, "CallExpr"):
                if cxxast.strip(kids(c)[0]).get("referencedDecl", {}).get("name") == "inet_ntop":
                    af = cxxast.const_eval(kids(c)[1])
                    fld = [m.get("name") for m in cxxast.find(kids(c)[2], "MemberExpr")]
                    want = ("sin_addr", 2) if which == 4 else ("sin6_addr", 10)
                    if af == want[1] and want[0] in fld and fam == af:
                        return "Definition SocketsOps_toIp_family%d : Z := %d." % (which, fam), SO + ": " + cxxast.src_text(c, SO)
        raise Untranslatable("no branch printing %s with its own family" % ("sin_addr" if which == 4 else "sin6_addr"))
    emit("SocketsOps_toIp_family4", lambda: toip(4))
    emit("SocketsOps_toIp_family6", lambda: toip(6))

    def fromipport(which):
        want = "sockaddr_in6 *" if which == 6 else "sockaddr_in *"
        fns = [f for f in fn_candidates(SO, "muduo::net::sockets::fromIpPort")
               if f.get("type", {}).get("qualType", "").rstrip(")").endswith(want)]
        fn = one(fns, "fromIpPort overload")
        return fn, kids(cxxast.body(fn))

    def from_port(which):
        fn, st = fromipport(which)
        fld = "sin6_port" if which == 6 else "sin_port"
        r = one(assigned(st, fld), "assignments to " + fld)
        t = NetTr({"port": "port"}).expr(r)
        g = "SocketsOps_fromIpPort%d_%s" % (which, fld)
        return "Definition %s (port : Z) : Z := %s." % (g, t), SO + ": " + fld + " = " + cxxast.src_text(r, SO)

    def from_family(which):
        fn, st = fromipport(which)
        fld = "sin6_family" if which == 6 else "sin_family"
        r = one(assigned(st, fld), "assignments to " + fld)
        return "Definition SocketsOps_fromIpPort%d_family : Z := %d." % (which, cxxast.const_eval(r)), SO + ": " + fld + " = " + cxxast.src_text(r, SO)

    def from_pton(which):
        fn, st = fromipport(which)
        cs = [c for s in st for c in cxxast.find(s, "CallExpr")
              if cxxast.strip(kids(c)[0]).get("referencedDecl", {}).get("name") == "inet_pton"]
        c = one(cs, "inet_pton calls")
        fld = [m.get("name") for m in cxxast.find(kids(c)[3], "MemberExpr")]
        if ("sin6_addr" if which == 6 else "sin_addr") not in fld:
            raise Untranslatable("inet_pton destination")
        return "Definition SocketsOps_fromIpPort%d_pton_family : Z := %d." % (which, cxxast.const_eval(kids(c)[1])), SO + ": " + cxxast.src_text(c, SO)

    emit("SocketsOps_fromIpPort4_sin_port", lambda: from_port(4))
    emit("SocketsOps_fromIpPort6_sin6_port", lambda: from_port(6))
    emit("SocketsOps_fromIpPort4_family", lambda: from_family(4))
    emit("SocketsOps_fromIpPort6_family", lambda: from_family(6))
    emit("SocketsOps_fromIpPort4_pton_family", lambda: from_pton(4))
    emit("SocketsOps_fromIpPort6_pton_family", lambda: from_pton(6))

    # ---- InetAddress.cc
    IA = "muduo/net/InetAddress.cc"

    def ctor(sig):
        cs = [c for c in fn_candidates(IA, "muduo::net::InetAddress::InetAddress") if c.get("type", {}).get("qualType", "") == sig]
        c = one(cs, "constructor " + sig)
        top = kids(cxxast.body(c))
        ifs = one([s for s in top if s.get("kind") == "IfStmt"], "if statements of the constructor")
        ks = kids(ifs)
        if len(ks) != 3:
            raise Untranslatable("if without else")
        return c, ks[0], stmts_of(ks[1]), stmts_of(ks[2])

    def ctor_port():
        c, cond, then, els = ctor("void (uint16_t, bool, bool)")
        if cxxast.strip(cond).get("referencedDecl", {}).get("name") != "ipv6":
            raise Untranslatable("constructor condition is not ipv6")
        return c, then, els

    def ctor_fact(branch, fld, gname):
        c, then, els = ctor_port()
        st = then if branch == 6 else els
        r = one(assigned(st, fld), "assignments to " + fld)
        t = NetTr({"portArg": "portArg"}).expr(r)
        return "Definition %s (portArg : Z) : Z := %s." % (gname, t), IA + ": " + fld + " = " + cxxast.src_text(r, IA)

    def ctor_family(branch, fld, gname):
        c, then, els = ctor_port()
        r = one(assigned(then if branch == 6 else els, fld), "assignments to " + fld)
        return "Definition %s : Z := %d." % (gname, cxxast.const_eval(r)), IA + ": " + fld + " = " + cxxast.src_text(r, IA)

    def ctor_s_addr():
        c, then, els = ctor_port()
        consts = {}
        for nm in ("kInaddrAny", "kInaddrLoopback"):
            consts[nm] = cxxast.var_const(IA, nm, {"INADDR_ANY": 0, "INADDR_LOOPBACK": 0x7f000001})[0] % 2 ** 32
        r = one(assigned(els, "s_addr"), "assignments to s_addr")
        ipdecl = None
        for s in els:
            if s.get("kind") == "DeclStmt":
                for v in kids(s):
                    if v.get("kind") == "VarDecl" and v.get("name") == "ip":
                        ipdecl = v
        if ipdecl is None:
            raise Untranslatable("no local ip")
        ipt = NetTr({}, consts, boolvars=("loopbackOnly",)).expr(kids(ipdecl)[0])
        t = NetTr({"ip": ipt}, consts).expr(r)
        return ("Definition InetAddress_ctor_s_addr (loopbackOnly : bool) : Z := %s." % t,
                IA + ": " + cxxast.src_text(ipdecl, IA) + "; s_addr = " + cxxast.src_text(r, IA) +
                "  [kInaddrAny = %d, kInaddrLoopback = %d]" % (consts["kInaddrAny"], consts["kInaddrLoopback"]))

    emit("InetAddress_ctor_sin_port", lambda: ctor_fact(4, "sin_port", "InetAddress_ctor_sin_port"))
    emit("InetAddress_ctor_sin6_port", lambda: ctor_fact(6, "sin6_port", "InetAddress_ctor_sin6_port"))
    emit("InetAddress_ctor_s_addr", ctor_s_addr)
    emit("InetAddress_ctor_family4", lambda: ctor_family(4, "sin_family", "InetAddress_ctor_family4"))
    emit("InetAddress_ctor_family6", lambda: ctor_family(6, "sin6_family", "InetAddress_ctor_family6"))


    # ---- buffers: InetAddress::toIp / toIpPort scratch arrays, the size checks of sockets::toIp,
    #      the offset sockets::toIpPort applies for the '[' ; InetAddress::setScopeId
    def bufsize(method, gname):
        fn = one(fn_candidates(IA, "muduo::net::InetAddress::" + method), method)
        vd = one(list(cxxast.find(cxxast.body(fn), "VarDecl", "buf")), "declarations of buf")
        mm = re.match(r"char\[(\d+)\]$", vd.get("type", {}).get("qualType", ""))
        if not mm:
            raise Untranslatable("buf is not a char array")
        n, src = int(mm.group(1)), cxxast.src_text(vd, IA)
        calls = [c for c in cxxast.find(cxxast.body(fn), "CallExpr") if cxxast.strip(kids(c)[0]).get("referencedDecl", {}).get("name") == method]
        c = one(calls, "call of sockets::" + method)
        a = kids(c)
        if cxxast.strip(a[1]).get("referencedDecl", {}).get("name") != "buf":
            raise Untranslatable("first argument is not buf")
        sz = cxxast.strip(a[2])
        if sz.get("kind") != "UnaryExprOrTypeTraitExpr" or sz.get("name") != "sizeof" or \
           [x.get("referencedDecl", {}).get("name") for x in cxxast.find(sz, "DeclRefExpr")] != ["buf"]:
            raise Untranslatable("size argument is not sizeof buf")
        return "Definition %s : Z := %d." % (gname, n), IA + ": " + src + "; " + cxxast.src_text(c, IA)
    emit("InetAddress_toIp_bufsize", lambda: bufsize("toIp", "InetAddress_toIp_bufsize"))
    emit("InetAddress_toIpPort_bufsize", lambda: bufsize("toIpPort", "InetAddress_toIpPort_bufsize"))

    def assert_conds(n):
        """conditions of the assert(...) statements directly inside the statement list"""
        out_ = []
        for s_ in stmts_of(n):
            if any(x.get("kind") == "DeclRefExpr" and x.get("referencedDecl", {}).get("name") == "__assert_fail" for x in cxxast.walk(s_)) \
               and s_.get("kind") in ("ParenExpr", "ExprWithCleanups", "ConditionalOperator"):
                co = [x for x in cxxast.walk(s_) if x.get("kind") == "ConditionalOperator"]
                out_.append(cxxast.strip(kids(co[0])[0]))
        return out_

    def toip_need(which):
        fn = one(fn_candidates(SO, "muduo::net::sockets::toIp"), "toIp")
        i1 = one([s_ for s_ in kids(cxxast.body(fn)) if s_.get("kind") == "IfStmt"], "if statements of toIp")
        ks = kids(i1)
        branches = [(family_test(ks[0]), ks[1])]
        if len(ks) == 3 and ks[2].get("kind") == "IfStmt":
            k2 = kids(ks[2])
            branches.append((family_test(k2[0]), k2[1]))
        want = 2 if which == 4 else 10
        for fam, blk_ in branches:
            if fam == want:
                cs = assert_conds(blk_)
                c = one(cs, "assert in the branch")
                if c.get("kind") == "BinaryOperator" and c.get("opcode") == ">=" and \
                   cxxast.strip(kids(c)[0]).get("referencedDecl", {}).get("name") == "size":
                    return "Definition SocketsOps_toIp_need%d : Z := %d." % (which, cxxast.const_eval(kids(c)[1])), SO + ": assert(size >= ...) before inet_ntop"
        raise Untranslatable("no size assertion for family %d" % want)
    emit("SocketsOps_toIp_need4", lambda: toip_need(4))
    emit("SocketsOps_toIp_need6", lambda: toip_need(6))

    def v6_off():
        calls = [c for s_ in toipport()["then"] for c in cxxast.find(s_, "CallExpr")
                 if cxxast.strip(kids(c)[0]).get("referencedDecl", {}).get("name") == "toIp"]
        c = one(calls, "toIp call in the AF_INET6 branch")
        a = [cxxast.strip(x) for x in kids(c)[1:]]
        if a[0].get("kind") != "BinaryOperator" or a[0].get("opcode") != "+" or a[1].get("kind") != "BinaryOperator" or a[1].get("opcode") != "-":
            raise Untranslatable("arguments are not buf+k, size-k")
        if cxxast.strip(kids(a[0])[0]).get("referencedDecl", {}).get("name") != "buf" or cxxast.strip(kids(a[1])[0]).get("referencedDecl", {}).get("name") != "size":
            raise Untranslatable("arguments are not buf+k, size-k")
        k1, k2 = cxxast.const_eval(kids(a[0])[1]), cxxast.const_eval(kids(a[1])[1])
        if k1 != k2:
            raise Untranslatable("pointer advanced by %d but size reduced by %d" % (k1, k2))
        # the room checks `assert(size > end)` of both branches
        for nm, blk_ in (("AF_INET6 branch", toipport()["then"]), ("AF_INET branch", toipport()["top"])):
            ok = False
            for s_ in blk_:
                for c2 in assert_conds(s_) if s_.get("kind") not in ("IfStmt",) else []:
                    if c2.get("kind") == "BinaryOperator" and c2.get("opcode") == ">" and \
                       [cxxast.strip(x).get("referencedDecl", {}).get("name") for x in kids(c2)] == ["size", "end"]:
                        ok = True
            if not ok:
                raise Untranslatable("no assert(size > end) in the " + nm)
        return "Definition SocketsOps_toIpPort_v6_off : Z := %d." % k1, SO + ": " + cxxast.src_text(c, SO) + "; assert(size > end) in both branches"
    emit("SocketsOps_toIpPort_v6_off", v6_off)

    def scope():
        fn = one(fn_candidates(IA, "muduo::net::InetAddress::setScopeId"), "setScopeId")
        st = kids(cxxast.body(fn))
        i1 = one(st, "statements of setScopeId")
        if i1.get("kind") != "IfStmt" or len(kids(i1)) != 2:
            raise Untranslatable("shape of setScopeId")
        c = cxxast.strip(kids(i1)[0])
        if c.get("kind") != "BinaryOperator" or c.get("opcode") != "==" or not [m for m in cxxast.find(kids(c)[0], "MemberExpr") if m.get("name") == "family"]:
            raise Untranslatable("condition is not family() == F")
        r = one(assigned(stmts_of(kids(i1)[1]), "sin6_scope_id"), "assignments to sin6_scope_id")
        if cxxast.strip(r).get("referencedDecl", {}).get("name") != "scope_id":
            raise Untranslatable("stored value is not the argument")
        return "Definition InetAddress_setScopeId_family : Z := %d." % cxxast.const_eval(kids(c)[1]), IA + ": " + cxxast.src_text(fn, IA)
    emit("InetAddress_setScopeId_family", scope)

    def marker():
        c, cond, then, els = ctor("void (muduo::StringArg, uint16_t, bool)")
        cn = cxxast.strip(cond)
        if cn.get("kind") != "BinaryOperator" or cn.get("opcode") != "||":
            raise Untranslatable("condition is not ipv6 || strchr(...)")
        l, r = kids(cn)
        if cxxast.strip(l).get("referencedDecl", {}).get("name") != "ipv6":
            raise Untranslatable("left operand is not ipv6")
        call = cxxast.strip(r)
        while call.get("kind") == "ImplicitCastExpr":
            call = kids(call)[0]
        if call.get("kind") != "CallExpr" or cxxast.strip(kids(call)[0]).get("referencedDecl", {}).get("name") != "strchr":
            raise Untranslatable("right operand is not strchr(...)")
        # the branch taken must be the sockaddr_in6 one
        f6 = [x for s in then for x in cxxast.find(s, "MemberExpr") if x.get("name") == "addr6_"]
        f4 = [x for s in els for x in cxxast.find(s, "MemberExpr") if x.get("name") == "addr_"]
        if not f6 or not f4:
            raise Untranslatable("branches do not fill addr6_ / addr_")
        return "Definition InetAddress_ipv6_marker : Z := %d." % cxxast.const_eval(kids(call)[2]), IA + ": if (" + cxxast.src_text(cond, IA) + ")"
    emit("InetAddress_ipv6_marker", marker)

    def port_fn():
        fn = one(fn_candidates(IA, "muduo::net::InetAddress::port"), "InetAddress::port")
        st = kids(cxxast.body(fn))
        r = one([s for s in st if s.get("kind") == "ReturnStmt"], "return")
        if len(st) != 1:
            raise Untranslatable("more than a return statement")
        t = NetTr({"portNetEndian": "portNetEndian"}).expr(kids(r)[0])
        return "Definition InetAddress_port (portNetEndian : Z) : Z := %s." % t, IA + ": " + cxxast.src_text(fn, IA)
    emit("InetAddress_port", port_fn)

    txt = "\n".join(out) + "\n"
    path = os.path.join(cxxast.ROOT, "coq/Gen_C20Net.v")
    old = open(path).read() if os.path.exists(path) else None
    if old != txt:
        open(path, "w").write(txt)
    for f in fallbacks:
        print("FALLBACK", f)
    return 0


def json_string(v):
    """clang prints a StringLiteral's value as a quoted C string"""
    if len(v) >= 2 and v[0] == '"' and v[-1] == '"':
        body = v[1:-1]
        if "\\" in body:
            raise Untranslatable("escape in format string")
        return body
    raise Untranslatable("string literal value")


# ==========================================================================================
# third output: coq/Gen_C20Tz.v -- TimeZone::Data::findLocalTime (both overloads), translated by
# symbolic execution of the statements of the C++ (clang JSON AST):
#   * an iterator into `transitions` is its index (nat), `transitions.begin()` = 0, `.end()` = n,
#     `--it` / `it - k` subtract, `*it` / `it->` select the element at that index;
#   * a Transition value is either the element at an index or a locally constructed one (the sentry:
#     field values taken from the constructor's initialiser list); a `const LocalTime*` is the index of
#     the record it points to (`&localtimes[k]` = k, `&localtimes.front()` = 0), and the function's
#     result is that index;
#   * `std::upper_bound(begin, end, sentry, Cmp())` over the whole vector is `upper_bound key column`
#     (C20_Model: the libstdc++ loop), the column and the key being read off the body of Cmp::operator();
#   * every declaration / assignment binds a fresh canonical name (v1, v2, ...), so renaming a local or
#     introducing a temporary changes nothing or only adds a `let`; `if` duplicates the continuation, the
#     result is a decision tree whose leaves are the returned record indices; assert(...) is skipped.
# Anything outside these forms: FALLBACK (the hand-written twin is emitted, the obligation is reported).

TZ_PRELUDE = """From Coq Require Import List ZArith Bool Arith.
From Muduo Require Import C20_Model.
Import ListNotations.
Local Open Scope Z_scope.
Local Open Scope bool_scope.

(* int (32-bit two's complement) *)
Definition fits_int (x : Z) : bool := (-2147483648 <=? x) && (x <=? 2147483647).
"""

TZ_TWINS = {
    "findLocalTime_utc": """Definition findLocalTime_utc (tb : tzdata) (utcTime : Z) : nat := find_utc tb utcTime.""",
    "findLocalTime_local": """Definition findLocalTime_local (tb : tzdata) (lt : DateTime) (postTransition : bool) : nat :=
  find_local tb (fromUtc lt) postTransition.""",
    "addTransition_localtime": """Definition addTransition_localtime (tb : tzdata) (utcTime : Z) (localtimeIdx : nat) : Z :=
  utcTime + off_of tb localtimeIdx.""",
    "readDataBlock_reject": """Definition readDataBlock_reject (isutccnt isstdcnt leapcnt timecnt typecnt charcnt : Z) : bool :=
  (negb (leapcnt =? 0)) || ((negb (isutccnt =? 0)) && (negb (isutccnt =? typecnt))) || ((negb (isstdcnt =? 0)) && (negb (isstdcnt =? typecnt))).""",
    "readDataBlock_reserve_times": "Definition readDataBlock_reserve_times (isutccnt isstdcnt leapcnt timecnt typecnt charcnt : Z) : Z := timecnt.",
    "readDataBlock_ntimes": "Definition readDataBlock_ntimes (isutccnt isstdcnt leapcnt timecnt typecnt charcnt : Z) : Z := timecnt.",
    "readDataBlock_reserve_idx": "Definition readDataBlock_reserve_idx (isutccnt isstdcnt leapcnt timecnt typecnt charcnt : Z) : Z := timecnt.",
    "readDataBlock_nidx": "Definition readDataBlock_nidx (isutccnt isstdcnt leapcnt timecnt typecnt charcnt : Z) : Z := timecnt.",
    "readDataBlock_reserve_types": "Definition readDataBlock_reserve_types (isutccnt isstdcnt leapcnt timecnt typecnt charcnt : Z) : Z := typecnt.",
    "readDataBlock_ntypes": "Definition readDataBlock_ntypes (isutccnt isstdcnt leapcnt timecnt typecnt charcnt : Z) : Z := typecnt.",
    "readDataBlock_nadd": "Definition readDataBlock_nadd (isutccnt isstdcnt leapcnt timecnt typecnt charcnt : Z) : Z := timecnt.",
    "readDataBlock_nchars": "Definition readDataBlock_nchars (isutccnt isstdcnt leapcnt timecnt typecnt charcnt : Z) : Z := charcnt.",
    "readTimeZoneFile_magic": "Definition readTimeZoneFile_magic : list Z := [84; 90; 105; 102].\nDefinition readTimeZoneFile_head_len : Z := 4.",
    "readTimeZoneFile_version_len": "Definition readTimeZoneFile_version_len : Z := 1.\nDefinition readTimeZoneFile_reserved_len : Z := 15.",
    "readTimeZoneFile_v2": "Definition readTimeZoneFile_v2 : list Z := [50].",
    "readTimeZoneFile_skip": """Definition readTimeZoneFile_skip (isgmtcnt isstdcnt leapcnt timecnt typecnt charcnt : Z) : Z :=
  4 * timecnt + timecnt + 6 * typecnt + charcnt + 8 * leapcnt + isstdcnt + isgmtcnt.
Definition readTimeZoneFile_skip_fits (isgmtcnt isstdcnt leapcnt timecnt typecnt charcnt : Z) : bool := fits_int (6 * typecnt) && fits_int (8 * leapcnt).""",
    "readTimeZoneFile_magic2": "Definition readTimeZoneFile_magic2 : list Z := [84; 90; 105; 102].\nDefinition readTimeZoneFile_head2_len : Z := 4.\nDefinition readTimeZoneFile_skip2 : Z := 16.\nDefinition readTimeZoneFile_v2_block_v1 : bool := false.",
    "readTimeZoneFile_rewind": "Definition readTimeZoneFile_rewind : Z := (-24).\nDefinition readTimeZoneFile_v1_block_v1 : bool := true.",
}

TS = "(trans tb)"
NT = "(length (trans tb))"


class TzSym:
    def __init__(self, relfile):
        self.relfile = relfile
        self.n = 0
        self.ctor_fields = None
        self.cmp_cache = {}

    def fresh(self):
        self.n += 1
        return "v%d" % self.n

    # ---- class facts read from the AST
    def transition_ctor(self):
        """field -> position of the constructor parameter that initialises it, for Transition(t, l, idx)"""
        if self.ctor_fields is None:
            res = None
            for d in cxxast.dump(self.relfile, "muduo::TimeZone::Data::Transition"):
                for n in cxxast.walk(d):
                    if n.get("kind") == "CXXConstructorDecl":
                        ps = [p for p in kids(n) if p.get("kind") == "ParmVarDecl"]
                        inits = [c for c in kids(n) if c.get("kind") == "CXXCtorInitializer"]
                        if len(ps) == 3 and len(inits) == 3:
                            m = {}
                            for i in inits:
                                fld = (i.get("anyInit") or {}).get("name")
                                ref = cxxast.strip(kids(i)[0]).get("referencedDecl", {}).get("name")
                                pos = [k for k, p in enumerate(ps) if p.get("name") == ref]
                                if fld is None or len(pos) != 1:
                                    raise Untranslatable("Transition constructor initialiser")
                                m[fld] = pos[0]
                            res = m
            if res is None or set(res) != {"utctime", "localtime", "localtimeIdx"}:
                raise Untranslatable("Transition(int64_t, int64_t, int) not found")
            self.ctor_fields = res
        return self.ctor_fields

    def comparator_field(self, cname):
        """the field F of `return lhs.F < rhs.F;` in struct <cname>::operator()"""
        if cname not in self.cmp_cache:
            got = None
            for d in cxxast.dump(self.relfile, "muduo::TimeZone::Data::" + cname):
                for n in cxxast.walk(d):
                    if n.get("kind") == "CXXMethodDecl" and n.get("name") == "operator()":
                        ps = [p.get("name") for p in kids(n) if p.get("kind") == "ParmVarDecl"]
                        st = kids(cxxast.body(n))
                        if len(st) != 1 or st[0].get("kind") != "ReturnStmt" or len(ps) != 2:
                            raise Untranslatable("comparator body")
                        e = cxxast.strip(kids(st[0])[0])
                        if e.get("kind") != "BinaryOperator" or e.get("opcode") != "<":
                            raise Untranslatable("comparator is not a < comparison")
                        l, r = [cxxast.strip(x) for x in kids(e)]
                        ln = cxxast.strip(kids(l)[0]).get("referencedDecl", {}).get("name")
                        rn = cxxast.strip(kids(r)[0]).get("referencedDecl", {}).get("name")
                        if l.get("kind") != "MemberExpr" or r.get("kind") != "MemberExpr" or l.get("name") != r.get("name") \
                           or (ln, rn) != (ps[0], ps[1]):
                            raise Untranslatable("comparator compares different things")
                        got = l.get("name")
            if got not in ("utctime", "localtime"):
                raise Untranslatable("comparator %s: field %s" % (cname, got))
            self.cmp_cache[cname] = got
        return self.cmp_cache[cname]

    # ---- values
    def el_field(self, v, fld):
        if v[0] == "El":
            e = "(nth %s %s tr0)" % (v[1], TS)
            if fld == "utctime":
                return ("Z", "(tutc %s)" % e)
            if fld == "localtime":
                return ("Z", "(tloc tb %s)" % e)
            if fld == "localtimeIdx":
                return ("N", "(tidx %s)" % e)
        if v[0] == "Sentry" and fld in v[1]:
            return v[1][fld]
        if v[0] in ("LtRec",) and fld == "utcOffset":
            return ("Z", "(off_of tb %s)" % v[1])
        if v[0] == "Lt" and v[1] is not None and fld == "utcOffset":
            return ("Z", "(off_of tb %s)" % v[1])
        raise Untranslatable("field %s of %s" % (fld, v[0]))

    def ev(self, n, env):
        k = n.get("kind")
        ks = kids(n)
        if k in ("ParenExpr", "ExprWithCleanups", "MaterializeTemporaryExpr", "CXXBindTemporaryExpr", "ConstantExpr"):
            return self.ev(ks[0], env)
        if k in ("ImplicitCastExpr", "CStyleCastExpr", "CXXStaticCastExpr", "CXXFunctionalCastExpr"):
            if n.get("castKind") == "NullToPointer":
                return ("Lt", None)
            v = self.ev(ks[0], env)
            if n.get("castKind") == "IntegralCast" and v[0] == "Z" and "size_type" in n.get("type", {}).get("qualType", ""):
                raise Untranslatable("integer used as an index")
            return v
        if k == "GNUNullExpr":
            return ("Lt", None)
        if k == "IntegerLiteral":
            return ("Z", "(%d)" % int(n["value"]) if int(n["value"]) < 0 else str(int(n["value"])))
        if k == "DeclRefExpr":
            nm = n.get("referencedDecl", {}).get("name")
            if nm in env:
                return env[nm]
            raise Untranslatable("unknown name %s" % nm)
        if k == "CXXThisExpr":
            return ("This",)
        if k == "MemberExpr":
            b = self.ev(ks[0], env)
            if b[0] == "This" and n.get("name") in ("transitions", "localtimes"):
                return ("Vec", n["name"])
            return self.el_field(b, n.get("name"))
        if k == "CXXMemberCallExpr":
            me = ks[0]
            obj = self.ev(kids(me)[0], env)
            m = me.get("name")
            if obj[0] == "Vec" and len(ks) == 1:
                vec = obj[1]
                if vec == "transitions":
                    if m == "empty":
                        return ("B", "(%s =? 0)%%nat" % NT)
                    if m == "front":
                        return ("El", "0%nat")
                    if m == "back":
                        return ("El", "(%s - 1)%%nat" % NT)
                    if m == "begin":
                        return ("It", "0%nat")
                    if m == "end":
                        return ("It", NT)
                if vec == "localtimes":
                    if m == "front":
                        return ("LtRec", "0%nat")
            raise Untranslatable("member call %s" % m)
        if k == "UnaryOperator":
            op = n.get("opcode")
            v = self.ev(ks[0], env)
            if op == "&" and v[0] == "LtRec":
                return ("Lt", v[1])
            if op == "!" and v[0] == "B":
                return ("B", "(negb %s)" % v[1])
            raise Untranslatable("unary %s on %s" % (op, v[0]))
        if k == "BinaryOperator":
            op = n.get("opcode")
            a, b = self.ev(ks[0], env), self.ev(ks[1], env)
            if op in ("||", "&&") and a[0] == b[0] == "B":
                return ("B", "(%s %s %s)" % (a[1], op, b[1]))
            if a[0] == b[0] == "Z":
                if op in ("+", "-"):
                    return ("Z", "(%s %s %s)" % (a[1], op, b[1]))
                cmpo = {"<": "<?", "<=": "<=?", ">": ">?", ">=": ">=?", "==": "=?"}
                if op in cmpo:
                    return ("B", "(%s %s %s)" % (a[1], cmpo[op], b[1]))
            raise Untranslatable("binary %s on %s, %s" % (op, a[0], b[0]))
        if k == "CXXOperatorCallExpr":
            callee = cxxast.strip(ks[0]).get("referencedDecl", {}).get("name")
            args = [self.ev(x, env) for x in ks[1:]]
            if callee in ("operator!=", "operator==") and len(args) == 2 and args[0][0] == args[1][0] == "It":
                t = "(%s =? %s)%%nat" % (args[0][1], args[1][1])
                return ("B", t if callee == "operator==" else "(negb %s)" % t)
            if callee == "operator-" and len(args) == 2 and args[0][0] == "It" and args[1][0] == "Z":
                return ("It", "(%s - Z.to_nat %s)%%nat" % (args[0][1], args[1][1]))
            if callee in ("operator*", "operator->") and len(args) == 1 and args[0][0] == "It":
                return ("El", args[0][1])
            if callee == "operator[]" and len(args) == 2 and args[0] == ("Vec", "localtimes") and args[1][0] == "N":
                return ("LtRec", args[1][1])
            raise Untranslatable("operator call %s on %s" % (callee, [a[0] for a in args]))
        if k in ("CXXConstructExpr", "CXXTemporaryObjectExpr"):
            qt = n.get("type", {}).get("qualType", "")
            if qt.endswith("Transition") and len(ks) == 3:
                m = self.transition_ctor()
                args = [self.ev(x, env) for x in ks]
                return ("Sentry", {f: args[pos] for f, pos in m.items()})
            if len(ks) == 1:
                return self.ev(ks[0], env)       # copy of an element / iterator
            raise Untranslatable("construction of %s" % qt)
        if k == "CallExpr":
            callee = cxxast.strip(ks[0]).get("referencedDecl", {}).get("name")
            if callee == "fromUtcTime" and len(ks) == 2:
                a = self.ev(ks[1], env)
                if a[0] == "DT":
                    return ("Z", "(fromUtc %s)" % a[1])
            if callee == "upper_bound" and len(ks) == 5:
                b, e, key = self.ev(ks[1], env), self.ev(ks[2], env), self.ev(ks[3], env)
                cq = ks[4].get("type", {}).get("qualType", "")
                cname = cq.split("::")[-1]
                if b != ("It", "0%nat") or e != ("It", NT):
                    raise Untranslatable("upper_bound over a sub-range")
                fld = self.comparator_field(cname)
                keyv = self.el_field(key, fld)
                col = "(map tutc %s)" % TS if fld == "utctime" else "(map (tloc tb) %s)" % TS
                return ("It", "(upper_bound %s %s)" % (keyv[1], col))
            raise Untranslatable("call to %s" % callee)
        raise Untranslatable("expression kind %s" % k)

    # ---- statements (continuation-passing: `if` duplicates the rest)
    def is_assert(self, s):
        return any(x.get("kind") == "DeclRefExpr" and x.get("referencedDecl", {}).get("name") == "__assert_fail" for x in cxxast.walk(s))

    def bind(self, v, lets):
        """name Z / iterator / index values once"""
        if v[0] in ("Z", "It", "N") and not re.match(r"^\(?-?\w+%?\w*\)?$", v[1]):
            nm = self.fresh()
            lets.append("let %s := %s in" % (nm, v[1]))
            return (v[0], nm)
        if v[0] in ("El", "LtRec", "Lt") and v[1] is not None and not re.match(r"^\w+(%nat)?$", v[1]):
            nm = self.fresh()
            lets.append("let %s := %s in" % (nm, v[1]))
            return (v[0], nm)
        return v

    def run(self, stmts, env, ind):
        pad = "  " * ind
        if not stmts:
            raise Untranslatable("control reaches the end without return")
        s, rest = stmts[0], stmts[1:]
        k = s.get("kind")
        if k == "CompoundStmt":
            return self.run(kids(s) + rest, env, ind)
        if k == "NullStmt" or (k in ("ExprWithCleanups", "ParenExpr", "ConditionalOperator") and self.is_assert(s)):
            return self.run(rest, env, ind)
        if k in ("ExprWithCleanups", "ParenExpr") and len(kids(s)) == 1:
            return self.run([kids(s)[0]] + rest, env, ind)
        if k == "DeclStmt":
            lets = []
            env = dict(env)
            for v in kids(s):
                if v.get("kind") != "VarDecl":
                    raise Untranslatable("declaration of %s" % v.get("kind"))
                init = kids(v)
                if not init:
                    raise Untranslatable("uninitialised local %s" % v.get("name"))
                env[v["name"]] = self.bind(self.ev(init[0], env), lets)
            return "".join(pad + l + "\n" for l in lets) + self.run(rest, env, ind)
        if k == "BinaryOperator" and s.get("opcode") == "=":
            l, r = kids(s)
            l = cxxast.strip(l)
            if l.get("kind") != "DeclRefExpr" or l["referencedDecl"]["name"] not in env:
                raise Untranslatable("assignment target")
            lets = []
            env = dict(env)
            env[l["referencedDecl"]["name"]] = self.bind(self.ev(r, env), lets)
            return "".join(pad + x + "\n" for x in lets) + self.run(rest, env, ind)
        if k == "CXXOperatorCallExpr":
            ks = kids(s)
            callee = cxxast.strip(ks[0]).get("referencedDecl", {}).get("name")
            tgt = cxxast.strip(ks[1])
            if callee == "operator=" and tgt.get("kind") == "DeclRefExpr" and tgt["referencedDecl"]["name"] in env and len(ks) == 3:
                lets = []
                env = dict(env)
                env[tgt["referencedDecl"]["name"]] = self.bind(self.ev(ks[2], env), lets)
                return "".join(pad + x + "\n" for x in lets) + self.run(rest, env, ind)
            if callee in ("operator--", "operator++") and tgt.get("kind") == "DeclRefExpr" and env.get(tgt["referencedDecl"]["name"], ("",))[0] == "It":
                nm = tgt["referencedDecl"]["name"]
                lets = []
                env = dict(env)
                env[nm] = self.bind(("It", "(%s %s 1)%%nat" % (env[nm][1], "-" if callee == "operator--" else "+")), lets)
                return "".join(pad + x + "\n" for x in lets) + self.run(rest, env, ind)
            raise Untranslatable("operator statement %s" % callee)
        if k == "IfStmt":
            ks = kids(s)
            c = self.ev(ks[0], env)
            if c[0] == "Lt":
                raise Untranslatable("pointer used as a condition")
            if c[0] != "B":
                raise Untranslatable("condition of kind %s" % c[0])
            th = [ks[1]]
            el = [ks[2]] if len(ks) > 2 else []
            return (pad + "if %s then\n" % c[1] + self.run(th + rest, env, ind + 1) +
                    pad + "else\n" + self.run(el + rest, env, ind + 1))
        if k == "ReturnStmt":
            v = self.ev(kids(s)[0], env)
            if v[0] != "Lt" or v[1] is None:
                raise Untranslatable("returned value is not a pointer into localtimes")
            return pad + v[1] + "\n"
        raise Untranslatable("statement kind %s" % k)


def main_tz():
    rel = "muduo/base/TimeZone.cc"
    out = ["(* GENERATED by lib/gen_C20.py (main_tz) from the current muduo sources (VERIF_REPO) -- do not edit *)", TZ_PRELUDE]
    fallbacks = []

    def methods():
        res = []
        for d in cxxast.dump(rel, "muduo::TimeZone::Data::findLocalTime"):
            for n in cxxast.walk(d):
                if n.get("kind") == "CXXMethodDecl" and n.get("name") == "findLocalTime" and \
                   any(c.get("kind") == "CompoundStmt" for c in kids(n)):
                    res.append(n)
        return res

    def emit(name, thunk):
        try:
            txt, src = thunk()
            src = " ".join(src.split()).replace("*)", "* )").replace("(*", "( *")
            out.append("(* %s: %s *)\n%s\n" % (rel, src[:1500], txt))
        except Exception as e:  # noqa
            fallbacks.append("%s: %s" % (name, e))
            out.append("(* FALLBACK %s: %s *)\n%s\n" % (name, str(e).replace("*)", ""), TZ_TWINS[name]))

    def utc():
        ms = [m for m in methods() if len([p for p in kids(m) if p.get("kind") == "ParmVarDecl"]) == 1]
        if len(ms) != 1:
            raise Untranslatable("%d one-parameter overloads" % len(ms))
        m = ms[0]
        p = [p for p in kids(m) if p.get("kind") == "ParmVarDecl"][0]
        sym = TzSym(rel)
        body = sym.run(kids(cxxast.body(m)), {p["name"]: ("Z", "utcTime")}, 1)
        return "Definition findLocalTime_utc (tb : tzdata) (utcTime : Z) : nat :=\n" + body.rstrip("\n") + ".", \
               re.sub(r"//[^\n]*", "", cxxast.src_text(m, rel))

    def local():
        ms = [m for m in methods() if len([p for p in kids(m) if p.get("kind") == "ParmVarDecl"]) == 2]
        if len(ms) != 1:
            raise Untranslatable("%d two-parameter overloads" % len(ms))
        m = ms[0]
        ps = [p for p in kids(m) if p.get("kind") == "ParmVarDecl"]
        if "DateTime" not in ps[0].get("type", {}).get("qualType", "") or ps[1].get("type", {}).get("qualType") != "bool":
            raise Untranslatable("parameter types")
        sym = TzSym(rel)
        body = sym.run(kids(cxxast.body(m)), {ps[0]["name"]: ("DT", "lt"), ps[1]["name"]: ("B", "postTransition")}, 1)
        return "Definition findLocalTime_local (tb : tzdata) (lt : DateTime) (postTransition : bool) : nat :=\n" + body.rstrip("\n") + ".", \
               re.sub(r"//[^\n]*", "", cxxast.src_text(m, rel))

    def addtr():
        fn = None
        for d in cxxast.dump(rel, "muduo::TimeZone::Data::addTransition"):
            for n in cxxast.walk(d):
                if n.get("kind") == "CXXMethodDecl" and n.get("name") == "addTransition" and any(c.get("kind") == "CompoundStmt" for c in kids(n)):
                    fn = n
        if fn is None:
            raise Untranslatable("addTransition not found")
        ps = [p["name"] for p in kids(fn) if p.get("kind") == "ParmVarDecl"]
        st = kids(cxxast.body(fn))
        if len(st) != 2 or len(ps) != 2:
            raise Untranslatable("shape of addTransition")
        # LocalTime lt = localtimes.at(localtimeIdx);
        v = kids(st[0])[0]
        at = [c for c in cxxast.walk(v) if c.get("kind") == "MemberExpr" and c.get("name") == "at"]
        ref = [c.get("referencedDecl", {}).get("name") for c in cxxast.walk(v) if c.get("kind") == "DeclRefExpr"]
        if v.get("kind") != "VarDecl" or not at or ps[1] not in ref:
            raise Untranslatable("first statement is not `LocalTime lt = localtimes.at(idx)`")
        sym = TzSym(rel)
        env = {ps[0]: ("Z", "utcTime"), ps[1]: ("N", "localtimeIdx"), v["name"]: ("LtRec", "localtimeIdx")}
        # transitions.push_back(Transition(utcTime, utcTime + lt.utcOffset, localtimeIdx));
        cons = [c for c in cxxast.walk(st[1]) if c.get("kind") in ("CXXConstructExpr", "CXXTemporaryObjectExpr", "CXXFunctionalCastExpr")
                and c.get("type", {}).get("qualType", "").endswith("Transition") and len(kids(c)) == 3]
        pb = [c for c in cxxast.walk(st[1]) if c.get("kind") == "MemberExpr" and c.get("name") == "push_back"]
        if not cons or not pb:
            raise Untranslatable("second statement is not transitions.push_back(Transition(a, b, c))")
        val = sym.ev(cons[0], env)
        if val[0] != "Sentry" or val[1]["utctime"] != ("Z", "utcTime") or val[1]["localtimeIdx"] != ("N", "localtimeIdx"):
            raise Untranslatable("stored utctime / index are not the arguments")
        return "Definition addTransition_localtime (tb : tzdata) (utcTime : Z) (localtimeIdx : nat) : Z :=\n  %s." % val[1]["localtime"][1], \
               cxxast.src_text(fn, rel)


    # ---- detail::readDataBlock / readTimeZoneFile: counts, rejection tests, loop bounds, constants
    def member_calls(n, name):
        return [c for c in cxxast.walk(n) if c.get("kind") == "CXXMemberCallExpr" and kids(c) and kids(c)[0].get("kind") == "MemberExpr"
                and kids(c)[0].get("name") == name]

    def count_decls(stmts):
        """names of the consecutive `const int32_t X = f.readInt32();` declarations, and the index after them"""
        names, i = [], 0
        while i < len(stmts) and not names and not (stmts[i].get("kind") == "DeclStmt" and member_calls(stmts[i], "readInt32")
                                                    and len(kids(stmts[i])) == 1 and kids(stmts[i])[0].get("kind") == "VarDecl"
                                                    and cxxast.strip(kids(kids(stmts[i])[0])[0]).get("kind") == "CXXMemberCallExpr"):
            i += 1
        first = i
        while i < len(stmts) and stmts[i].get("kind") == "DeclStmt" and len(kids(stmts[i])) == 1 and kids(stmts[i])[0].get("kind") == "VarDecl" \
                and kids(kids(stmts[i])[0]) and cxxast.strip(kids(kids(stmts[i])[0])[0]).get("kind") == "CXXMemberCallExpr" \
                and kids(cxxast.strip(kids(kids(stmts[i])[0])[0]))[0].get("name") == "readInt32":
            names.append(kids(stmts[i])[0]["name"])
            i += 1
        return names, first, i

    class CountExpr:
        """integer expressions over the count variables; records every multiplication carried out in int"""
        def __init__(self, names):
            self.names = names
            self.int_mults = []

        def tr(self, n):
            n2 = n
            k = n2.get("kind")
            ks = kids(n2)
            if k in ("ImplicitCastExpr", "ParenExpr", "CStyleCastExpr", "CXXStaticCastExpr"):
                return self.tr(ks[0])
            if k == "IntegerLiteral":
                v = int(n2["value"])
                return "(%d)" % v if v < 0 else str(v)
            if k == "UnaryExprOrTypeTraitExpr":
                return str(cxxast.const_eval(n2))
            if k == "DeclRefExpr":
                nm = n2.get("referencedDecl", {}).get("name")
                if nm in self.names:
                    return ident(nm)
                if nm in getattr(self, "temps", {}):
                    return self.temps[nm]          # a local `const int x = <count expression>;` stands for its value
                raise Untranslatable("name %s in a count expression" % nm)
            if k == "UnaryOperator" and n2.get("opcode") == "-":
                return "(- %s)" % self.tr(ks[0])
            if k == "BinaryOperator" and n2.get("opcode") in ("+", "-", "*"):
                t = "(%s %s %s)" % (self.tr(ks[0]), n2["opcode"], self.tr(ks[1]))
                if n2["opcode"] == "*" and base_type(n2.get("type", {}).get("qualType", "")) in INT32 + ("int32_t",):
                    self.int_mults.append(t)
                return t
            raise Untranslatable("count expression kind %s" % k)

        def cond(self, n):
            n2 = cxxast.strip(n)
            if n2.get("kind") == "BinaryOperator":
                op = n2["opcode"]
                a, b = kids(n2)
                if op in ("&&", "||"):
                    return "(%s %s %s)" % (self.cond(a), op, self.cond(b))
                m = {"!=": "(negb (%s =? %s))", "==": "(%s =? %s)", "<": "(%s <? %s)", "<=": "(%s <=? %s)", ">": "(%s >? %s)", ">=": "(%s >=? %s)"}
                if op in m:
                    return m[op] % (self.tr(a), self.tr(b))
            raise Untranslatable("count condition")

    def is_return_false(st):
        st = kids(st)[0] if st.get("kind") == "CompoundStmt" and len(kids(st)) == 1 else st
        return st.get("kind") == "ReturnStmt" and kids(st) and cxxast.strip(kids(st)[0]).get("kind") == "CXXBoolLiteralExpr" \
            and not cxxast.strip(kids(st)[0]).get("value")

    state = {}

    def datablock():
        if "db" in state:
            return state["db"]
        fn = cxxast.function_decl(rel, "muduo::detail::readDataBlock")
        ps = [p for p in kids(fn) if p.get("kind") == "ParmVarDecl"]
        if len(ps) != 3 or ps[2].get("type", {}).get("qualType") != "bool":
            raise Untranslatable("parameters of readDataBlock")
        v1name = ps[2]["name"]
        st = kids(cxxast.body(fn))
        names, first, after = count_decls(st)
        if len(names) != 6:
            raise Untranslatable("%d count declarations" % len(names))
        ce = CountExpr(names)
        ce.temps = {}
        rejects, order = [], []
        for x in st[after:]:
            k = x.get("kind")
            if k == "DeclStmt" and len(kids(x)) == 1 and kids(x)[0].get("kind") == "VarDecl" and kids(kids(x)[0]) and \
               base_type(kids(x)[0].get("type", {}).get("qualType", "")) in INT32 + INT64 + ("int32_t", "size_t"):
                try:
                    ce.temps[kids(x)[0]["name"]] = ce.tr(kids(kids(x)[0])[0])
                except Untranslatable:
                    pass
                continue
            if k == "IfStmt" and len(kids(x)) == 2 and is_return_false(kids(x)[1]):
                if order:
                    raise Untranslatable("a rejection test after the first read")
                rejects.append(ce.cond(kids(x)[0]))
            elif k == "CXXMemberCallExpr" and kids(x)[0].get("name") == "reserve":
                order.append(("reserve", ce.tr(kids(x)[1])))
            elif k == "ForStmt":
                fk = [c for c in x.get("inner", [])]
                cond = fk[2] if len(fk) >= 5 and isinstance(fk[2], dict) else None
                c2 = cxxast.strip(cond) if cond else {}
                if c2.get("kind") != "BinaryOperator" or c2.get("opcode") != "<":
                    raise Untranslatable("loop condition")
                init = cxxast.strip(kids(kids(fk[0])[0])[0]) if isinstance(fk[0], dict) and fk[0].get("kind") == "DeclStmt" else {}
                if init.get("kind") != "IntegerLiteral" or int(init["value"]) != 0:
                    raise Untranslatable("loop does not start at 0")
                bound = ce.tr(kids(c2)[1])
                body = fk[4]
                r32, r64, r8 = len(member_calls(body, "readInt32")), len(member_calls(body, "readInt64")), len(member_calls(body, "readUInt8"))
                if member_calls(body, "addTransition"):
                    kind = "add"
                elif member_calls(body, "addLocalTime") and (r32, r64, r8) == (1, 0, 2):
                    kind = "types"
                elif (r32, r64, r8) == (1, 1, 0):
                    ifs = [c for c in kids(body) if c.get("kind") == "IfStmt"]
                    if len(ifs) != 1 or cxxast.strip(kids(ifs[0])[0]).get("referencedDecl", {}).get("name") != v1name \
                       or not member_calls(kids(ifs[0])[1], "readInt32") or not member_calls(kids(ifs[0])[2], "readInt64"):
                        raise Untranslatable("time loop is not `if (v1) readInt32 else readInt64`")
                    kind = "times"
                elif (r32, r64, r8) == (0, 0, 1):
                    kind = "idx"
                else:
                    raise Untranslatable("unrecognised loop body")
                order.append((kind, bound))
            elif k == "BinaryOperator" or (k in ("ExprWithCleanups",) and member_calls(x, "readBytes")):
                rb = member_calls(x, "readBytes")
                if len(rb) == 1:
                    order.append(("chars", ce.tr(kids(rb[0])[1])))
        kinds = [k for (k, b) in order]
        want = ["reserve", "times", "reserve", "idx", "reserve", "types", "add", "chars"]
        if kinds != want:
            raise Untranslatable("statement order %s, expected %s" % (kinds, want))
        # time_size = v1 ? sizeof(int32_t) : sizeof(int64_t)
        ts = None
        for x in st[:first]:
            for v in kids(x):
                if v.get("kind") == "VarDecl":
                    c = cxxast.strip(kids(v)[0])
                    if c.get("kind") == "ConditionalOperator" and cxxast.strip(kids(c)[0]).get("referencedDecl", {}).get("name") == v1name:
                        ts = (cxxast.const_eval(kids(c)[1]), cxxast.const_eval(kids(c)[2]))
        if ts != (4, 8):
            raise Untranslatable("time_size is not v1 ? 4 : 8")
        state["db"] = dict(names=names, rejects=rejects, order=order, src=cxxast.src_text(fn, rel))
        return state["db"]

    def db_def(gname, term, ty="Z"):
        d = datablock()
        return "Definition %s (%s : Z) : %s := %s." % (gname, " ".join(ident(x) for x in d["names"]), ty, term)

    emit("readDataBlock_reject", lambda: (db_def("readDataBlock_reject", " || ".join(datablock()["rejects"]) or "false", "bool"),
                                          "if (...) return false; tests of readDataBlock, counts read in the order " + " ".join(datablock()["names"])))
    for i, (gname, what) in enumerate([("readDataBlock_reserve_times", "trans.reserve"), ("readDataBlock_ntimes", "loop reading the transition times"),
                                       ("readDataBlock_reserve_idx", "localtimes.reserve"), ("readDataBlock_nidx", "loop reading the type indices"),
                                       ("readDataBlock_reserve_types", "data->localtimes.reserve"), ("readDataBlock_ntypes", "loop reading the ttinfo entries"),
                                       ("readDataBlock_nadd", "loop calling addTransition"), ("readDataBlock_nchars", "readBytes of the abbreviations")]):
        emit(gname, lambda i=i, gname=gname, what=what: (db_def(gname, datablock()["order"][i][1]), "readDataBlock: " + what))

    def tzfile():
        if "tf" in state:
            return state["tf"]
        fn = cxxast.function_decl(rel, "muduo::detail::readTimeZoneFile")
        trys = [n for n in cxxast.walk(cxxast.body(fn)) if n.get("kind") == "CXXTryStmt"]
        if len(trys) != 1:
            raise Untranslatable("try blocks")
        st = kids(kids(trys[0])[0])
        names, first, after = count_decls(st)
        if len(names) != 6:
            raise Untranslatable("%d count declarations" % len(names))

        def lit(n):
            ls = [c for c in cxxast.walk(n) if c.get("kind") == "StringLiteral"]
            if len(ls) != 1:
                raise Untranslatable("string literal")
            return [ord(ch) for ch in json_string(ls[0]["value"])]

        def strcmp(n, op):
            c = cxxast.strip(n)
            if c.get("kind") == "CXXOperatorCallExpr" and cxxast.strip(kids(c)[0]).get("referencedDecl", {}).get("name") == op:
                return cxxast.strip(kids(c)[1]).get("referencedDecl", {}).get("name"), lit(kids(c)[2])
            raise Untranslatable("string comparison")

        def throws(n):
            return any(c.get("kind") == "CXXThrowExpr" for c in cxxast.walk(n))

        def rb_len(n):
            rb = member_calls(n, "readBytes")
            if len(rb) != 1:
                raise Untranslatable("readBytes call")
            return cxxast.const_eval(kids(rb[0])[1])

        def skip_arg(n):
            sk = member_calls(n, "skip")
            if len(sk) != 1:
                raise Untranslatable("skip call")
            return kids(sk[0])[1]

        pre = st[:first]
        # head = readBytes(4); if (head != "TZif") throw; version = readBytes(1); readBytes(15);
        if len(pre) != 4 or pre[0].get("kind") != "DeclStmt" or pre[1].get("kind") != "IfStmt" or pre[2].get("kind") != "DeclStmt":
            raise Untranslatable("statements before the counts")
        headvar, vervar = kids(pre[0])[0]["name"], kids(pre[2])[0]["name"]
        hv, magic = strcmp(kids(pre[1])[0], "operator!=")
        if hv != headvar or not throws(kids(pre[1])[1]):
            raise Untranslatable("magic test")
        f = dict(head_len=rb_len(pre[0]), magic=magic, version_len=rb_len(pre[2]), reserved_len=rb_len(pre[3]))
        post = st[after:]
        if len(post) != 1 or post[0].get("kind") != "IfStmt" or len(kids(post[0])) != 3:
            raise Untranslatable("statements after the counts")
        vv, f["v2"] = strcmp(kids(post[0])[0], "operator==")
        if vv != vervar:
            raise Untranslatable("version test")
        th, el = kids(kids(post[0])[1]), kids(kids(post[0])[2])
        # then: size_t skip = E; f.skip(skip); head = readBytes(4); if (head != "TZif") throw; f.skip(16); return readDataBlock(f, data, false);
        if len(th) != 6 or th[0].get("kind") != "DeclStmt":
            raise Untranslatable("version-2 branch")
        skv = kids(th[0])[0]
        ce = CountExpr(names)
        f["skip"] = ce.tr(kids(skv)[0])
        f["skip_mults"] = list(ce.int_mults)
        if cxxast.strip(skip_arg(th[1])).get("referencedDecl", {}).get("name") != skv["name"]:
            raise Untranslatable("skip argument")
        f["head2_len"] = rb_len(th[2])
        hv2, f["magic2"] = strcmp(kids(th[3])[0], "operator!=")
        if hv2 != headvar or not throws(kids(th[3])[1]):
            raise Untranslatable("second magic test")
        f["skip2"] = cxxast.const_eval(skip_arg(th[4]))

        def rdb_flag(n):
            cs = [c for c in cxxast.walk(n) if c.get("kind") == "CallExpr" and cxxast.strip(kids(c)[0]).get("referencedDecl", {}).get("name") == "readDataBlock"]
            if n.get("kind") != "ReturnStmt" or len(cs) != 1:
                raise Untranslatable("return readDataBlock(...)")
            return bool(cxxast.strip(kids(cs[0])[3]).get("value"))
        f["v2_flag"] = rdb_flag(th[5])
        if len(el) != 2:
            raise Untranslatable("version-1 branch")
        f["rewind"] = cxxast.const_eval(skip_arg(el[0]))
        f["v1_flag"] = rdb_flag(el[1])
        f["names"] = names
        state["tf"] = f
        return f

    def zl(l):
        return "[" + "; ".join(str(x) for x in l) + "]"
    emit("readTimeZoneFile_magic", lambda: ("Definition readTimeZoneFile_magic : list Z := %s.\nDefinition readTimeZoneFile_head_len : Z := %d." % (zl(tzfile()["magic"]), tzfile()["head_len"]),
                                            'head = f.readBytes(%d); if (head != "%s") throw' % (tzfile()["head_len"], "".join(map(chr, tzfile()["magic"])))))
    emit("readTimeZoneFile_version_len", lambda: ("Definition readTimeZoneFile_version_len : Z := %d.\nDefinition readTimeZoneFile_reserved_len : Z := %d." % (tzfile()["version_len"], tzfile()["reserved_len"]),
                                                  "version = f.readBytes(%d); f.readBytes(%d)" % (tzfile()["version_len"], tzfile()["reserved_len"])))
    emit("readTimeZoneFile_v2", lambda: ("Definition readTimeZoneFile_v2 : list Z := %s." % zl(tzfile()["v2"]), 'if (version == "%s")' % "".join(map(chr, tzfile()["v2"]))))
    emit("readTimeZoneFile_skip", lambda: ("Definition readTimeZoneFile_skip (%s : Z) : Z := %s.\nDefinition readTimeZoneFile_skip_fits (%s : Z) : bool := %s." % (
        " ".join(ident(x) for x in tzfile()["names"]), tzfile()["skip"], " ".join(ident(x) for x in tzfile()["names"]),
        " && ".join("fits_int %s" % m for m in tzfile()["skip_mults"]) or "true"), "size_t skip = ... (multiplications carried out in int: %s)" % ", ".join(tzfile()["skip_mults"])))
    emit("readTimeZoneFile_magic2", lambda: ("Definition readTimeZoneFile_magic2 : list Z := %s.\nDefinition readTimeZoneFile_head2_len : Z := %d.\nDefinition readTimeZoneFile_skip2 : Z := %d.\nDefinition readTimeZoneFile_v2_block_v1 : bool := %s." % (
        zl(tzfile()["magic2"]), tzfile()["head2_len"], tzfile()["skip2"], "true" if tzfile()["v2_flag"] else "false"), "version-2 branch: second header, f.skip, readDataBlock(f, data, flag)"))
    emit("readTimeZoneFile_rewind", lambda: ("Definition readTimeZoneFile_rewind : Z := (%d).\nDefinition readTimeZoneFile_v1_block_v1 : bool := %s." % (
        tzfile()["rewind"], "true" if tzfile()["v1_flag"] else "false"), "other versions: f.skip(rewind), readDataBlock(f, data, flag)"))

    emit("findLocalTime_utc", utc)
    emit("findLocalTime_local", local)
    emit("addTransition_localtime", addtr)
    txt = "\n".join(out) + "\n"
    path = os.path.join(cxxast.ROOT, "coq/Gen_C20Tz.v")
    old = open(path).read() if os.path.exists(path) else None
    if old != txt:
        open(path, "w").write(txt)
    for f in fallbacks:
        print("FALLBACK", f)
    return 0


# ==========================================================================================
# fourth output: coq/Gen_C20Ts.v -- Timestamp text and arithmetic, Date::toIsoString:
#   Timestamp.cc  toString: the two values handed to snprintf (as functions of microSecondsSinceEpoch_),
#                 the format, the buffer size; toFormattedString: the seconds handed to gmtime_r, both
#                 formats and argument lists (as functions of the struct tm fields), the buffer size
#   Timestamp.h   secondsSinceEpoch, fromUnixTime(t, microseconds), timeDifference (the int64 difference
#                 that is then divided as a double), addTime (how the int64 delta enters the result)
#   Date.cc       toIsoString: format, arguments (fields of yearMonthDay()), buffer size
# integer expressions go through the same translator as the calendar functions (C semantics, `_fits`).

TS_PRELUDE = """From Coq Require Import ZArith Bool List.
From Muduo Require Import Gen_C20.
Import ListNotations.
Local Open Scope Z_scope.
Local Open Scope bool_scope.
"""

TS_TWINS = {
    "Timestamp_toString": """Definition Timestamp_toString_args (microSecondsSinceEpoch_ : Z) : list Z :=
  [Z.quot microSecondsSinceEpoch_ kMicroSecondsPerSecond; Z.rem microSecondsSinceEpoch_ kMicroSecondsPerSecond].
Definition Timestamp_toString_args_fits (microSecondsSinceEpoch_ : Z) : bool := true.
Definition Timestamp_toString_fmt : list Z := [37; 108; 100; 46; 37; 48; 54; 108; 100].
Definition Timestamp_toString_bufsize : Z := 32.""",
    "Timestamp_toFormattedString": """Definition Timestamp_toFormattedString_seconds (microSecondsSinceEpoch_ : Z) : Z := Z.quot microSecondsSinceEpoch_ kMicroSecondsPerSecond.
Definition Timestamp_toFormattedString_seconds_fits (microSecondsSinceEpoch_ : Z) : bool := true.
Definition Timestamp_toFormattedString_args_micro (microSecondsSinceEpoch_ tm_time_tm_year tm_time_tm_mon tm_time_tm_mday tm_time_tm_hour tm_time_tm_min tm_time_tm_sec : Z) : list Z :=
  [tm_time_tm_year + 1900; tm_time_tm_mon + 1; tm_time_tm_mday; tm_time_tm_hour; tm_time_tm_min; tm_time_tm_sec; Z.rem microSecondsSinceEpoch_ kMicroSecondsPerSecond].
Definition Timestamp_toFormattedString_args_micro_fits (microSecondsSinceEpoch_ tm_time_tm_year tm_time_tm_mon tm_time_tm_mday tm_time_tm_hour tm_time_tm_min tm_time_tm_sec : Z) : bool := true.
Definition Timestamp_toFormattedString_fmt_micro : list Z := [37; 52; 100; 37; 48; 50; 100; 37; 48; 50; 100; 32; 37; 48; 50; 100; 58; 37; 48; 50; 100; 58; 37; 48; 50; 100; 46; 37; 48; 54; 100].
Definition Timestamp_toFormattedString_args_plain (microSecondsSinceEpoch_ tm_time_tm_year tm_time_tm_mon tm_time_tm_mday tm_time_tm_hour tm_time_tm_min tm_time_tm_sec : Z) : list Z :=
  [tm_time_tm_year + 1900; tm_time_tm_mon + 1; tm_time_tm_mday; tm_time_tm_hour; tm_time_tm_min; tm_time_tm_sec].
Definition Timestamp_toFormattedString_args_plain_fits (microSecondsSinceEpoch_ tm_time_tm_year tm_time_tm_mon tm_time_tm_mday tm_time_tm_hour tm_time_tm_min tm_time_tm_sec : Z) : bool := true.
Definition Timestamp_toFormattedString_fmt_plain : list Z := [37; 52; 100; 37; 48; 50; 100; 37; 48; 50; 100; 32; 37; 48; 50; 100; 58; 37; 48; 50; 100; 58; 37; 48; 50; 100].
Definition Timestamp_toFormattedString_bufsize : Z := 64.""",
    "Timestamp_secondsSinceEpoch": """Definition Timestamp_secondsSinceEpoch (microSecondsSinceEpoch_ : Z) := Z.quot microSecondsSinceEpoch_ kMicroSecondsPerSecond.
Definition Timestamp_secondsSinceEpoch_fits (microSecondsSinceEpoch_ : Z) : bool := true.""",
    "Timestamp_fromUnixTime": """Definition Timestamp_fromUnixTime (t microseconds : Z) := t * kMicroSecondsPerSecond + microseconds.
Definition Timestamp_fromUnixTime_fits (t microseconds : Z) : bool := true.""",
    "Timestamp_timeDifference_diff": """Definition Timestamp_timeDifference_diff (high low : Z) : Z := high - low.
Definition Timestamp_timeDifference_divisor : Z := kMicroSecondsPerSecond.""",
    "Timestamp_addTime": """Definition Timestamp_addTime (timestamp delta : Z) : Z := timestamp + delta.
Definition Timestamp_addTime_factor : Z := kMicroSecondsPerSecond.""",
    "Date_toIsoString": """Definition Date_toIsoString_args (ymd_year ymd_month ymd_day : Z) : list Z := [ymd_year; ymd_month; ymd_day].
Definition Date_toIsoString_fmt : list Z := [37; 52; 100; 45; 37; 48; 50; 100; 45; 37; 48; 50; 100].
Definition Date_toIsoString_bufsize : Z := 32.""",
}


def main_ts():
    out = ["(* GENERATED by lib/gen_C20.py (main_ts) from the current muduo sources (VERIF_REPO) -- do not edit *)", TS_PRELUDE]
    fallbacks = []
    G = {"kMicroSecondsPerSecond": "kMicroSecondsPerSecond"}

    def emit(name, thunk):
        try:
            txt, src = thunk()
            src = " ".join(src.split()).replace("*)", "* )").replace("(*", "( *")
            out.append("(* %s *)\n%s\n" % (src[:1200], txt))
        except Exception as e:  # noqa
            fallbacks.append("%s: %s" % (name, e))
            out.append("(* FALLBACK %s: %s *)\n%s\n" % (name, str(e).replace("*)", ""), TS_TWINS[name]))

    def one(xs, what):
        if len(xs) != 1:
            raise Untranslatable("%s: %d matches" % (what, len(xs)))
        return xs[0]

    def zl(l):
        return "[" + "; ".join(str(x) for x in l) + "]"

    def snprintf_calls(stmts):
        return [c for s_ in stmts for c in ([s_] if s_.get("kind") == "CallExpr" else [])
                if cxxast.strip(kids(c)[0]).get("referencedDecl", {}).get("name") == "snprintf"]

    def buf_decl(fn):
        vd = one(list(cxxast.find(cxxast.body(fn), "VarDecl", "buf")), "declarations of buf")
        mm = re.match(r"char\[(\d+)\]$", vd.get("type", {}).get("qualType", ""))
        if not mm:
            raise Untranslatable("buf is not a char array")
        return int(mm.group(1))

    def printf_site(tr, call, bufsize_expected=True):
        """(format codes, argument terms) of snprintf(buf, sizeof buf, "literal", args...)"""
        a = kids(call)
        if cxxast.strip(a[1]).get("referencedDecl", {}).get("name") != "buf":
            raise Untranslatable("snprintf target is not buf")
        sz = cxxast.strip(a[2])
        if sz.get("kind") != "UnaryExprOrTypeTraitExpr" or [x.get("referencedDecl", {}).get("name") for x in cxxast.find(sz, "DeclRefExpr")] != ["buf"]:
            raise Untranslatable("snprintf size is not sizeof buf")
        lit = cxxast.strip(a[3])
        if lit.get("kind") != "StringLiteral":
            raise Untranslatable("format is not a literal")
        fmt = [ord(ch) for ch in json_string(lit["value"])]
        args = [tr.expr(x) for x in a[4:]]
        return fmt, args

    def lets(binds):
        return "".join("  let %s := %s in\n" % (p_, t) for (p_, t, o) in binds if t is not None)

    def fits_body(binds, extra):
        lines, depth = [], 0
        for (p_, t, o) in binds:
            if o:
                lines.append("  " + render_obl(o) + " &&")
            if t is not None:
                lines.append("  (let %s := %s in" % (p_, t))
                depth += 1
        if extra:
            lines.append("  " + render_obl(extra) + " &&")
        lines.append("  true" + ")" * depth + ".")
        return "\n".join(lines)

    TSCC, TSH, DCC = "muduo/base/Timestamp.cc", "muduo/base/Timestamp.h", "muduo/base/Date.cc"

    def new_tr():
        tr = Tr(Ctx(G, {}))
        tr.locals = set()
        tr.assigned_fields = {}
        return tr

    def tostring():
        fn = cxxast.function_decl(TSCC, "muduo::Timestamp::toString")
        st = kids(cxxast.body(fn))
        tr = new_tr()
        binds = []
        for s_ in st:
            if s_.get("kind") == "DeclStmt" and kids(s_)[0].get("name") != "buf":
                binds += tr.stmt(s_)
        call = one(snprintf_calls(st), "snprintf calls")
        fmt, args = printf_site(tr, call)
        extra = tr.take_obl()
        p_ = "(microSecondsSinceEpoch_ : Z)"
        txt = "Definition Timestamp_toString_args %s : list Z :=\n%s  %s.\n" % (p_, lets(binds), zl(args))
        txt += "Definition Timestamp_toString_args_fits %s : bool :=\n%s\n" % (p_, fits_body(binds, extra))
        txt += "Definition Timestamp_toString_fmt : list Z := %s.\nDefinition Timestamp_toString_bufsize : Z := %d." % (zl(fmt), buf_decl(fn))
        return txt, TSCC + ": " + cxxast.src_text(fn, TSCC)
    emit("Timestamp_toString", tostring)

    def toformatted():
        fn = cxxast.function_decl(TSCC, "muduo::Timestamp::toFormattedString")
        ps = [p_ for p_ in kids(fn) if p_.get("kind") == "ParmVarDecl"]
        if len(ps) != 1 or ps[0].get("type", {}).get("qualType") != "bool":
            raise Untranslatable("parameter")
        st = kids(cxxast.body(fn))
        tr = new_tr()
        # time_t seconds = ...;  struct tm tm_time;  gmtime_r(&seconds, &tm_time);
        secdecl = [s_ for s_ in st if s_.get("kind") == "DeclStmt" and kids(s_)[0].get("name") == "seconds"]
        b0 = tr.stmt(one(secdecl, "declaration of seconds"))
        gm = [c for s_ in st for c in cxxast.find(s_, "CallExpr") if cxxast.strip(kids(c)[0]).get("referencedDecl", {}).get("name") == "gmtime_r"]
        g = one(gm, "gmtime_r calls")
        a1 = [x.get("referencedDecl", {}).get("name") for x in cxxast.find(kids(g)[1], "DeclRefExpr")]
        a2 = [x.get("referencedDecl", {}).get("name") for x in cxxast.find(kids(g)[2], "DeclRefExpr")]
        if a1 != ["seconds"] or len(a2) != 1:
            raise Untranslatable("gmtime_r arguments")
        tmname = a2[0]
        tr.c.records[tmname] = "tm"
        tr.locals.add(tmname)
        fields = ["tm_year", "tm_mon", "tm_mday", "tm_hour", "tm_min", "tm_sec"]
        params = "(microSecondsSinceEpoch_ %s : Z)" % " ".join(ident(tmname + "_" + f) for f in fields)
        ifs = one([s_ for s_ in st if s_.get("kind") == "IfStmt"], "if statements")
        ks = kids(ifs)
        if cxxast.strip(ks[0]).get("referencedDecl", {}).get("name") != ps[0]["name"] or len(ks) != 3:
            raise Untranslatable("if (showMicroseconds) ... else ...")
        txt = "Definition Timestamp_toFormattedString_seconds (microSecondsSinceEpoch_ : Z) : Z :=\n%s  seconds.\n" % lets(b0)
        txt += "Definition Timestamp_toFormattedString_seconds_fits (microSecondsSinceEpoch_ : Z) : bool :=\n%s\n" % fits_body(b0, [])
        for tag, blk in (("micro", ks[1]), ("plain", ks[2])):
            bst = kids(blk) if blk.get("kind") == "CompoundStmt" else [blk]
            binds = []
            for s_ in bst:
                if s_.get("kind") == "DeclStmt":
                    binds += tr.stmt(s_)
            call = one(snprintf_calls(bst), "snprintf calls in a branch")
            fmt, args = printf_site(tr, call)
            extra = tr.take_obl()
            used = set(re.findall(r"\b%s_(tm_\w+)\b" % re.escape(tmname), " ".join(args)))
            if not used <= set(fields):
                raise Untranslatable("struct tm fields %s" % sorted(used))
            txt += "Definition Timestamp_toFormattedString_args_%s %s : list Z :=\n%s  %s.\n" % (tag, params, lets(binds), zl(args))
            txt += "Definition Timestamp_toFormattedString_args_%s_fits %s : bool :=\n%s\n" % (tag, params, fits_body(binds, extra))
            txt += "Definition Timestamp_toFormattedString_fmt_%s : list Z := %s.\n" % (tag, zl(fmt))
        txt += "Definition Timestamp_toFormattedString_bufsize : Z := %d." % buf_decl(fn)
        txt = txt.replace(ident(tmname + "_"), "tm_time_") if tmname != "tm_time" else txt
        return txt, TSCC + ": " + cxxast.src_text(fn, TSCC)
    emit("Timestamp_toFormattedString", toformatted)

    def simple_fn(relfile, qual, gname, nparams=None, pick=None):
        fns = fn_candidates(relfile, qual, kinds=("FunctionDecl", "CXXMethodDecl"))
        if pick:
            fns = [f for f in fns if pick(f)]
        fn = one(fns, qual)
        tr = new_tr()
        params, binds, result = tr.function(fn, gname)
        return fn, params, binds, result

    def seconds_since():
        fn, params, binds, result = simple_fn(TSH, "muduo::Timestamp::secondsSinceEpoch", "Timestamp_secondsSinceEpoch")
        return render("Timestamp_secondsSinceEpoch", ["microSecondsSinceEpoch_"] + params, binds, result, cxxast.src_text(fn, TSH), TSH).split("\n", 1)[1], \
            TSH + ": " + cxxast.src_text(fn, TSH)
    emit("Timestamp_secondsSinceEpoch", seconds_since)

    def from_unix():
        two = lambda f: len([p_ for p_ in kids(f) if p_.get("kind") == "ParmVarDecl"]) == 2
        fns = [f for f in fn_candidates(TSH, "muduo::Timestamp::fromUnixTime", kinds=("CXXMethodDecl",)) if two(f)]
        fn = one(fns, "fromUnixTime(time_t, int)")
        ps = [p_["name"] for p_ in kids(fn) if p_.get("kind") == "ParmVarDecl"]
        st = kids(cxxast.body(fn))
        r = one([s_ for s_ in st if s_.get("kind") == "ReturnStmt"], "return")
        # return Timestamp(<int64 expression>)
        e = kids(r)[0]
        while e.get("kind") in ("CXXFunctionalCastExpr", "CXXConstructExpr", "ExprWithCleanups", "MaterializeTemporaryExpr", "ImplicitCastExpr", "CXXTemporaryObjectExpr") \
                and "Timestamp" in e.get("type", {}).get("qualType", "") and len(kids(e)) == 1:
            e = kids(e)[0]
        tr = new_tr()
        tr.locals |= set(ps)
        t = tr.expr(e)
        ob = tr.take_obl()
        txt = "Definition Timestamp_fromUnixTime (%s : Z) := %s.\n" % (" ".join(ident(x) for x in ps), t)
        txt += "Definition Timestamp_fromUnixTime_fits (%s : Z) : bool := %s." % (" ".join(ident(x) for x in ps), render_obl(ob) if ob else "true")
        return txt, TSH + ": " + cxxast.src_text(fn, TSH)
    emit("Timestamp_fromUnixTime", from_unix)

    def accessor_expr(tr, n, names):
        """`x.microSecondsSinceEpoch()` on a Timestamp parameter -> that parameter's value"""
        raise Untranslatable("unused")

    def time_difference():
        fn = one(fn_candidates(TSH, "muduo::timeDifference", kinds=("FunctionDecl",)), "timeDifference")
        ps = [p_["name"] for p_ in kids(fn) if p_.get("kind") == "ParmVarDecl"]
        st = kids(cxxast.body(fn))
        if len(st) != 2 or len(ps) != 2:
            raise Untranslatable("shape")
        v = kids(st[0])[0]
        e = cxxast.strip(kids(v)[0])
        if e.get("kind") != "BinaryOperator" or e.get("opcode") != "-":
            raise Untranslatable("diff is not a difference")

        def acc(n):
            n = cxxast.strip(n)
            if n.get("kind") == "CXXMemberCallExpr" and kids(n)[0].get("name") == "microSecondsSinceEpoch":
                o = cxxast.strip(kids(kids(n)[0])[0]).get("referencedDecl", {}).get("name")
                if o in ps:
                    return ident(o)
            raise Untranslatable("operand is not <parameter>.microSecondsSinceEpoch()")
        a, b = acc(kids(e)[0]), acc(kids(e)[1])
        r = cxxast.strip(kids(st[1])[0])
        if r.get("kind") != "BinaryOperator" or r.get("opcode") != "/" or "double" not in r.get("type", {}).get("qualType", ""):
            raise Untranslatable("result is not a double division")
        num = [x.get("referencedDecl", {}).get("name") for x in cxxast.find(kids(r)[0], "DeclRefExpr")]
        den = [x.get("referencedDecl", {}).get("name") for x in cxxast.find(kids(r)[1], "DeclRefExpr")]
        if num != [v["name"]] or den != ["kMicroSecondsPerSecond"]:
            raise Untranslatable("division operands")
        txt = "Definition Timestamp_timeDifference_diff (%s : Z) : Z := (%s - %s).\nDefinition Timestamp_timeDifference_divisor : Z := kMicroSecondsPerSecond." % (
            " ".join(ident(x) for x in ps), a, b)
        return txt, TSH + ": " + cxxast.src_text(fn, TSH)
    emit("Timestamp_timeDifference_diff", time_difference)

    def add_time():
        fn = one(fn_candidates(TSH, "muduo::addTime", kinds=("FunctionDecl",)), "addTime")
        ps = [p_["name"] for p_ in kids(fn) if p_.get("kind") == "ParmVarDecl"]
        st = kids(cxxast.body(fn))
        if len(st) != 2 or len(ps) != 2:
            raise Untranslatable("shape")
        v = kids(st[0])[0]
        # int64_t delta = static_cast<int64_t>(seconds * Timestamp::kMicroSecondsPerSecond);
        mul = [x for x in cxxast.walk(v) if x.get("kind") == "BinaryOperator"]
        m = one(mul, "operators in the initialiser of delta")
        names = [x.get("referencedDecl", {}).get("name") for x in cxxast.find(m, "DeclRefExpr")]
        if m.get("opcode") != "*" or "double" not in m.get("type", {}).get("qualType", "") or names != [ps[1], "kMicroSecondsPerSecond"] \
           or base_type(v.get("type", {}).get("qualType", "")) not in INT64:
            raise Untranslatable("delta is not (int64_t)(seconds * kMicroSecondsPerSecond)")
        e = kids(st[1])[0]
        while e.get("kind") in ("CXXFunctionalCastExpr", "CXXConstructExpr", "ExprWithCleanups", "MaterializeTemporaryExpr", "ImplicitCastExpr", "CXXTemporaryObjectExpr") \
                and "Timestamp" in e.get("type", {}).get("qualType", "") and len(kids(e)) == 1:
            e = kids(e)[0]
        e = cxxast.strip(e)
        if e.get("kind") != "BinaryOperator" or e.get("opcode") != "+":
            raise Untranslatable("result is not a sum")
        l, r = cxxast.strip(kids(e)[0]), cxxast.strip(kids(e)[1])
        lo = cxxast.strip(kids(kids(l)[0])[0]).get("referencedDecl", {}).get("name") if l.get("kind") == "CXXMemberCallExpr" else None
        if lo != ps[0] or kids(l)[0].get("name") != "microSecondsSinceEpoch" or r.get("referencedDecl", {}).get("name") != v["name"]:
            raise Untranslatable("result is not timestamp.microSecondsSinceEpoch() + delta")
        txt = "Definition Timestamp_addTime (%s delta : Z) : Z := (%s + delta).\nDefinition Timestamp_addTime_factor : Z := kMicroSecondsPerSecond." % (ident(ps[0]), ident(ps[0]))
        return txt, TSH + ": " + cxxast.src_text(fn, TSH)
    emit("Timestamp_addTime", add_time)

    def iso():
        fn = cxxast.function_decl(DCC, "muduo::Date::toIsoString")
        st = kids(cxxast.body(fn))
        # YearMonthDay ymd(yearMonthDay());
        vd = [kids(s_)[0] for s_ in st if s_.get("kind") == "DeclStmt" and kids(s_)[0].get("name") != "buf"]
        v = one(vd, "record declarations")
        if base_type(v.get("type", {}).get("qualType", "")) != "YearMonthDay" or \
           not [m for m in cxxast.find(v, "MemberExpr") if m.get("name") == "yearMonthDay"]:
            raise Untranslatable("ymd is not yearMonthDay()")
        tr = new_tr()
        tr.c.records[v["name"]] = "YearMonthDay"
        tr.locals.add(v["name"])
        call = one(snprintf_calls(st), "snprintf calls")
        fmt, args = printf_site(tr, call)
        names = [ident(v["name"] + "_" + f) for f in RECORDS["YearMonthDay"]]
        txt = "Definition Date_toIsoString_args (%s : Z) : list Z := %s.\n" % (" ".join(names), zl(args))
        txt = txt.replace(ident(v["name"]) + "_", "ymd_")
        txt += "Definition Date_toIsoString_fmt : list Z := %s.\nDefinition Date_toIsoString_bufsize : Z := %d." % (zl(fmt), buf_decl(fn))
        return txt, DCC + ": " + cxxast.src_text(fn, DCC)
    emit("Date_toIsoString", iso)

    txt = "\n".join(out) + "\n"
    path = os.path.join(cxxast.ROOT, "coq/Gen_C20Ts.v")
    old = open(path).read() if os.path.exists(path) else None
    if old != txt:
        open(path, "w").write(txt)
    for f in fallbacks:
        print("FALLBACK", f)
    return 0


TUS = ["muduo/base/Date.cc", "muduo/base/Date.h", "muduo/base/TimeZone.cc", "muduo/base/Timestamp.cc", "muduo/base/Timestamp.h",
       "muduo/net/Endian.h", "muduo/net/SocketsOps.cc", "muduo/net/InetAddress.cc"]
OUTPUTS = ["coq/Gen_C20.v", "coq/Gen_C20Net.v", "coq/Gen_C20Tz.v", "coq/Gen_C20Ts.v", "coq/Gen_C20Tzif.v"]


def _digest(paths):
    import hashlib
    h = hashlib.sha256()
    for q in paths:
        h.update(q.encode() + b"\0")
        try:
            h.update(open(q, "rb").read())
        except OSError:
            h.update(b"<missing>")
        h.update(b"\0")
    return h.hexdigest()


def _all_inputs():
    """Every file clang reads for the translated translation units of the CURRENT tree (VERIF_REPO): the
    preprocessor's own dependency list (`clang++ -M`, same flags as the AST dump), system headers included,
    recomputed on every run; plus the translator itself.  None if the list cannot be obtained."""
    import subprocess
    files = set()
    for tu in TUS:
        path = os.path.join(cxxast.REPO, tu)
        cmd = ["clang++", "-std=c++11", "-I" + cxxast.REPO, "-w", "-M", "-x", "c++", path]
        try:
            pr = subprocess.run(cmd, stdout=subprocess.PIPE, stderr=subprocess.PIPE, timeout=120)
        except Exception:  # noqa
            return None
        if pr.returncode != 0:
            return None
        toks = pr.stdout.decode("utf-8", "replace").replace("\\\n", " ").split()
        for t in toks[1:]:
            files.add(os.path.realpath(t))
        files.add(os.path.realpath(path))
    here = os.path.dirname(os.path.abspath(__file__))
    return sorted(files) + [os.path.join(here, "gen_C20.py"), os.path.join(here, "cxxast.py")]


def run_all():
    """The translations are pure functions of the files clang reads and of the translator.  The digest of
    every one of those files, byte for byte, of the CURRENT source tree is computed on every run; only when it
    and the digest of the outputs equal what the last complete run recorded are the outputs left as they are
    (and the FALLBACK lines of that run repeated).  Any edit of any input -- Date.cc, a muduo header, a system
    header -- or of an output forces a regeneration."""
    outs = [os.path.join(cxxast.ROOT, f) for f in OUTPUTS]
    stampdir = os.path.join(cxxast.ROOT, "_work")
    stamp = os.path.join(stampdir, "gen_C20.stamp")
    ins = _all_inputs()
    key = None if ins is None else os.path.realpath(cxxast.REPO) + "\n" + _digest(ins)
    if key is not None:
        try:
            old = open(stamp).read().split("\n---\n")
            if len(old) == 3 and old[0] == key and old[1] == _digest(outs):
                sys.stdout.write(old[2])
                return 0
        except OSError:
            pass
    import io, contextlib
    buf = io.StringIO()
    with contextlib.redirect_stdout(buf):
        rc = 0
        for part in (main, main_net, main_tz, main_ts, main_tzif):
            rc = part() or rc
    sys.stdout.write(buf.getvalue())
    if key is not None:
        try:
            os.makedirs(stampdir, exist_ok=True)
            with open(stamp, "w") as f:
                f.write(key + "\n---\n" + _digest(outs) + "\n---\n" + buf.getvalue())
        except OSError:
            pass
    return rc


# ==========================================================================================
# fifth output: coq/Gen_C20Tzif.v -- the TZif reader itself: detail::File::readInt64 / readInt32 / readUInt8 /
# readBytes / skip, detail::readDataBlock and detail::readTimeZoneFile translated statement by statement into a
# small reader monad.  What stays library semantics (C20_TzifModel: `readBytes` = fread of exactly n bytes or a
# short read, `skip` = fseek(SEEK_CUR), `addTransitions` = the loop over Data::addTransition with vector::at,
# the cursor) is C / libstdc++ behaviour, not muduo code.
#   rres A  = ROk value cursor | RThrow (std::logic_error and its subclasses) | RUndef (outside the C++ semantics)
#   dbres   = DbTrue table | DbFalse | DbThrow | DbUndef
# Statement forms understood (anything else: FALLBACK, the reference reader of C20_TzifModel is emitted):
#   const T x = <int expression>;                 let
#   const T x = f.readIntN() / readUInt8();       rbind
#   string s = f.readBytes(n); s = f.readBytes(n); f.readBytes(n); data->abbreviation = f.readBytes(n);
#   if (<count test>) return false;   if (s != "lit") throw std::logic_error(..);   if (s == "lit") {..} else {..}
#   std::vector<T> v;  v.reserve(n);              a negative n throws std::length_error
#   for (int i = 0; i < N; ++i) <body>  with body one of: push_back of `v1 ? readInt32 : readInt64`; push_back of
#       a readUInt8 local; gmtoff/isdst/abbrind + data->addLocalTime; data->addTransition(trans[i], localtimes[i])
#   f.skip(e);  if (!v1) { data->tzstring = f.readToEnd(); }  (never throws: no effect on the result)
#   return true / false / readDataBlock(f, data, flag);   try { } catch (std::logic_error&) { } return false;

TZIF_PRELUDE = """From Coq Require Import List ZArith Bool Arith.
From Coq.Strings Require Import Byte.
From Muduo Require Import Base_Bytes Gen_C20Net C20_Model Gen_C20Tz C20_TzifModel.
Import ListNotations.
Local Open Scope Z_scope.
Local Open Scope bool_scope.

Inductive rres (A : Type) := ROk (a : A) (c : cur) | RThrow | RUndef.
Arguments ROk {A} a c.
Arguments RThrow {A}.
Arguments RUndef {A}.
Inductive dbres := DbTrue (tb : tzdata) | DbFalse | DbThrow | DbUndef.

Definition rbind {A} (r : rres A) (k : A -> cur -> dbres) : dbres :=
  match r with ROk a c => k a c | RThrow => DbThrow | RUndef => DbUndef end.
Definition rbind' {A B} (r : rres A) (k : A -> cur -> rres B) : rres B :=
  match r with ROk a c => k a c | RThrow => RThrow | RUndef => RUndef end.
(* n reads in a row (a for loop whose body reads one item and appends it) *)
Fixpoint rmany {A} (rd1 : cur -> rres A) (n : nat) (c : cur) : rres (list A) :=
  match n with
  | O => ROk [] c
  | S k => rbind' (rd1 c) (fun x c1 => rbind' (rmany rd1 k c1) (fun xs c2 => ROk (x :: xs) c2))
  end.
(* value of an N-bit object: its bytes as they lie in memory (little-endian host), as unsigned / as signed *)
Definition obj_u (b : list byte) : Z := be_decode (rev b).
Definition sgn (w : Z) (x : Z) : Z := if x <? 2 ^ (w - 1) then x else x - 2 ^ w.
"""

TZIF_TWIN = """(* FALLBACK: the reference reader *)
Definition tzif_parse_g (file : list byte) : tzres := tzif_parse file.
"""


def main_tzif():
    rel = "muduo/base/TimeZone.cc"
    out = ["(* GENERATED by lib/gen_C20.py (main_tzif) from the current muduo sources (VERIF_REPO) -- do not edit *)", TZIF_PRELUDE]

    def method(name):
        res = []
        for d in cxxast.dump(rel, "muduo::detail::File"):
            for n in cxxast.walk(d):
                if n.get("kind") == "CXXMethodDecl" and n.get("name") == name and any(c.get("kind") == "CompoundStmt" for c in kids(n)):
                    res.append(n)
        if len(res) != 1:
            raise Untranslatable("File::%s: %d definitions" % (name, len(res)))
        return res[0]

    def calls_named(n, name):
        return [c for c in cxxast.walk(n) if c.get("kind") == "CallExpr" and cxxast.strip(kids(c)[0]).get("referencedDecl", {}).get("name") == name]

    def throws(n):
        return any(c.get("kind") == "CXXThrowExpr" for c in cxxast.walk(n)) and \
            any("logic_error" in c.get("type", {}).get("qualType", "") for c in cxxast.walk(n) if c.get("kind") == "CXXConstructExpr")

    WID = {"int64_t": 64, "long": 64, "int32_t": 32, "int": 32, "uint8_t": 8, "unsigned char": 8,
           "__uint64_t": 64, "__uint32_t": 32, "__uint16_t": 16, "uint64_t": 64, "uint32_t": 32, "unsigned long": 64, "unsigned int": 32}
    SIGNED = ("int64_t", "long", "int32_t", "int")

    def szof(n):
        n = cxxast.strip(n)
        if n.get("kind") == "UnaryExprOrTypeTraitExpr" and n.get("name") == "sizeof":
            t = base_type((n.get("argType") or {}).get("qualType", ""))
            if not t and kids(n):
                t = base_type(cxxast.strip(kids(n)[0]).get("type", {}).get("qualType", ""))
            if t in WID:
                return WID[t] // 8
        return cxxast.const_eval(n)

    def srcc(fn):
        return " ".join(re.sub(r"//[^\n]*", "", cxxast.src_text(fn, rel)).split()).replace("*)", "* )").replace("(*", "( *")[:2500]

    def scalar(name):
        """T x = 0; ssize_t nr = ::fread(&x, 1, sizeof(T), fp_); if (nr != sizeof(T)) throw std::logic_error(..); return E(x);"""
        fn = method(name)
        st = kids(cxxast.body(fn))
        if len(st) != 4 or st[0].get("kind") != "DeclStmt" or st[1].get("kind") != "DeclStmt" or st[2].get("kind") != "IfStmt" or st[3].get("kind") != "ReturnStmt":
            raise Untranslatable("File::%s: statement shape" % name)
        xv, nrv = kids(st[0])[0], kids(st[1])[0]
        xt = base_type(xv.get("type", {}).get("qualType", ""))
        if xt not in WID or cxxast.const_eval(kids(xv)[0]) != 0:
            raise Untranslatable("File::%s: object declaration" % name)
        w = WID[xt]
        fr = calls_named(nrv, "fread")
        if len(fr) != 1:
            raise Untranslatable("File::%s: fread" % name)
        a = kids(fr[0])
        tgt = cxxast.strip(a[1])
        if tgt.get("kind") != "UnaryOperator" or tgt.get("opcode") != "&" or cxxast.strip(kids(tgt)[0]).get("referencedDecl", {}).get("name") != xv["name"]:
            raise Untranslatable("File::%s: fread target" % name)
        if cxxast.const_eval(a[2]) != 1 or szof(a[3]) != w // 8 or not [m for m in cxxast.find(a[4], "MemberExpr") if m.get("name") == "fp_"]:
            raise Untranslatable("File::%s: fread arguments" % name)
        c = cxxast.strip(kids(st[2])[0])
        if c.get("kind") != "BinaryOperator" or c.get("opcode") != "!=" or cxxast.strip(kids(c)[0]).get("referencedDecl", {}).get("name") != nrv["name"] \
           or szof(kids(c)[1]) != w // 8 or not throws(kids(st[2])[1]) or len(kids(st[2])) != 2:
            raise Untranslatable("File::%s: short-read test" % name)

        def ex(n):
            k = n.get("kind")
            ks = kids(n)
            qt = base_type(n.get("type", {}).get("qualType", ""))
            if k in ("ParenExpr",):
                return ex(ks[0])
            if k in ("ImplicitCastExpr", "CStyleCastExpr", "CXXStaticCastExpr"):
                inner = ex(ks[0])
                ck = n.get("castKind")
                if ck in ("LValueToRValue", "NoOp"):
                    return inner
                if ck == "IntegralCast" and qt in WID:
                    u = "(wrap_u %d %s)" % (WID[qt], inner)
                    return "(sgn %d %s)" % (WID[qt], u) if qt in SIGNED else u
                raise Untranslatable("File::%s: cast %s to %s" % (name, ck, qt))
            if k == "DeclRefExpr" and n.get("referencedDecl", {}).get("name") == xv["name"]:
                return "(sgn %d x)" % w if xt in SIGNED else "x"
            if k == "CallExpr":
                nm = cxxast.strip(ks[0]).get("referencedDecl", {}).get("name") or ""
                m = re.match(r"__bswap_(16|32|64)$", nm)
                if m and len(ks) == 2:
                    return "(bswap_%s %s)" % (m.group(1), ex(ks[1]))
                if re.match(r"__uint(16|32|64)_identity$", nm) and len(ks) == 2:
                    return "(uint_identity %s)" % ex(ks[1])
            raise Untranslatable("File::%s: returned expression (%s)" % (name, k))
        rt = base_type(fn.get("type", {}).get("qualType", "").split("(")[0])
        e = ex(kids(st[3])[0])
        if rt not in WID:
            raise Untranslatable("File::%s: return type" % name)
        txt = "(* %s *)\n" % srcc(fn)
        txt += "Definition File_%s (c : cur) : rres Z :=\n  match readBytes %d c with\n  | Some (b, c') => let x := obj_u b in ROk %s c'\n  | None => RThrow\n  end.\n" % (name, w // 8, e)
        return txt

    def readbytes():
        """char buf[n]; ssize_t nr = ::fread(buf, 1, n, fp_); if (nr != n) throw ...; return string(buf, n);"""
        fn = method("readBytes")
        ps = [p_ for p_ in kids(fn) if p_.get("kind") == "ParmVarDecl"]
        st = kids(cxxast.body(fn))
        if len(ps) != 1 or len(st) != 4:
            raise Untranslatable("File::readBytes: shape")
        n_ = ps[0]["name"]
        bv, nrv = kids(st[0])[0], kids(st[1])[0]
        if not re.match(r"char\[%s\]$" % re.escape(n_), bv.get("type", {}).get("qualType", "")):
            raise Untranslatable("File::readBytes: buffer is not char[n]")
        fr = calls_named(nrv, "fread")
        a = kids(fr[0]) if len(fr) == 1 else []
        if not a or cxxast.strip(a[1]).get("referencedDecl", {}).get("name") != bv["name"] or cxxast.const_eval(a[2]) != 1 \
           or cxxast.strip(a[3]).get("referencedDecl", {}).get("name") != n_:
            raise Untranslatable("File::readBytes: fread arguments")
        c = cxxast.strip(kids(st[2])[0])
        if c.get("kind") != "BinaryOperator" or c.get("opcode") != "!=" or \
           [cxxast.strip(x).get("referencedDecl", {}).get("name") for x in kids(c)] != [nrv["name"], n_] or not throws(kids(st[2])[1]):
            raise Untranslatable("File::readBytes: short-read test")
        refs = [x.get("referencedDecl", {}).get("name") for x in cxxast.find(st[3], "DeclRefExpr")]
        if st[3].get("kind") != "ReturnStmt" or refs != [bv["name"], n_]:
            raise Untranslatable("File::readBytes: return string(buf, n)")
        txt = "(* %s *)\n" % srcc(fn)
        txt += "Definition File_readBytes (n : Z) (c : cur) : rres (list byte) :=\n  if n <=? 0 then RUndef   (* char buf[n]: the bound of a variable-length array must be positive *)\n" \
               "  else match readBytes (Z.to_nat n) c with Some (b, c') => ROk b c' | None => RThrow end.\n"
        return txt

    def skipfn():
        fn = method("skip")
        ps = [p_ for p_ in kids(fn) if p_.get("kind") == "ParmVarDecl"]
        fs = calls_named(fn, "fseek")
        if len(ps) != 1 or len(fs) != 1:
            raise Untranslatable("File::skip: shape")
        a = kids(fs[0])
        if cxxast.strip(a[2]).get("referencedDecl", {}).get("name") != ps[0]["name"] or cxxast.const_eval(a[3]) != 1:
            raise Untranslatable("File::skip: not fseek(fp_, bytes, SEEK_CUR)")
        txt = "(* %s *)\n" % srcc(fn)
        txt += "Definition File_skip (file : list byte) (bytes : Z) (c : cur) : cur := skip file bytes c.\n"
        return txt

    class St:
        def __init__(self):
            self.k = 0            # cursor counter
            self.ints = {}        # C++ int variable -> Gallina name
            self.bools = {}
            self.strs = {}
            self.vecs = {}        # local vector -> Gallina list name or None (still empty)
            self.offs = None      # data->localtimes (offsets)
            self.trs = None       # data->transitions

        def copy(self):
            o = St()
            o.__dict__.update({k: (dict(v) if isinstance(v, dict) else v) for k, v in self.__dict__.items()})
            return o

        def cur(self):
            return "c%d" % self.k

    class IntEx:
        def __init__(self, st):
            self.st = st
            self.int_mults = []

        def tr(self, n):
            k = n.get("kind")
            ks = kids(n)
            if k in ("ImplicitCastExpr", "ParenExpr", "CStyleCastExpr", "CXXStaticCastExpr"):
                return self.tr(ks[0])
            if k == "IntegerLiteral":
                v = int(n["value"])
                return "(%d)" % v if v < 0 else str(v)
            if k == "UnaryExprOrTypeTraitExpr":
                return str(cxxast.const_eval(n))
            if k == "DeclRefExpr":
                nm = n.get("referencedDecl", {}).get("name")
                if nm in self.st.ints:
                    return self.st.ints[nm]
                raise Untranslatable("name %s in an integer expression" % nm)
            if k == "UnaryOperator" and n.get("opcode") == "-":
                return "(- %s)" % self.tr(ks[0])
            if k == "ConditionalOperator":
                c = cxxast.strip(ks[0]).get("referencedDecl", {}).get("name")
                if c in self.st.bools:
                    return "(if %s then %s else %s)" % (self.st.bools[c], self.tr(ks[1]), self.tr(ks[2]))
            if k == "BinaryOperator" and n.get("opcode") in ("+", "-", "*"):
                t = "(%s %s %s)" % (self.tr(ks[0]), n["opcode"], self.tr(ks[1]))
                if n["opcode"] == "*" and base_type(n.get("type", {}).get("qualType", "")) in INT32 + ("int32_t",):
                    lits = [cxxast.strip(x).get("kind") == "IntegerLiteral" for x in ks]
                    if not all(lits):
                        self.int_mults.append(t)
                return t
            raise Untranslatable("integer expression kind %s" % k)

        def cond(self, n):
            n2 = cxxast.strip(n)
            if n2.get("kind") == "BinaryOperator":
                op = n2["opcode"]
                a, b = kids(n2)
                if op in ("&&", "||"):
                    return "(%s %s %s)" % (self.cond(a), op, self.cond(b))
                m = {"!=": "(negb (%s =? %s))", "==": "(%s =? %s)", "<": "(%s <? %s)", "<=": "(%s <=? %s)", ">": "(%s >? %s)", ">=": "(%s >=? %s)"}
                if op in m:
                    return m[op] % (self.tr(a), self.tr(b))
            raise Untranslatable("integer condition")

    def fcall(n):
        """(method, argument nodes) of `f.m(args)`"""
        n = cxxast.strip(n)
        while n.get("kind") in ("CXXBindTemporaryExpr", "MaterializeTemporaryExpr", "ExprWithCleanups", "CXXConstructExpr") and len(kids(n)) == 1:
            n = cxxast.strip(kids(n)[0])
        if n.get("kind") == "CXXMemberCallExpr" and kids(n)[0].get("kind") == "MemberExpr":
            obj = cxxast.strip(kids(kids(n)[0])[0])
            if obj.get("referencedDecl", {}).get("name") == "f":
                return kids(n)[0].get("name"), kids(n)[1:]
        return None, None

    READERS = {"readInt32": "File_readInt32", "readInt64": "File_readInt64", "readUInt8": "File_readUInt8"}

    def string_cmp(n):
        c = cxxast.strip(n)
        if c.get("kind") == "CXXOperatorCallExpr":
            op = cxxast.strip(kids(c)[0]).get("referencedDecl", {}).get("name")
            v = cxxast.strip(kids(c)[1]).get("referencedDecl", {}).get("name")
            ls = [x for x in cxxast.walk(kids(c)[2]) if x.get("kind") == "StringLiteral"]
            if op in ("operator!=", "operator==") and len(ls) == 1:
                return op, v, [ord(ch) for ch in json_string(ls[0]["value"])]
        return None, None, None

    def zl(l):
        return "[" + "; ".join(str(x) for x in l) + "]"

    def block(stmts, st, ind):
        pad = "  " * ind
        if not stmts:
            raise Untranslatable("control reaches the end of a block without return")
        s_, rest = stmts[0], stmts[1:]
        k = s_.get("kind")
        if k == "CompoundStmt":
            return block(kids(s_) + rest, st, ind)
        if k in ("ExprWithCleanups", "CXXBindTemporaryExpr") and len(kids(s_)) == 1:
            return block([kids(s_)[0]] + rest, st, ind)
        st = st.copy()
        if k == "DeclStmt":
            v = kids(s_)[0]
            if len(kids(s_)) != 1 or v.get("kind") != "VarDecl":
                raise Untranslatable("declaration")
            qt = v.get("type", {}).get("qualType", "")
            bt = base_type(qt)
            init = kids(v)
            if "std::vector" in qt:
                if init and not (cxxast.strip(init[0]).get("kind") == "CXXConstructExpr" and not kids(cxxast.strip(init[0]))):
                    raise Untranslatable("vector with an initialiser")
                st.vecs[v["name"]] = None
                return block(rest, st, ind)
            m, args = fcall(init[0]) if init else (None, None)
            if m in READERS and not args:
                nm = ident(v["name"])
                c0 = st.cur()
                st.k += 1
                st.ints[v["name"]] = nm
                return pad + "rbind (%s %s) (fun %s %s =>\n" % (READERS[m], c0, nm, st.cur()) + block(rest, st, ind) + ")"
            if m == "readBytes" and len(args) == 1 and "string" in qt:
                nm = ident(v["name"])
                c0 = st.cur()
                n_ = IntEx(st).tr(args[0])
                st.k += 1
                st.strs[v["name"]] = nm
                return pad + "rbind (File_readBytes %s %s) (fun %s %s =>\n" % (n_, c0, nm, st.cur()) + block(rest, st, ind) + ")"
            if bt in INT32 + INT64 + ("int32_t", "size_t", "unsigned long") and init:
                ie = IntEx(st)
                t = ie.tr(init[0])
                nm = ident(v["name"])
                st.ints[v["name"]] = nm
                guard = ""
                if ie.int_mults:
                    guard = pad + "if negb (%s) then DbUndef   (* multiplication carried out in int *)\n" % " && ".join("fits_int %s" % x for x in ie.int_mults) + pad + "else\n"
                return guard + pad + "let %s := %s in\n" % (nm, t) + block(rest, st, ind)
            raise Untranslatable("declaration of %s : %s" % (v.get("name"), qt))
        if k == "IfStmt":
            ks = kids(s_)
            op, sv, lit = string_cmp(ks[0])
            if op == "operator!=" and sv in st.strs and len(ks) == 2 and throws(ks[1]):
                return pad + "if negb (bytes_eqb %s (chars %s)) then DbThrow\n" % (st.strs[sv], zl(lit)) + pad + "else\n" + block(rest, st, ind)
            if op == "operator==" and sv in st.strs and len(ks) == 3:
                return pad + "if bytes_eqb %s (chars %s) then\n" % (st.strs[sv], zl(lit)) + block([ks[1]] + rest, st, ind + 1) + "\n" + pad + "else\n" + block([ks[2]] + rest, st, ind + 1)
            c = cxxast.strip(ks[0])
            if len(ks) == 2 and c.get("kind") == "UnaryOperator" and c.get("opcode") == "!" and \
               cxxast.strip(kids(c)[0]).get("referencedDecl", {}).get("name") in st.bools:
                inner = kids(ks[1]) if ks[1].get("kind") == "CompoundStmt" else [ks[1]]
                ok = len(inner) == 1 and [x for x in cxxast.find(inner[0], "MemberExpr") if x.get("name") == "readToEnd"] \
                    and [x for x in cxxast.find(inner[0], "MemberExpr") if x.get("name") == "tzstring"]
                if ok:
                    return pad + "(* if (!v1) data->tzstring = f.readToEnd(): never throws, the footer is not part of the table *)\n" + block(rest, st, ind)
                raise Untranslatable("if (!flag) with an unrecognised body")
            if len(ks) == 2:
                body = kids(ks[1])[0] if ks[1].get("kind") == "CompoundStmt" and len(kids(ks[1])) == 1 else ks[1]
                if body.get("kind") == "ReturnStmt" and cxxast.strip(kids(body)[0]).get("kind") == "CXXBoolLiteralExpr" and not cxxast.strip(kids(body)[0]).get("value"):
                    return pad + "if %s then DbFalse\n" % IntEx(st).cond(ks[0]) + pad + "else\n" + block(rest, st, ind)
            raise Untranslatable("if statement")
        if k == "CXXMemberCallExpr":
            me = kids(s_)[0]
            m = me.get("name")
            if m == "reserve" and len(kids(s_)) == 2:
                n_ = IntEx(st).tr(kids(s_)[1])
                return pad + "if %s <? 0 then DbThrow   (* vector::reserve: std::length_error *)\n" % n_ + pad + "else\n" + block(rest, st, ind)
            fm, args = fcall(s_)
            if fm == "skip" and len(args) == 1:
                e = IntEx(st).tr(args[0])
                c0 = st.cur()
                st.k += 1
                return pad + "let %s := File_skip file %s %s in\n" % (st.cur(), e, c0) + block(rest, st, ind)
            if fm == "readBytes" and len(args) == 1:
                c0 = st.cur()
                n_ = IntEx(st).tr(args[0])
                st.k += 1
                return pad + "rbind (File_readBytes %s %s) (fun _ %s =>\n" % (n_, c0, st.cur()) + block(rest, st, ind) + ")"
            raise Untranslatable("member call %s" % m)
        if k == "CXXOperatorCallExpr":
            ks = kids(s_)
            callee = cxxast.strip(ks[0]).get("referencedDecl", {}).get("name")
            if callee == "operator=" and len(ks) == 3:
                fm, args = fcall(ks[2])
                tgt = cxxast.strip(ks[1])
                if fm == "readBytes" and len(args) == 1:
                    c0 = st.cur()
                    n_ = IntEx(st).tr(args[0])
                    st.k += 1
                    if tgt.get("kind") == "DeclRefExpr" and tgt["referencedDecl"]["name"] in st.strs:
                        nm = st.strs[tgt["referencedDecl"]["name"]]
                        return pad + "rbind (File_readBytes %s %s) (fun %s %s =>\n" % (n_, c0, nm, st.cur()) + block(rest, st, ind) + ")"
                    if tgt.get("kind") == "MemberExpr" and tgt.get("name") == "abbreviation":
                        return pad + "rbind (File_readBytes %s %s) (fun _ %s =>   (* data->abbreviation *)\n" % (n_, c0, st.cur()) + block(rest, st, ind) + ")"
            raise Untranslatable("operator statement %s" % callee)
        if k == "ForStmt":
            fk = s_.get("inner", [])
            if len(fk) != 5 or not isinstance(fk[0], dict) or not isinstance(fk[2], dict):
                raise Untranslatable("for statement shape")
            iv = kids(fk[0])[0]
            c2 = cxxast.strip(fk[2])
            inc = cxxast.strip(fk[3])
            if cxxast.const_eval(kids(iv)[0]) != 0 or c2.get("kind") != "BinaryOperator" or c2.get("opcode") != "<" or \
               cxxast.strip(kids(c2)[0]).get("referencedDecl", {}).get("name") != iv["name"] or inc.get("opcode") != "++":
                raise Untranslatable("loop is not for (int i = 0; i < N; ++i)")
            N = IntEx(st).tr(kids(c2)[1])
            body = kids(fk[4]) if fk[4].get("kind") == "CompoundStmt" else [fk[4]]
            c0 = st.cur()
            # (a) if (flag) v.push_back(f.readInt32()); else v.push_back(f.readInt64());
            if len(body) == 1 and body[0].get("kind") == "IfStmt" and len(kids(body[0])) == 3:
                flag = cxxast.strip(kids(body[0])[0]).get("referencedDecl", {}).get("name")
                vec = None
                rd = []
                for br in kids(body[0])[1:]:
                    pb = [c for c in cxxast.walk(br) if c.get("kind") == "CXXMemberCallExpr" and kids(c)[0].get("name") == "push_back"]
                    if len(pb) != 1:
                        raise Untranslatable("loop branch is not a single push_back")
                    v_ = cxxast.strip(kids(kids(pb[0])[0])[0]).get("referencedDecl", {}).get("name")
                    vec = v_ if vec in (None, v_) else "?"
                    fm, args = fcall(kids(pb[0])[1])
                    if fm not in READERS or args:
                        raise Untranslatable("pushed value is not a read")
                    rd.append(READERS[fm])
                if flag in st.bools and vec in st.vecs and st.vecs[vec] is None:
                    nm = ident(vec)
                    st.k += 1
                    st.vecs[vec] = nm
                    return pad + "rbind (rmany (if %s then %s else %s) (Z.to_nat %s) %s) (fun %s %s =>\n" % (st.bools[flag], rd[0], rd[1], N, c0, nm, st.cur()) + block(rest, st, ind) + ")"
                raise Untranslatable("conditional read loop")
            if len(body) == 2 and body[0].get("kind") == "DeclStmt":
                lv = kids(body[0])[0]
                fm, args = fcall(kids(lv)[0]) if kids(lv) else (None, None)
                b1 = body[1]
                while b1.get("kind") in ("ExprWithCleanups",) and len(kids(b1)) == 1:
                    b1 = kids(b1)[0]
                # (b) T local = f.readUInt8(); v.push_back(local);
                if fm in READERS and not args and b1.get("kind") == "CXXMemberCallExpr" and kids(b1)[0].get("name") == "push_back":
                    vec = cxxast.strip(kids(kids(b1)[0])[0]).get("referencedDecl", {}).get("name")
                    arg = [x.get("referencedDecl", {}).get("name") for x in cxxast.find(kids(b1)[1], "DeclRefExpr")]
                    if vec in st.vecs and st.vecs[vec] is None and arg == [lv["name"]]:
                        nm = ident(vec)
                        st.k += 1
                        st.vecs[vec] = nm
                        return pad + "rbind (rmany %s (Z.to_nat %s) %s) (fun %s %s =>\n" % (READERS[fm], N, c0, nm, st.cur()) + block(rest, st, ind) + ")"
                # (d) int localIdx = localtimes[i]; data->addTransition(trans[i], localIdx);
                adds = [c for c in cxxast.walk(body[1]) if c.get("kind") == "CXXMemberCallExpr" and kids(c)[0].get("name") == "addTransition"]
                if len(adds) == 1 and st.offs is not None:
                    def indexed(n):
                        n = cxxast.strip(n)
                        if n.get("kind") == "CXXOperatorCallExpr" and cxxast.strip(kids(n)[0]).get("referencedDecl", {}).get("name") == "operator[]":
                            v_ = cxxast.strip(kids(n)[1]).get("referencedDecl", {}).get("name")
                            i_ = cxxast.strip(kids(n)[2]).get("referencedDecl", {}).get("name")
                            if i_ == iv["name"] and st.vecs.get(v_):
                                return st.vecs[v_]
                        return None
                    idxv = indexed(kids(lv)[0])
                    a = kids(adds[0])[1:]
                    tv = indexed(a[0])
                    a1 = [x.get("referencedDecl", {}).get("name") for x in cxxast.find(a[1], "DeclRefExpr")]
                    if idxv and tv and a1 == [lv["name"]]:
                        st.trs = "trs"
                        return (pad + "match addTransitions %s (firstn (Z.to_nat %s) %s) (firstn (Z.to_nat %s) %s) with   (* Data::addTransition: localtimes.at(idx), utcTime + utcOffset *)\n" % (st.offs, N, tv, N, idxv) +
                                pad + "| AddFail => DbThrow\n" + pad + "| AddUndefined => DbUndef\n" + pad + "| AddOk trs =>\n" + block(rest, st, ind + 1) + "\n" + pad + "end")
            # (c) gmtoff = readInt32; isdst = readUInt8; abbrind = readUInt8; data->addLocalTime(gmtoff, isdst, abbrind);
            if len(body) == 4 and all(b.get("kind") == "DeclStmt" for b in body[:3]):
                lvs = [kids(b)[0] for b in body[:3]]
                rds = []
                for lv in lvs:
                    fm, args = fcall(kids(lv)[0]) if kids(lv) else (None, None)
                    if fm not in READERS or args:
                        raise Untranslatable("ttinfo loop: declaration is not a read")
                    rds.append(READERS[fm])
                al = [c for c in cxxast.walk(body[3]) if c.get("kind") == "CXXMemberCallExpr" and kids(c)[0].get("name") == "addLocalTime"]
                if len(al) == 1:
                    an = [[x.get("referencedDecl", {}).get("name") for x in cxxast.find(a_, "DeclRefExpr")] for a_ in kids(al[0])[1:]]
                    if an == [[lv["name"]] for lv in lvs] and st.offs is None:
                        st.k += 1
                        st.offs = "offs"
                        one_ = "(fun c => rbind' (%s c) (fun %s c => rbind' (%s c) (fun _ c => rbind' (%s c) (fun _ c => ROk %s c))))" % (
                            rds[0], ident(lvs[0]["name"]), rds[1], rds[2], ident(lvs[0]["name"]))
                        return pad + "rbind (rmany %s (Z.to_nat %s) %s) (fun offs %s =>   (* data->addLocalTime(gmtoff, isdst, abbrind) *)\n" % (one_, N, c0, st.cur()) + block(rest, st, ind) + ")"
            raise Untranslatable("unrecognised loop body")
        if k == "ReturnStmt":
            e = cxxast.strip(kids(s_)[0])
            if e.get("kind") == "CXXBoolLiteralExpr":
                if not e.get("value"):
                    return pad + "DbFalse"
                if st.offs is None or st.trs is None:
                    raise Untranslatable("return true before the table is filled")
                return pad + "DbTrue (mkTz %s %s)" % (st.trs, st.offs)
            if e.get("kind") == "CallExpr" and cxxast.strip(kids(e)[0]).get("referencedDecl", {}).get("name") == "readDataBlock":
                flag = cxxast.strip(kids(e)[3])
                if flag.get("kind") == "CXXBoolLiteralExpr":
                    return pad + "readDataBlock_g file %s %s" % (st.cur(), "true" if flag.get("value") else "false")
            raise Untranslatable("return statement")
        raise Untranslatable("statement kind %s" % k)

    fallback = None
    try:
        parts = [scalar("readInt64"), scalar("readInt32"), scalar("readUInt8"), readbytes(), skipfn()]
        fn = cxxast.function_decl(rel, "muduo::detail::readDataBlock")
        ps = [p_ for p_ in kids(fn) if p_.get("kind") == "ParmVarDecl"]
        if len(ps) != 3 or ps[0]["name"] != "f" or ps[2].get("type", {}).get("qualType") != "bool":
            raise Untranslatable("parameters of readDataBlock")
        st = St()
        st.bools[ps[2]["name"]] = ident(ps[2]["name"])
        body = block(kids(cxxast.body(fn)), st, 1)
        parts.append("(* %s *)\nDefinition readDataBlock_g (file : list byte) (c0 : cur) (%s : bool) : dbres :=\n%s.\n" % (srcc(fn), ident(ps[2]["name"]), body))
        fn2 = cxxast.function_decl(rel, "muduo::detail::readTimeZoneFile")
        top = kids(cxxast.body(fn2))
        # File f(zonefile); if (f.valid()) { try { ... } catch (std::logic_error& e) { ... } } return false;
        if len(top) != 3 or top[1].get("kind") != "IfStmt" or top[2].get("kind") != "ReturnStmt" or cxxast.strip(kids(top[2])[0]).get("value"):
            raise Untranslatable("shape of readTimeZoneFile")
        fv = kids(top[0])[0]
        if fv.get("name") != "f" or "File" not in fv.get("type", {}).get("qualType", ""):
            raise Untranslatable("File f(zonefile)")
        if not [x for x in cxxast.find(kids(top[1])[0], "MemberExpr") if x.get("name") == "valid"]:
            raise Untranslatable("if (f.valid())")
        thenb = kids(top[1])[1]
        trys = [n for n in kids(thenb) if n.get("kind") == "CXXTryStmt"] if thenb.get("kind") == "CompoundStmt" else []
        if len(trys) != 1 or len(kids(thenb)) != 1:
            raise Untranslatable("try block")
        tk = kids(trys[0])
        catches = [c for c in tk[1:] if c.get("kind") == "CXXCatchStmt"]
        if len(catches) != 1 or "logic_error" not in (kids(catches[0])[0].get("type", {}).get("qualType", "")):
            raise Untranslatable("catch (std::logic_error&)")
        if any(x.get("kind") in ("ReturnStmt", "CXXThrowExpr") for x in cxxast.walk(catches[0])):
            raise Untranslatable("the handler returns or rethrows")
        st2 = St()
        body2 = block(kids(tk[0]), st2, 2)
        parts.append("(* %s *)\nDefinition tzif_parse_g (file : list byte) : tzres :=\n  let c0 := mkCur 0 file in\n  match (\n%s) with\n  | DbTrue tb => TzOk tb\n  | DbFalse => TzFail\n  | DbThrow => TzFail     (* catch (std::logic_error&): falls through to `return false` *)\n  | DbUndef => TzUndefined\n  end.\n" % (srcc(fn2), body2))
        out += parts
    except Exception as e:  # noqa
        fallback = str(e)
        out.append("(* FALLBACK tzif reader: %s *)\n%s" % (fallback.replace("*)", ""), TZIF_TWIN))
    txt = "\n".join(out) + "\n"
    path = os.path.join(cxxast.ROOT, "coq/Gen_C20Tzif.v")
    old = open(path).read() if os.path.exists(path) else None
    if old != txt:
        open(path, "w").write(txt)
    if fallback:
        print("FALLBACK tzif_parse_g:", fallback)
    return 0


if __name__ == "__main__":
    sys.exit(run_all())
