"""looplib: shared Python side of the C04 / C05 checks (owner: C04/C05).
Cases for harness/C04_driver.cc (real EventLoop / EventLoopThread / EventLoopThreadPool under the
controlled scheduler), running, trace validation by the extracted LoopModel, and the property
oracles (written against the property texts, independent of the Coq model)."""
import os, re, glob
import vlib, schedlib

INSTR_FLAGS = ["-finstrument-functions", "-finstrument-functions-exclude-file-list=harness/,/usr/"]


def build_impl():
    """The driver + the scheduler + EventLoop.cc / EventLoopThread.cc of the CURRENT repo compiled
    with -finstrument-functions (schedule points at function entries; no hook in /repo)."""
    return vlib.build_driver(
        "C04_driver",
        ["C04_driver.cc"] + schedlib.SOURCES +
        [os.path.join(vlib.REPO, "muduo/net/EventLoop.cc"), os.path.join(vlib.REPO, "muduo/net/EventLoopThread.cc")],
        variant="asan", components=("base", "net"), extra_flags=schedlib.IO_FLAGS + INSTR_FLAGS,
        wrap=schedlib.WRAP + schedlib.WRAP_IO)


# ------------------------------------------------------------------------------------ cases
def acts_text(acts):
    return " ; ".join(acts) if acts else "-"


def mkcase(cid, kind, source, prefix=(), threads=(), scripts=None, poller="epoll", pts=1, steps=4000, tag="",
           n=0, calls=0, hashes=(), later=()):
    hdr = "kind=%s poller=%s pts=%d steps=%d" % (kind, poller, pts, steps)
    if kind == "pool":
        hdr += " n=%d calls=%d" % (n, calls)
    hdr += " sched=%s" % source
    ops = ["P " + acts_text(list(prefix))]
    for seg in later:
        ops.append("L " + acts_text(list(seg)))
    for t in threads:
        ops.append("T " + acts_text(list(t)))
    for k in sorted((scripts or {}).keys()):
        ops.append("S %d %s" % (k, acts_text(list(scripts[k]))))
    if hashes:
        ops.append("H " + " ".join(str(h) for h in hashes))
    return vlib.Case(cid, hdr, ops, tag)


def hdr_get(header, key, default=None):
    for t in header.split():
        if t.startswith(key + "="):
            return t[len(key) + 1:]
    return default


def parse_case(case):
    prefix, threads, scripts, hashes = [], [], {}, []
    def acts(ws):
        res, cur = [], []
        for w in ws:
            if w == ";":
                if cur:
                    res.append(" ".join(cur))
                cur = []
            elif w == "-":
                continue
            else:
                cur.append(w)
        if cur:
            res.append(" ".join(cur))
        return res
    for line in case.ops:
        w = line.split()
        if not w:
            continue
        if w[0] == "P":
            prefix = acts(w[1:])
        elif w[0] == "T":
            threads.append(acts(w[1:]))
        elif w[0] == "S":
            scripts[int(w[1])] = acts(w[2:])
        elif w[0] == "H":
            hashes = [int(x) for x in w[1:]]
    return prefix, threads, scripts, hashes


def later_of(case):
    """the segments between successive calls of loop() (L lines)"""
    res = []
    for line in case.ops:
        w = line.split()
        if w and w[0] == "L":
            res.append([a.strip() for a in " ".join(w[1:]).split(";") if a.strip() and a.strip() != "-"])
    return res


class LoopRun(schedlib.Run):
    __slots__ = ("stuck", "uaf", "extra")

    def __init__(self, lines):
        schedlib.Run.__init__(self, lines)
        self.stuck, self.uaf, self.extra = None, None, []
        for ln in lines:
            if ln.startswith("STUCK"):
                self.stuck = dict(t.split("=") for t in ln.split()[1:])
            elif ln.startswith("e ") and " UAF " in ln:
                self.uaf = ln
            elif ln.startswith(("pool ", "next", "hash")):
                self.extra.append(ln)


class Runner:
    def __init__(self, impl, model=None):
        self.impl, self.model = impl, model
        self.nimpl = 0

    def run_impl(self, cases, jobs=None):
        outs, crashes = vlib.run_batch_parallel(self.impl, cases, jobs=jobs, timeout=1200)
        self.nimpl += len(cases)
        res = {}
        for c in cases:
            if c.cid in outs:
                res[c.cid] = LoopRun(outs[c.cid][1:])
            else:
                r = LoopRun([])
                r.crash = "CRASH driver died: %s" % (crashes.get(c.cid, ("?", "", []))[1][-300:],)
                res[c.cid] = r
        return res

    def run_model(self, cases, runs):
        mcases = []
        for c in cases:
            r = runs[c.cid]
            body = [l for l in r.lines if l and l != "end" and not l.startswith("case ")]
            mcases.append(vlib.Case(c.cid, c.header, c.ops + ["trace"] + body))
        outs, crashes = vlib.run_batch_parallel(self.model, mcases, timeout=1200,
                                                pre=["bash", "-c", 'ulimit -s unlimited 2>/dev/null; exec "$0"'])
        res = {}
        for c in cases:
            lines = outs.get(c.cid)
            if lines is None or len(lines) < 2:
                res[c.cid] = "REJECT model runner failed: %r" % (crashes.get(c.cid),)
            else:
                res[c.cid] = lines[1]
        return res


# ------------------------------------------------------------------------------------ oracles
# A finding is reported as (key, message); key None = a plain violation.
F2_KEY = "queue-before-loop-not-woken"
F3_KEY = "quit-before-loop-reset"
F4_KEY = "quit-wakeup-after-loop-destroyed"


def events_of(run):
    """[(thread, words)] of the driver's event lines in global order, with their position among
    all lines (so that they can be ordered against trace lines)."""
    res = []
    for pos, ln in enumerate(run.lines):
        if ln.startswith("e T"):
            w = ln.split()
            res.append((pos, int(w[1][1:]), w[2:]))
    return res


def oracle_tasks(case, run, loop_thread=0):
    """C04's text on one kind=loop / kind=elt run.  Returns list of (key, message)."""
    bad = []
    prefix, threads, scripts, _ = parse_case(case)
    if run.crash:
        return [(None, "implementation crashed / sanitizer report: %s" % run.crash)]
    if not run.complete:
        return [(None, "incomplete output")]
    if run.steplimit:
        return [(None, "livelock: the loop keeps iterating without anything to do (step limit; iteration() grows while idle)")]
    evs = events_of(run)
    # --- exactly once / on the loop thread
    calls, rets, execs = {}, {}, []      # task -> [positions]
    ncalls = {}
    for pos, ti, w in evs:
        if w[0] == "call" and w[1] in ("q", "r"):
            calls.setdefault(int(w[2]), []).append((pos, ti, w[1]))
        elif w[0] == "ret" and w[1] in ("q", "r"):
            rets.setdefault(int(w[2]), []).append((pos, ti, w[1]))
        elif w[0] == "x":
            execs.append((pos, ti, int(w[1])))
    for pos, ti, t in execs:
        if ti != loop_thread:
            bad.append((None, "task %d executed on T%d, not on the loop thread T%d" % (t, ti, loop_thread)))
    nexec = {}
    for pos, ti, t in execs:
        nexec[t] = nexec.get(t, 0) + 1
    for t, n in nexec.items():
        if n > len(calls.get(t, [])):
            bad.append((None, "task %d executed %d times, submitted %d times" % (t, n, len(calls.get(t, [])))))
    # --- order: a submission through queueInLoop that returned before another one was called runs first;
    #     per thread: program order.  Only meaningful for tasks submitted once.
    once = [t for t in calls if len(calls[t]) == 1]
    exec_pos = {}
    for pos, ti, t in execs:
        exec_pos.setdefault(t, pos)
    queued = []   # tasks that went through the queue: q always; r only from a foreign thread
    for t in once:
        (pos, ti, kind) = calls[t][0]
        if kind == "q" or ti != loop_thread:
            queued.append(t)
    for a in queued:
        if a not in rets or a not in exec_pos:
            continue
        ra = rets[a][0][0]
        for b in queued:
            if b == a or b not in exec_pos:
                continue
            if ra < calls[b][0][0] and not exec_pos[a] < exec_pos[b]:
                bad.append((None, "order: task %d was queued (returned) before task %d was submitted, but ran after it" % (a, b)))
    for a in queued:
        if a in exec_pos:
            continue
        # a unexecuted: nothing queued strictly later may have run ... only if the loop ran on
        ra = rets.get(a, [(10 ** 9,)])[0][0]
        for b in queued:
            if b != a and b in exec_pos and ra < calls[b][0][0]:
                bad.append((None, "order: task %d (queued earlier) never ran although the later task %d did" % (a, b)))
    # --- runInLoop on the loop thread is synchronous
    for t in calls:
        for (pos, ti, kind) in calls[t]:
            if kind == "r" and ti == loop_thread:
                nxt = [e for e in evs if e[0] > pos and e[1] == ti]
                if not nxt or nxt[0][2][:2] != ["x", str(t)]:
                    bad.append((None, "runInLoop(%d) on the loop thread did not run its functor synchronously" % t))
    # --- without delay: the process is fully blocked while tasks are queued
    if run.deadlock:
        bad.append((None, "DEADLOCK: %s" % "; ".join("T%d %s" % (k, " ".join(v)) for k, v in sorted(run.pending.items()))))
    if run.stuck is not None:
        q = int(run.stuck.get("q", "0"))
        looping = run.stuck.get("loop") == "1"
        if q > 0 and looping:
            # classify: is it the pre-loop case (F-2)?  every unexecuted task was queued by the loop thread
            # itself while it was not inside loop() (before the first call or between two calls)
            pre = False
            inside, outside_pos = False, set()
            for pos, ti, w in evs:
                if ti == loop_thread and w[0] == "enter":
                    inside = True
                elif ti == loop_thread and w[0] == "loop-returned":
                    inside = False
                elif ti == loop_thread and w[0] == "call" and not inside:
                    outside_pos.add(pos)
            unexec = [t for t in calls if nexec.get(t, 0) < len(calls[t])]
            if unexec and all(all(p in outside_pos and ti == loop_thread for (p, ti, k) in calls[t]) for t in unexec):
                pre = True
            msg = ("STALL: every thread is blocked, the loop sits in poll (only the 10 s time-out can end it) with %d "
                   "task(s) in the queue: %s" % (q, sorted(unexec)))
            bad.append((F2_KEY if pre else None, msg + (" - queued on the loop thread before loop() was entered" if pre else "")))
    elif not run.deadlock and not run.steplimit:
        # the loop was quit: nothing to say about unexecuted tasks
        pass
    # idle without quit: every submitted task ran exactly once
    if run.stuck is not None and int(run.stuck.get("q", "0")) == 0 and run.stuck.get("loop") == "1":
        for t in calls:
            if nexec.get(t, 0) != len(calls[t]) and len(rets.get(t, [])) == len(calls[t]):
                bad.append((None, "task %d submitted %d times, executed %d times although the loop is idle and alive"
                            % (t, len(calls[t]), nexec.get(t, 0))))
    return bad


def oracle_quit(case, run, kind):
    """C05's text on one run (kind=loop: quit ends the loop; kind=elt: start / destroy)."""
    bad = []
    if run.crash:
        if run.uaf or "use-after" in run.crash:
            return [(F4_KEY, "USE-AFTER-DESTROY: %s; %s" % (run.uaf or "", run.crash))]
        return [(None, "implementation crashed / sanitizer report: %s" % run.crash)]
    if not run.complete:
        return [(None, "incomplete output")]
    if run.uaf:
        bad.append((F4_KEY, "USE-AFTER-DESTROY: %s" % run.uaf))
    if run.steplimit:
        bad.append((None, "livelock (step limit)"))
    if run.deadlock:
        bad.append((None, "DEADLOCK: %s" % "; ".join("T%d %s" % (k, " ".join(v)) for k, v in sorted(run.pending.items()))))
    evs = events_of(run)
    quit_ret = [pos for pos, ti, w in evs if w[:2] == ["ret", "quit"]]
    quit_call = [pos for pos, ti, w in evs if w[:2] == ["call", "quit"]]
    enter_pos = next((pos for pos, ti, w in evs if w[0] == "enter"), None)
    returned = any(w[0] == "loop-returned" for pos, ti, w in evs)
    if kind == "loop":
        if run.stuck is not None and quit_call:
            pre = enter_pos is not None and all(p < enter_pos for p in quit_call)
            bad.append((F3_KEY if pre else None,
                        "QUIT LOST: quit() was called %d time(s)%s, the loop sits in poll and only the time-out can end it "
                        "(quit_=%s)" % (len(quit_call), " (all before loop() was entered)" if pre else "", run.stuck.get("quit"))))
        if returned and not quit_call:
            bad.append((None, "loop() returned although quit() was never called"))
    else:
        started = [w for pos, ti, w in evs if w[0] == "started"]
        for w in started:
            if "nonnull=1" not in w or "same=1" not in w or "owner=child" not in w:
                bad.append((None, "startLoop() returned a loop that is null / not the new thread's: %s" % " ".join(w)))
        if run.stuck is not None:
            if run.stuck.get("joining") == "1":
                bad.append((F3_KEY, "DESTRUCTOR HANGS: ~EventLoopThread is blocked in join, the loop thread sits in poll with quit_=%s "
                            "(the destructor's quit() was overwritten by loop()'s reset)" % run.stuck.get("quit")))
            elif not started and any(w[0] == "start" for w in []):
                pass
        if any(w[:2] == ["call", "destroy"] for pos, ti, w in evs) and not any(w[:2] == ["ret", "destroy"] for pos, ti, w in evs) \
                and run.stuck is None and not run.deadlock and not run.steplimit:
            bad.append((None, "~EventLoopThread did not return"))
    return bad


def load_corpus(prop):
    cases = []
    for f in sorted(glob.glob(os.path.join(vlib.ROOT, "corpus", prop, "*.case"))):
        for c in schedlib.load_cases(f):
            c.cid = "corpus_" + os.path.basename(f)[:-5] + "_" + c.cid
            c.tag = "corpus"
            cases.append(c)
    return cases


def gen_fact(log, tag):
    """(true|false) of the marker `Eval vm_compute in (<bool>, <tag>)` in a coqc log."""
    m = re.search(r"=\s*\((true|false),\s*%d\)" % tag, log)
    return None if not m else (m.group(1) == "true")
