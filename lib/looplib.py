"""looplib: shared Python side of the C04 / C05 checks (owner: C04/C05).
Cases for harness/C04_driver.cc (real EventLoop / EventLoopThread / EventLoopThreadPool under the
controlled scheduler), running, trace validation by the extracted LoopModel, and the property
oracles (written against the property texts, independent of the Coq model)."""
import os, re, glob
import vlib, schedlib

INSTR_FLAGS = ["-finstrument-functions", "-finstrument-functions-exclude-file-list=harness/,/usr/", "-DC04_INSTRUMENTED"]
TIMER_WRAP = ["timerfd_create", "timerfd_settime"]     # harness/C04_driver.cc emulates the timerfd by an eventfd


def build_impl():
    """The driver + the scheduler + EventLoop.cc / EventLoopThread.cc of the CURRENT repo compiled
    with -finstrument-functions (schedule points at function entries; no hook in /repo)."""
    return vlib.build_driver(
        "C04_driver",
        ["C04_driver.cc"] + schedlib.SOURCES +
        [os.path.join(vlib.REPO, "muduo/net/EventLoop.cc"), os.path.join(vlib.REPO, "muduo/net/EventLoopThread.cc")],
        variant="asan", components=("base", "net"), extra_flags=schedlib.IO_FLAGS + INSTR_FLAGS,
        wrap=schedlib.WRAP + schedlib.WRAP_IO + TIMER_WRAP)


def build_impl_fast():
    """The same driver without sanitizers / instrumentation at -O2 (-fwrapv: int overflow wraps, as in the
    generated functions): only for pool cases with billions of getNextLoop() calls (header big=<K>)."""
    return vlib.build_driver("C05_poolbig", ["C04_driver.cc"] + schedlib.SOURCES, variant="ndebug", components=("base", "net"),
                             extra_flags=schedlib.IO_FLAGS + ["-fwrapv"], wrap=schedlib.WRAP + schedlib.WRAP_IO + TIMER_WRAP)


# ------------------------------------------------------------------------------------ cases
def acts_text(acts):
    return " ; ".join(acts) if acts else "-"


def mkcase(cid, kind, source, prefix=(), threads=(), scripts=None, poller="epoll", pts=1, steps=4000, tag="",
           n=0, calls=0, hashes=(), later=(), big=0, tail=0):
    hdr = "kind=%s poller=%s pts=%d steps=%d" % (kind, poller, pts, steps)
    if kind == "pool":
        hdr += " n=%d calls=%d" % (n, calls)
        if big:
            hdr += " big=%d tail=%d" % (big, tail)
    hdr += " sched=%s" % source
    ops = ["P " + acts_text(list(prefix))]
    for seg in later:
        ops.append("L " + acts_text(list(seg)))
    for t in threads:
        ops.append("T " + acts_text(list(t)))
    for k in sorted((scripts or {}).keys()):
        ops.append("S %d %s" % (k, acts_text(list(scripts[k]))))
    if hashes:
        ops.append("H " + " ".join(str(h) for h in hashes))
    return vlib.Case(cid, hdr, ops, tag)


def hdr_get(header, key, default=None):
    for t in header.split():
        if t.startswith(key + "="):
            return t[len(key) + 1:]
    return default


def parse_case(case):
    prefix, threads, scripts, hashes = [], [], {}, []
    def acts(ws):
        res, cur = [], []
        for w in ws:
            if w == ";":
                if cur:
                    res.append(" ".join(cur))
                cur = []
            elif w == "-":
                continue
            else:
                cur.append(w)
        if cur:
            res.append(" ".join(cur))
        return res
    for line in case.ops:
        w = line.split()
        if not w:
            continue
        if w[0] == "P":
            prefix = acts(w[1:])
        elif w[0] == "T":
            threads.append(acts(w[1:]))
        elif w[0] == "S":
            scripts[int(w[1])] = acts(w[2:])
        elif w[0] == "H":
            hashes = [int(x) for x in w[1:]]
    return prefix, threads, scripts, hashes


def later_of(case):
    """the segments between successive calls of loop() (L lines)"""
    res = []
    for line in case.ops:
        w = line.split()
        if w and w[0] == "L":
            res.append([a.strip() for a in " ".join(w[1:]).split(";") if a.strip() and a.strip() != "-"])
    return res


class LoopRun(schedlib.Run):
    __slots__ = ("stuck", "uaf", "extra")

    def __init__(self, lines):
        schedlib.Run.__init__(self, lines)
        self.stuck, self.uaf, self.extra = None, None, []
        for ln in lines:
            if ln.startswith("STUCK"):
                self.stuck = dict(t.split("=") for t in ln.split()[1:])
            elif ln.startswith("e ") and " UAF " in ln:
                if self.uaf is None:      # the first access to the destroyed loop is the one that classifies
                    self.uaf = ln
            elif ln.startswith(("pool ", "next", "hash", "ops", "tail")):
                self.extra.append(ln)


class Runner:
    def __init__(self, impl, model=None):
        self.impl, self.model = impl, model
        self.nimpl = 0

    def run_impl(self, cases, jobs=None):
        outs, crashes = vlib.run_batch_parallel(self.impl, cases, jobs=jobs, timeout=1200)
        self.nimpl += len(cases)
        res = {}
        for c in cases:
            if c.cid in outs:
                res[c.cid] = LoopRun(outs[c.cid][1:])
            else:
                r = LoopRun([])
                r.crash = "CRASH driver died: %s" % (crashes.get(c.cid, ("?", "", []))[1][-300:],)
                res[c.cid] = r
        return res

    def run_model(self, cases, runs):
        mcases = []
        for c in cases:
            r = runs[c.cid]
            body = [l for l in r.lines if l and l != "end" and not l.startswith("case ")]
            mcases.append(vlib.Case(c.cid, c.header, c.ops + ["trace"] + body))
        outs, crashes = vlib.run_batch_parallel(self.model, mcases, timeout=1200,
                                                pre=["bash", "-c", 'ulimit -s unlimited 2>/dev/null; exec "$0"'])
        res = {}
        for c in cases:
            lines = outs.get(c.cid)
            if lines is None or len(lines) < 2:
                res[c.cid] = "REJECT model runner failed: %r" % (crashes.get(c.cid),)
            else:
                # the verdict line (a pool case prints its selection results before it)
                res[c.cid] = next((l for l in lines[1:] if l.startswith(("accepted", "REJECT"))), lines[1])
        return res


# ------------------------------------------------------------------------------------ oracles
# A finding is reported as (key, message); key None = a plain violation.
F2_KEY = "queue-before-loop-not-woken"
F3_KEY = "quit-before-loop-reset"
F4_KEY = "quit-wakeup-after-loop-destroyed"
OBS_QUEUE_AFTER_FUNCTOR_QUIT = "~queue-wakeup-after-functor-quit"   # '~' = observation outside the property text


def events_of(run):
    """[(thread, words)] of the driver's event lines in global order, with their position among
    all lines (so that they can be ordered against trace lines)."""
    res = []
    for pos, ln in enumerate(run.lines):
        if ln.startswith("e T"):
            w = ln.split()
            res.append((pos, int(w[1][1:]), w[2:]))
    return res


def oracle_tasks(case, run, loop_thread=0):
    """C04's text on one kind=loop / kind=elt run.  Returns list of (key, message)."""
    bad = []
    prefix, threads, scripts, _ = parse_case(case)
    if run.crash:
        return [(None, "implementation crashed / sanitizer report: %s" % run.crash)]
    if not run.complete:
        return [(None, "incomplete output")]
    if run.steplimit:
        return [(None, "livelock: the loop keeps iterating without anything to do (step limit; iteration() grows while idle)")]
    evs = events_of(run)
    # --- exactly once / on the loop thread
    calls, rets, execs = {}, {}, []      # task -> [positions]
    ncalls = {}
    for pos, ti, w in evs:
        if w[0] == "call" and w[1] in ("q", "r"):
            calls.setdefault(int(w[2]), []).append((pos, ti, w[1]))
        elif w[0] == "ret" and w[1] in ("q", "r"):
            rets.setdefault(int(w[2]), []).append((pos, ti, w[1]))
        elif w[0] == "x":
            execs.append((pos, ti, int(w[1])))
    for pos, ti, t in execs:
        if ti != loop_thread:
            bad.append((None, "task %d executed on T%d, not on the loop thread T%d" % (t, ti, loop_thread)))
    nexec = {}
    for pos, ti, t in execs:
        nexec[t] = nexec.get(t, 0) + 1
    for t, n in nexec.items():
        if n > len(calls.get(t, [])):
            bad.append((None, "task %d executed %d times, submitted %d times" % (t, n, len(calls.get(t, [])))))
    # --- order: a submission through queueInLoop that returned before another one was called runs first;
    #     per thread: program order.  Only meaningful for tasks submitted once.
    once = [t for t in calls if len(calls[t]) == 1]
    exec_pos = {}
    for pos, ti, t in execs:
        exec_pos.setdefault(t, pos)
    queued = []   # tasks that went through the queue: q always; r only from a foreign thread
    for t in once:
        (pos, ti, kind) = calls[t][0]
        if kind == "q" or ti != loop_thread:
            queued.append(t)
    for a in queued:
        if a not in rets or a not in exec_pos:
            continue
        ra = rets[a][0][0]
        for b in queued:
            if b == a or b not in exec_pos:
                continue
            if ra < calls[b][0][0] and not exec_pos[a] < exec_pos[b]:
                bad.append((None, "order: task %d was queued (returned) before task %d was submitted, but ran after it" % (a, b)))
    for a in queued:
        if a in exec_pos:
            continue
        # a unexecuted: nothing queued strictly later may have run ... only if the loop ran on
        ra = rets.get(a, [(10 ** 9,)])[0][0]
        for b in queued:
            if b != a and b in exec_pos and ra < calls[b][0][0]:
                bad.append((None, "order: task %d (queued earlier) never ran although the later task %d did" % (a, b)))
    # --- runInLoop on the loop thread is synchronous
    for t in calls:
        for (pos, ti, kind) in calls[t]:
            if kind == "r" and ti == loop_thread:
                nxt = [e for e in evs if e[0] > pos and e[1] == ti]
                if not nxt or nxt[0][2][:2] != ["x", str(t)]:
                    bad.append((None, "runInLoop(%d) on the loop thread did not run its functor synchronously" % t))
    # --- without delay: the process is fully blocked while tasks are queued
    if run.deadlock:
        bad.append((None, "DEADLOCK: %s" % "; ".join("T%d %s" % (k, " ".join(v)) for k, v in sorted(run.pending.items()))))
    if run.stuck is not None:
        q = int(run.stuck.get("q", "0"))
        looping = run.stuck.get("loop") == "1"
        if q > 0 and looping:
            # classify: is it the pre-loop case (F-2)?  every unexecuted task was queued by the loop thread
            # itself while it was not inside loop() (before the first call or between two calls)
            pre = False
            inside, outside_pos = False, set()
            for pos, ti, w in evs:
                if ti == loop_thread and w[0] == "enter":
                    inside = True
                elif ti == loop_thread and w[0] == "loop-returned":
                    inside = False
                elif ti == loop_thread and w[0] == "call" and not inside:
                    outside_pos.add(pos)
            unexec = [t for t in calls if nexec.get(t, 0) < len(calls[t])]
            if unexec and all(all(p in outside_pos and ti == loop_thread for (p, ti, k) in calls[t]) for t in unexec):
                pre = True
            msg = ("STALL: every thread is blocked, the loop sits in poll (only the 10 s time-out can end it) with %d "
                   "task(s) in the queue: %s" % (q, sorted(unexec)))
            bad.append((F2_KEY if pre else None, msg + (" - queued on the loop thread before loop() was entered" if pre else "")))
    elif not run.deadlock and not run.steplimit:
        # the loop was quit: nothing to say about unexecuted tasks
        pass
    # idle without quit: every submitted task ran exactly once
    if run.stuck is not None and int(run.stuck.get("q", "0")) == 0 and run.stuck.get("loop") == "1":
        for t in calls:
            if nexec.get(t, 0) != len(calls[t]) and len(rets.get(t, [])) == len(calls[t]):
                bad.append((None, "task %d submitted %d times, executed %d times although the loop is idle and alive"
                            % (t, len(calls[t]), nexec.get(t, 0))))
    return bad


def trace_pos(run, pred):
    """positions (among all output lines) of the trace lines satisfying pred(words)"""
    res = []
    for pos, ln in enumerate(run.lines):
        if ln.startswith("t "):
            w = ln.split()
            if pred(w):
                res.append(pos)
    return res


def oracle_quit(case, run, kind):
    """C05's text on one run (kind=loop: quit() ends the loop and is never lost; kind=elt: startLoop()
    returns the child's loop, the destructor stops and joins without hanging and without touching a
    destroyed loop).  Returns list of (key, message); key None = a plain violation."""
    bad = []
    evs = events_of(run)
    destroy_call = [pos for pos, ti, w in evs if w[:2] == ["call", "destroy"]]
    destroy_ret = [pos for pos, ti, w in evs if w[:2] == ["ret", "destroy"]]

    def uaf_key():
        """F-4's signature: a quit() (the destructor's or the user's) continues on the destroyed loop.
        Observation, not a violation of C05's text (key '~...'): a queueInLoop()/runInLoop() continues on a
        loop that was ended by a quit() issued from one of its own functors / callbacks -- nobody is
        destroying an EventLoopThread there; the submitter of a quitting task races with that task."""
        u = next(((pos, ti, w) for pos, ti, w in evs if w and w[0] == "UAF"), None)
        if u is None:
            return None
        pos, ti, w = u
        if "quit()" in w and "continues" in w:
            return F4_KEY          # the loop died between the store of quit_ and isInLoopThread()/wakeup()
        if "quit()" in w:
            return None            # quit() CALLED through a stale pointer to a loop destroyed earlier: not F-4
        loop_thread = 1 if kind == "elt" else 0
        if ("queueInLoop()" in w or "runInLoop()" in w) and any(p < pos and t == loop_thread and x[:2] == ["call", "quit"] for p, t, x in evs):
            return OBS_QUEUE_AFTER_FUNCTOR_QUIT
        return None

    if run.crash:
        if run.uaf or "use-after" in run.crash:
            return [(uaf_key(), "USE-AFTER-DESTROY: %s; %s" % ((run.uaf or "").strip(), run.crash))]
        return [(None, "implementation crashed / sanitizer report: %s" % run.crash)]
    if not run.complete:
        return [(None, "incomplete output")]
    if run.uaf:
        bad.append((uaf_key(), "USE-AFTER-DESTROY: %s (the stack-allocated EventLoop of the loop thread no longer exists)"
                    % run.uaf[2:].strip()))
    if run.steplimit:
        bad.append((None, "livelock (step limit)"))
    if run.deadlock:
        bad.append((None, "DEADLOCK: %s" % "; ".join("T%d %s" % (k, " ".join(v)) for k, v in sorted(run.pending.items()))))
    quit_call = [pos for pos, ti, w in evs if w[:2] == ["call", "quit"]]
    returns = [pos for pos, ti, w in evs if w[0] == "loop-returned"]
    if kind == "loop":
        # the moment loop() starts: the loop thread passes the entry point (pts=1) / the "enter" event
        entries = trace_pos(run, lambda w: w[2] == "T0" and w[3] == "point" and w[4] == "loop_entry") or \
            [pos for pos, ti, w in evs if w[0] == "enter"]
        if run.stuck is not None:
            last_ret = max(returns) if returns else -1
            lost = [p for p in quit_call if p > last_ret]
            if lost:
                last_entry = max(entries) if entries else -1
                pre = all(p < last_entry for p in lost) and run.stuck.get("quit") == "0"
                bad.append((F3_KEY if pre else None,
                            "QUIT LOST: quit() was called %d time(s) since loop() last returned%s; the loop sits in poll and only "
                            "the time-out can end it (quit_=%s)" % (len(lost), " (all before loop() executed its entry code)" if pre else "",
                                                                   run.stuck.get("quit"))))
        if returns and not any(q < returns[0] for q in quit_call):
            bad.append((None, "loop() returned although quit() was never called"))
    else:
        started = [w for pos, ti, w in evs if w[0] == "started"]
        for w in started:
            if "nonnull=1" not in w or "same=1" not in w or "owner=child" not in w:
                bad.append((None, "startLoop() returned a loop that is null / not the new thread's: %s" % " ".join(w)))
        if run.stuck is not None:
            if run.stuck.get("joining") == "1":
                entries = trace_pos(run, lambda w: w[2] == "T1" and w[3] == "point" and w[4] == "loop_entry")
                pre = bool(destroy_call) and run.stuck.get("quit") == "0" and (not entries or destroy_call[0] < entries[0])
                bad.append((F3_KEY if pre else None,
                            "DESTRUCTOR HANGS: ~EventLoopThread is blocked in join, the loop thread sits in poll with quit_=%s%s"
                            % (run.stuck.get("quit"), " (the destructor's quit() was overwritten by loop()'s reset)" if pre else "")))
            elif not started:
                bad.append((None, "startLoop() has not returned and nothing can run but a poll time-out"))
        if destroy_call and not destroy_ret and run.stuck is None and not run.deadlock and not run.steplimit:
            bad.append((None, "~EventLoopThread did not return"))
    return bad


def oracle_pool(case, run):
    """C05's text on a kind=pool run: N distinct loops on N distinct threads, strict round-robin, equal
    hash codes -> same loop, N = 0 -> base loop; every loop accepts a task and runs it on its thread;
    destruction joins without hanging.  Independent of the Coq model."""
    bad = []
    if run.crash:
        return ["implementation crashed / sanitizer report: %s" % run.crash]
    if not run.complete:
        return ["incomplete output"]
    if run.deadlock or run.steplimit:
        return ["pool start / destruction does not terminate: %s" % ("DEADLOCK" if run.deadlock else "step limit")]
    if run.stuck is not None and "pool destroyed" not in run.lines:
        return ["pool start() / destruction hangs: every thread is blocked, only a poll time-out could continue (%s)"
                % ("start() has not returned" if not any(l.startswith("pool n=") for l in run.lines) else "inside the destructor")]
    n = int(hdr_get(case.header, "n", "0"))
    calls = int(hdr_get(case.header, "calls", "0"))
    _, _, _, hashes = parse_case(case)
    ops = []
    for line in case.ops:
        w = line.split()
        if w and w[0] == "O":
            ops = w[1:]
    info, nxt, hsh, opr = None, None, None, None
    for ln in run.lines:
        w = ln.split()
        if not w:
            continue
        if w[0] == "pool" and len(w) > 1 and w[1].startswith("n="):
            info = dict(t.split("=") for t in w[1:])
        elif w[0] == "next":
            nxt = [int(x) for x in w[1:]]
        elif w[0] == "hash":
            hsh = [int(x) for x in w[1:]]
        elif w[0] == "ops":
            opr = [int(x) for x in w[1:]]
    if info is None or nxt is None or hsh is None or (ops and opr is None):
        return ["pool output missing"]
    if "pool destroyed" not in run.lines:
        bad.append("the pool was not destroyed")
    if n == 0:
        if info.get("loops") != "1" or info.get("base_in_all") != "1":
            bad.append("empty pool: getAllLoops() is not [baseLoop]: %s" % info)
        if any(x != -1 for x in nxt + hsh + (opr or [])):
            bad.append("empty pool: a call returned something else than the base loop")
        return bad
    if info.get("loops") != str(n) or info.get("distinct_owner_threads") != str(n):
        bad.append("pool of %d threads: %s loops owned by %s distinct threads" % (n, info.get("loops"), info.get("distinct_owner_threads")))
    if len(nxt) != calls:
        bad.append("expected %d getNextLoop results, got %d" % (calls, len(nxt)))
    for i, x in enumerate(nxt):
        if x != i % n:
            bad.append("round-robin: call %d of getNextLoop() returned loop %d, expected loop %d (N=%d): %s" % (i + 1, x, i % n, n, nxt))
            break
    for k in range(0, max(0, len(nxt) - n + 1)):
        if len(set(nxt[k:k + n])) != n:
            bad.append("calls %d..%d of getNextLoop() do not return %d distinct loops: %s" % (k + 1, k + n, n, nxt[k:k + n]))
            break
    for h, x in zip(hashes, hsh):
        if x == -3:
            bad.append("getLoopForHash(%d) returned two different loops for the same hash code" % h)
        elif x != h % n:
            bad.append("getLoopForHash(%d) returned loop %d, expected %d (N=%d)" % (h, x, h % n, n))
    by_hash = {}
    c = calls
    for o, x in zip(ops, opr or []):
        if o == "n":
            if x != c % n:
                bad.append("round-robin disturbed in a mixed sequence: getNextLoop() call %d returned %d, expected %d (ops %s -> %s)"
                           % (c + 1, x, c % n, " ".join(ops), opr))
                break
            c += 1
        else:
            h = int(o[1:])
            if by_hash.setdefault(h, x) != x:
                bad.append("hash code %d mapped to loops %d and %d" % (h, by_hash[h], x))
            if x != h % n:
                bad.append("getLoopForHash(%d) returned loop %d, expected %d" % (h, x, h % n))
    big = int(hdr_get(case.header, "big", "0"))
    if big:
        tl = next((ln.split() for ln in run.lines if ln.startswith("tail ")), None)
        if tl is None:
            bad.append("the long run of getNextLoop() calls produced no output")
        else:
            k0 = int(tl[1])
            for i, x in enumerate(int(v) for v in tl[2:]):
                if x != (k0 + i) % n:
                    bad.append("round-robin: call %d of getNextLoop() returned loop %d, expected loop %d (N=%d; calls %d.. returned %s)"
                               % (k0 + i + 1, x, (k0 + i) % n, n, k0 + 1, " ".join(tl[2:])))
                    break
    ran = {}
    for pos, ti, w in events_of(run):
        if w[0] == "pooltask":
            ran.setdefault(int(w[1]), []).append(w[3])
    for i in range(n):
        if len(ran.get(i, [])) != 1:
            bad.append("loop %d of the pool ran the task given to it %d times" % (i, len(ran.get(i, []))))
    owners = [v[0] for v in ran.values() if v]
    if len(set(owners)) != len(owners) or "T0" in owners:
        bad.append("pool tasks did not run each on its own loop thread: %s" % sorted(ran.items()))
    return bad


def load_corpus(prop):
    cases = []
    for f in sorted(glob.glob(os.path.join(vlib.ROOT, "corpus", prop, "*.case"))):
        for c in schedlib.load_cases(f):
            c.cid = "corpus_" + os.path.basename(f)[:-5] + "_" + c.cid
            c.tag = "corpus"
            cases.append(c)
    return cases


def gen_fact(log, tag):
    """(true|false) of the marker `Eval vm_compute in (<bool>, <tag>)` in a coqc log."""
    m = re.search(r"=\s*\((true|false),\s*%d\)" % tag, log)
    return None if not m else (m.group(1) == "true")
