"""errno captured before it can be clobbered (finding F-27 / findings/C11.md `errno-after-log`), shared by
lib/gen_Conn.py (TcpConnection::sendInLoop) and lib/gen_C11.py (Acceptor::handleRead).

1. Canonicalisation of single-assignment errno copies: a local `int x = errno;` that is initialised exactly once
   and only ever READ afterwards (every reference to it sits under an lvalue-to-rvalue conversion: no assignment,
   no ++/--, no address-of, no reference binding) is replaced by its initialiser before a guard is matched and
   translated.  `if (savedErrno == EMFILE)` and `if (errno == EMFILE)` therefore translate to the SAME Gallina
   guard over the variable `errno` (same device as gen_C06.py / gen_C20.py use for their locals; restricted to
   errno copies here so that no other generated signature changes).
2. The order fact: the canonical guard says WHICH value is compared; WHEN that value is taken is the point of the
   finding.  `tests_saved_errno(fn, syscall, conds)` is true iff for every given condition that reads errno
   (directly or through a canonicalised copy) no log statement (a muduo::Logger temporary, whose destructor calls
   the user-replaceable output function) lies ON THE PATH between the failing system call and the point where the
   value is captured (the copy's declaration, or the condition itself for a direct read)."""
import copy
import cxxast


def kids(n):
    return [c for c in n.get("inner", []) or [] if isinstance(c, dict) and c.get("kind")]


def is_errno(node):
    node = cxxast.strip(node)
    return node.get("kind") == "UnaryOperator" and node.get("opcode") == "*" and \
        "__errno_location" in [(m.get("referencedDecl", {}) or {}).get("name") for m in cxxast.walk(node)]


def _parents(root):
    par = {}
    for n in cxxast.walk(root):
        for c in kids(n):
            par[id(c)] = n
    return par


def errno_copies(fn):
    """{decl id: VarDecl} of the locals `T x = errno;` of fn that are only read afterwards"""
    par = _parents(fn)
    res = {}
    for v in cxxast.walk(fn):
        if v.get("kind") != "VarDecl" or "init" not in v:
            continue
        ini = kids(v)
        if len(ini) != 1 or not is_errno(ini[0]):
            continue
        ok = True
        for r in cxxast.walk(fn):
            if r.get("kind") == "DeclRefExpr" and (r.get("referencedDecl", {}) or {}).get("id") == v.get("id"):
                p = par.get(id(r), {})
                if not (p.get("kind") == "ImplicitCastExpr" and p.get("castKind") == "LValueToRValue"):
                    ok = False
        if ok:
            res[v.get("id")] = v
    return res


def canon(node, copies):
    """a copy of node in which every read of an errno copy is replaced by the copy's initialiser"""
    if not copies:
        return node

    def go(n):
        if not isinstance(n, dict):
            return n
        if n.get("kind") == "DeclRefExpr" and (n.get("referencedDecl", {}) or {}).get("id") in copies:
            return copy.deepcopy(kids(copies[n["referencedDecl"]["id"]])[0])
        m = dict(n)
        if "inner" in n:
            m["inner"] = [go(c) for c in n["inner"]]
        return m
    return go(node)


def _offset(n):
    b = n.get("range", {}).get("begin", {})
    for k in (b, b.get("expansionLoc", {}) or {}, b.get("spellingLoc", {}) or {}):
        if "offset" in k:
            return k["offset"]
    for c in kids(n):
        o = _offset(c)
        if o is not None:
            return o
    return None


def _chain(par, n):
    out = [n]
    while id(out[-1]) in par:
        out.append(par[id(out[-1])])
    return out


def _on_path(par, x, p):
    """x may execute before p: they are not in different branches of their closest common if-statement"""
    cx, cp = _chain(par, x), _chain(par, p)
    ids = {id(a): i for i, a in enumerate(cp)}
    for i, a in enumerate(cx):
        if id(a) in ids:
            if a.get("kind") == "IfStmt" and i > 0 and ids[id(a)] > 0:
                bx, bp = cx[i - 1], cp[ids[id(a)] - 1]
                br = kids(a)
                if bx is not bp and any(bx is b for b in br[1:]) and any(bp is b for b in br[1:]):
                    return False
            return True
    return True


def tests_saved_errno(fn, syscall, conds):
    """see the module docstring; raises Untranslatable if the system call or an offset cannot be found (fail closed)"""
    par = _parents(fn)
    copies = errno_copies(fn)
    calls = [m for m in cxxast.walk(fn) if m.get("kind") in ("CallExpr", "CXXMemberCallExpr")
             and (cxxast.strip(m["inner"][0]).get("name") or (cxxast.strip(m["inner"][0]).get("referencedDecl", {}) or {}).get("name")) == syscall]
    if not calls:
        raise cxxast.Untranslatable("no call of %s" % syscall)
    w = min(o for o in (_offset(c) for c in calls) if o is not None)      # the first one in the source
    loggers = [m for m in cxxast.walk(fn) if m.get("kind") in ("CXXTemporaryObjectExpr", "CXXConstructExpr")
               and m.get("type", {}).get("qualType", "").split("::")[-1] == "Logger"]
    seen_errno_read = False
    for cond in conds:
        points = []
        for m in cxxast.walk(cond):
            if m.get("kind") == "DeclRefExpr" and (m.get("referencedDecl", {}) or {}).get("id") in copies:
                points.append(copies[m["referencedDecl"]["id"]])
            elif is_errno(m) and m.get("kind") == "UnaryOperator":
                points.append(m)
        for p in points:
            seen_errno_read = True
            po = _offset(p)
            if w is None or po is None:
                raise cxxast.Untranslatable("no source offset for the capture point")
            for lg in loggers:
                lo = _offset(lg)
                if lo is None:
                    raise cxxast.Untranslatable("no source offset for a log statement")
                if w < lo < po and _on_path(par, lg, p):
                    return False
    if not seen_errno_read:
        raise cxxast.Untranslatable("the given conditions do not read errno")
    return True
