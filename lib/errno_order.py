"""errno captured before it can be clobbered (finding F-27 / findings/C11.md `errno-after-log`), shared by
lib/gen_Conn.py (TcpConnection::sendInLoop) and lib/gen_C11.py (Acceptor::handleRead).

1. Canonicalisation of single-assignment errno copies: a local `int x = errno;` that is initialised exactly once
   and only ever READ afterwards (every reference to it sits under an lvalue-to-rvalue conversion: no assignment,
   no ++/--, no address-of, no reference binding) is replaced by its initialiser before a guard is matched and
   translated.  `if (savedErrno == EMFILE)` and `if (errno == EMFILE)` therefore translate to the SAME Gallina
   guard over the variable `errno` (same device as gen_C06.py / gen_C20.py use for their locals; restricted to
   errno copies here so that no other generated signature changes).
2. The order fact: the canonical guard says WHICH value is compared; WHEN that value is taken is the point of the
   finding.  `tests_saved_errno(fn, syscall, conds)` is true iff for every given condition that reads errno
   (directly or through a canonicalised copy) no log statement (a muduo::Logger temporary, whose destructor calls
   the user-replaceable output function) lies ON THE PATH between the failing system call and the point where the
   value is captured (the copy's declaration, or the condition itself for a direct read).
   Strengthened after REVIEW_E E-6: not only a log statement - ANY call, constructor, new or delete other than
   `__errno_location()` itself on that path makes the fact false (a `::close(-1)` or a helper that logs, placed
   between the system call and the capture, may change errno as well); after REVIEW_F F-3 also any STORE to errno
   (`errno = 0;`) on that path, in all three facts.  The fact stays INTRA-procedural: what the
   callee that wraps the system call does after it (sockets::accept, Socket::accept) is the business of
   `restores_errno_after` / `only_success_calls_after` below."""
import copy
import cxxast


def kids(n):
    return [c for c in n.get("inner", []) or [] if isinstance(c, dict) and c.get("kind")]


def is_errno(node):
    node = cxxast.strip(node)
    return node.get("kind") == "UnaryOperator" and node.get("opcode") == "*" and \
        "__errno_location" in [(m.get("referencedDecl", {}) or {}).get("name") for m in cxxast.walk(node)]


def _parents(root):
    par = {}
    for n in cxxast.walk(root):
        for c in kids(n):
            par[id(c)] = n
    return par


def errno_copies(fn):
    """{decl id: VarDecl} of the locals `T x = errno;` of fn that are only read afterwards"""
    par = _parents(fn)
    res = {}
    for v in cxxast.walk(fn):
        if v.get("kind") != "VarDecl" or "init" not in v:
            continue
        ini = kids(v)
        if len(ini) != 1 or not is_errno(ini[0]):
            continue
        ok = True
        for r in cxxast.walk(fn):
            if r.get("kind") == "DeclRefExpr" and (r.get("referencedDecl", {}) or {}).get("id") == v.get("id"):
                p = par.get(id(r), {})
                if not (p.get("kind") == "ImplicitCastExpr" and p.get("castKind") == "LValueToRValue"):
                    ok = False
        if ok:
            res[v.get("id")] = v
    return res


def canon(node, copies):
    """a copy of node in which every read of an errno copy is replaced by the copy's initialiser"""
    if not copies:
        return node

    def go(n):
        if not isinstance(n, dict):
            return n
        if n.get("kind") == "DeclRefExpr" and (n.get("referencedDecl", {}) or {}).get("id") in copies:
            return copy.deepcopy(kids(copies[n["referencedDecl"]["id"]])[0])
        m = dict(n)
        if "inner" in n:
            m["inner"] = [go(c) for c in n["inner"]]
        return m
    return go(node)


def _offset(n):
    b = n.get("range", {}).get("begin", {})
    for k in (b, b.get("expansionLoc", {}) or {}, b.get("spellingLoc", {}) or {}):
        if "offset" in k:
            return k["offset"]
    for c in kids(n):
        o = _offset(c)
        if o is not None:
            return o
    return None


def _chain(par, n):
    out = [n]
    while id(out[-1]) in par:
        out.append(par[id(out[-1])])
    return out


def _on_path(par, x, p):
    """x may execute before p: they are not in different branches of their closest common if-statement"""
    cx, cp = _chain(par, x), _chain(par, p)
    ids = {id(a): i for i, a in enumerate(cp)}
    for i, a in enumerate(cx):
        if id(a) in ids:
            if a.get("kind") == "IfStmt" and i > 0 and ids[id(a)] > 0:
                bx, bp = cx[i - 1], cp[ids[id(a)] - 1]
                br = kids(a)
                if bx is not bp and any(bx is b for b in br[1:]) and any(bp is b for b in br[1:]):
                    return False
            return True
    return True


def errno_stores(root):
    """every node under root that stores to errno: `errno = ..`, a compound assignment, ++/-- (REVIEW_F F-3 b)"""
    res = []
    for m in cxxast.walk(root):
        k = m.get("kind")
        if k in ("BinaryOperator", "CompoundAssignOperator") and (m.get("opcode") == "=" or k == "CompoundAssignOperator") and kids(m) and is_errno(kids(m)[0]):
            res.append(m)
        elif k == "UnaryOperator" and m.get("opcode") in ("++", "--") and kids(m) and is_errno(kids(m)[0]):
            res.append(m)
    return res


def _disturbers(fn, inside):
    """nodes whose execution may change errno: calls / constructions / new / delete other than __errno_location(), and
    stores to errno"""
    return [m for m in cxxast.walk(fn) if m.get("kind") in CALL_KINDS and id(m) not in inside and _callee(m) != "__errno_location"] + \
        [m for m in errno_stores(fn) if id(m) not in inside]


CALL_KINDS = ("CallExpr", "CXXMemberCallExpr", "CXXOperatorCallExpr", "CXXConstructExpr", "CXXTemporaryObjectExpr", "CXXNewExpr", "CXXDeleteExpr")


def _callee(m):
    if m.get("kind") not in ("CallExpr", "CXXMemberCallExpr", "CXXOperatorCallExpr") or not m.get("inner"):
        return None
    c = cxxast.strip(m["inner"][0])
    return c.get("name") or (c.get("referencedDecl", {}) or {}).get("name")


def restores_errno_after(fn, syscall, switch_groups_nonfatal):
    """a wrapper that logs after its system call (sockets::accept): true iff
    (1) errno is copied right after the system call - nothing that may change errno (call, construction, store to errno)
        on the path between it and the copy's declaration;
    (2) every given switch group (the classes after which the caller carries on) consists of exactly
        `errno = <that copy>; break;`, and these restores are the ONLY stores to errno in the function;
    (3) nothing that may change errno can run after a restore: every statement that follows the switch - in its own
        compound statement and, going outwards, in every enclosing compound statement up to the function body - is free
        of calls, constructions and stores to errno (REVIEW_F F-3 a: not only the last statement);  the last statement of
        the function is a `return`."""
    par = _parents(fn)
    copies = errno_copies(fn)
    if len(copies) != 1:
        return False
    cp = list(copies.values())[0]
    calls = [m for m in cxxast.walk(fn) if _callee(m) == syscall]
    if not calls:
        raise cxxast.Untranslatable("no call of %s" % syscall)
    first = min((c for c in calls if _offset(c) is not None), key=_offset)
    w, po = _offset(first), _offset(cp)
    inside = {id(m) for m in cxxast.walk(first)}
    for m in _disturbers(fn, inside):
        o = _offset(m)
        if o is None:
            raise cxxast.Untranslatable("no source offset")
        if w < o < po and _on_path(par, m, cp):
            return False
    restores = []
    for body in switch_groups_nonfatal:
        st = [x for x in body if x.get("kind")]
        if len(st) != 2 or st[1].get("kind") != "BreakStmt":
            return False
        a = cxxast.strip(st[0])
        if not (a.get("kind") == "BinaryOperator" and a.get("opcode") == "=" and is_errno(kids(a)[0])
                and (cxxast.strip(kids(a)[1]).get("referencedDecl", {}) or {}).get("id") == cp.get("id")):
            return False
        restores.append(a)
    if any(not any(x is r for r in restores) for x in errno_stores(fn)):
        return False
    sw = [m for m in cxxast.walk(fn) if m.get("kind") == "SwitchStmt"]
    if len(sw) != 1:
        return False
    node = sw[0]
    while id(node) in par:
        up = par[id(node)]
        if up.get("kind") == "CompoundStmt":
            sib = kids(up)
            i = next(j for j, x in enumerate(sib) if x is node)
            for later in sib[i + 1:]:
                if _disturbers(later, set()):
                    return False
        node = up
    top = kids(cxxast.body(fn))
    return bool(top) and top[-1].get("kind") == "ReturnStmt"


def only_success_calls_after(fn, callee_name, okvar):
    """a pass-through wrapper (Socket::accept): after its call of `callee_name` every further call sits inside an
    `if (<okvar> >= 0)` then-branch, i.e. nothing runs on the failure path that could change errno"""
    par = _parents(fn)
    calls = [m for m in cxxast.walk(fn) if _callee(m) == callee_name]
    if len(calls) != 1:
        raise cxxast.Untranslatable("%d calls of %s" % (len(calls), callee_name))
    w = _offset(calls[0])
    inside = {id(m) for m in cxxast.walk(calls[0])}
    for m in _disturbers(fn, inside):
        if (_offset(m) or 0) > w:
            ok = False
            ch = _chain(par, m)
            for i, a in enumerate(ch):
                if a.get("kind") == "IfStmt" and i > 0 and len(kids(a)) >= 2 and ch[i - 1] is kids(a)[1]:
                    g = cxxast.GExpr()
                    try:
                        txt = g.tr(kids(a)[0], "bool")
                    except cxxast.Untranslatable:
                        continue
                    if set(g.vars) == {okvar} and txt == "(Z.geb %s (0))" % okvar:
                        ok = True
            if not ok:
                return False
    return True


def tests_saved_errno(fn, syscall, conds):
    """see the module docstring; raises Untranslatable if the system call or an offset cannot be found (fail closed)"""
    par = _parents(fn)
    copies = errno_copies(fn)
    calls = [m for m in cxxast.walk(fn) if m.get("kind") in ("CallExpr", "CXXMemberCallExpr")
             and (cxxast.strip(m["inner"][0]).get("name") or (cxxast.strip(m["inner"][0]).get("referencedDecl", {}) or {}).get("name")) == syscall]
    if not calls:
        raise cxxast.Untranslatable("no call of %s" % syscall)
    first = min((c for c in calls if _offset(c) is not None), key=_offset)      # the first one in the source
    w = _offset(first)
    inside = {id(m) for m in cxxast.walk(first)}                            # its own arguments are evaluated before it runs
    loggers = _disturbers(fn, inside)      # (the name is historical: calls of every kind AND stores to errno, REVIEW_F F-3 b)
    seen_errno_read = False
    for cond in conds:
        points = []
        for m in cxxast.walk(cond):
            if m.get("kind") == "DeclRefExpr" and (m.get("referencedDecl", {}) or {}).get("id") in copies:
                points.append(copies[m["referencedDecl"]["id"]])
            elif is_errno(m) and m.get("kind") == "UnaryOperator":
                points.append(m)
        for p in points:
            seen_errno_read = True
            po = _offset(p)
            if w is None or po is None:
                raise cxxast.Untranslatable("no source offset for the capture point")
            for lg in loggers:
                lo = _offset(lg)
                if lo is None:
                    raise cxxast.Untranslatable("no source offset for a log statement")
                if w < lo < po and _on_path(par, lg, p):
                    return False
    if not seen_errno_read:
        raise cxxast.Untranslatable("the given conditions do not read errno")
    return True
