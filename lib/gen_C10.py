#!/usr/bin/env python3
"""C10 translator output -> coq/Gen_C10.v: the integer/boolean skeleton of muduo::net::Buffer
(muduo/net/Buffer.h, Buffer.cc) read from the clang JSON AST of the *current* sources:
for every member function, in source order,
  <f>_if<k>        condition of the k-th `if`
  <f>_assert<k>    condition of the k-th `assert(...)` (the macro is expanded: NDEBUG is not set)
  <f>_set<k>_<m>   new value of member m after the k-th assignment (=, +=, -=) to an index field
  <f>_ret          the returned integer expression (single-return observers)
  <f>_let_<v>      initialiser of a local whose initialiser is a ?: expression
  <f>_call<k>_<g>  the integer argument(s) of the k-th call of another member (retrieve, append, ...)
  <f>_init_<m>     constructor initialiser of member m
all as Gallina functions over Z (conditions: bool) whose parameters are the free names of the
C++ expression, sorted by name (trailing `_` stripped; `buffer_.size()` is `buffer_size`; pointers
are their addresses).  coq/C10_GenLink.v proves each of them equal to the corresponding test of
the hand model C10_Model, so editing an operator / operand in the source breaks a proof
obligation directly.  Overloads are told apart by arity: findCRLF0 / findCRLF1."""
import os, sys, re
sys.path.insert(0, os.path.dirname(os.path.abspath(__file__)))
import cxxast

REL = "muduo/net/Buffer.cc"      # readFd
RELH = "muduo/net/Buffer.h"      # everything else (inline)
INDEX_MEMBERS = ("readerIndex_", "writerIndex_", "iov_len")

# facts that C10_GenLink.v uses: if one of them cannot be produced, say so loudly
REQUIRED = """
Buffer_init_buffer Buffer_init_readerIndex Buffer_init_writerIndex Buffer_assert0 Buffer_assert1 Buffer_assert2
readableBytes_ret writableBytes_ret prependableBytes_ret
findCRLF1_assert0 findCRLF1_assert1 findEOL1_assert0 findEOL1_assert1
retrieve_assert0 retrieve_if0 retrieve_set0_readerIndex
retrieveUntil_assert0 retrieveUntil_assert1 retrieveUntil_call0_retrieve
retrieveInt64_call0_retrieve retrieveInt32_call0_retrieve retrieveInt16_call0_retrieve retrieveInt8_call0_retrieve
retrieveAll_set0_readerIndex retrieveAll_set1_writerIndex
retrieveAllAsString_call0_retrieveAsString retrieveAsString_assert0 retrieveAsString_call0_retrieve
ensureWritableBytes_if0 ensureWritableBytes_assert0 ensureWritableBytes_call0_makeSpace
hasWritten_assert0 hasWritten_set0_writerIndex unwrite_assert0 unwrite_set0_writerIndex
peekInt64_assert0 peekInt32_assert0 peekInt16_assert0 peekInt8_assert0
prepend_assert0 prepend_set0_readerIndex shrink_call0_ensureWritableBytes
makeSpace_if0 makeSpace_call0_resize makeSpace_assert0 makeSpace_set0_readerIndex makeSpace_set1_writerIndex makeSpace_assert1
readFd_let_iovcnt readFd_if0 readFd_if1 readFd_set2_writerIndex readFd_set3_writerIndex readFd_call0_append
readFd_set0_iov_len readFd_set1_iov_len
""".split()


class G(cxxast.GExpr):
    def tr(self, node, want):
        n = cxxast.strip(node)
        k = n.get("kind")
        if k == "UnaryExprOrTypeTraitExpr":
            return "(%d)" % cxxast.const_eval(n)
        if k in ("CallExpr", "CXXMemberCallExpr"):
            callee = cxxast.strip(n["inner"][0])
            args = [c for c in n["inner"][1:] if isinstance(c, dict) and c.get("kind") != "CXXDefaultArgExpr"]
            nm = callee.get("name") or callee.get("referencedDecl", {}).get("name")
            if nm == "implicit_cast" and len(args) == 1:        # implicit_cast<size_t>(n)
                return self.tr(args[0], want)
        if k == "ConditionalOperator":
            c, a, b = [x for x in n["inner"] if isinstance(x, dict)]
            return "(if %s then %s else %s)" % (self.tr(c, "bool"), self.tr(a, want), self.tr(b, want))
        if k == "CXXThisExpr":
            raise cxxast.Untranslatable("this")
        return super().tr(node, want)


def text_of(node, rel):
    """source text of a node that lies in REPO/rel (macro expansions: the expansion range)"""
    rng = node.get("range", {})
    b, e = rng.get("begin", {}), rng.get("end", {})
    b, e = b.get("expansionLoc", b), e.get("expansionLoc", e)
    if "offset" not in b or "offset" not in e:
        return ""
    f = b.get("file")
    if f and not f.endswith(rel):
        return ""
    try:
        data = open(os.path.join(cxxast.REPO, rel), "rb").read()
    except OSError:
        return ""
    return data[b["offset"]: e["offset"] + e.get("tokLen", 1)].decode("utf-8", "replace")


def assert_text(n):
    inner = [c for c in n.get("inner", []) if isinstance(c, dict)]
    for x in cxxast.walk(inner[2]):
        if x.get("kind") == "StringLiteral":
            return "assert(" + x.get("value", "").strip('"') + ")"
    return "assert(?)"


def is_assert(n):
    if n.get("kind") != "ConditionalOperator":
        return False
    inner = [c for c in n.get("inner", []) if isinstance(c, dict)]
    if len(inner) != 3:
        return False
    return any(x.get("referencedDecl", {}).get("name") == "__assert_fail" for x in cxxast.walk(inner[2]))


def lhs_member(n):
    """name of the index member an assignment writes, or None"""
    n = cxxast.strip(n)
    if n.get("kind") == "MemberExpr" and n.get("name") in INDEX_MEMBERS:
        return n["name"].rstrip("_")
    return None


def is_int(n):
    qt = n.get("type", {}).get("qualType", "")
    return bool(re.match(r"^(const )?(size_t|ssize_t|int|unsigned long|long|unsigned int|int\d+_t|uint\d+_t|unsigned char|char)$", qt))


def emit(defs, order, name, node, want, src):
    g = G()
    try:
        body = g.tr(node, want)
    except cxxast.Untranslatable as e:
        defs[name] = "(* untranslated %s: %s *)" % (name, str(e).replace("*)", ""))
        order.append(name)
        return
    vs = sorted(g.vars.items())
    args = "".join(" (%s : %s)" % (v, t) for v, t in vs)
    src = " ".join(src.split()).replace("*)", "* )").replace("(*", "( *")
    defs[name] = "(* %s *)\nDefinition %s%s : %s :=\n  %s." % (src, name, args, want, body)
    order.append(name)


def facts_of(fname, fn, defs, order, rel):
    cnt = {"if": 0, "assert": 0, "set": 0, "call": 0}
    # constructor initialisers
    for c in fn.get("inner", []):
        if isinstance(c, dict) and c.get("kind") == "CXXCtorInitializer":
            m = c.get("anyInit", {}).get("name", "?").rstrip("_")
            e = [x for x in c.get("inner", []) if isinstance(x, dict)]
            if e:
                x = cxxast.strip(e[0])
                if x.get("kind") == "CXXConstructExpr":      # buffer_(kCheapPrepend + initialSize)
                    a = [y for y in x.get("inner", []) if isinstance(y, dict) and y.get("kind") != "CXXDefaultArgExpr"]
                    if not a:
                        continue
                    x = a[0]
                emit(defs, order, "%s_init_%s" % (fname, m), x, "Z", text_of(c, rel))
    rets = []

    def visit(n):
        k = n.get("kind")
        kids = [c for c in n.get("inner", []) or [] if isinstance(c, dict)]
        if k == "IfStmt":
            emit(defs, order, "%s_if%d" % (fname, cnt["if"]), kids[0], "bool", "if (" + text_of(kids[0], rel) + ")")
            cnt["if"] += 1
            for c in kids[1:]:
                visit(c)
            return
        if is_assert(n):
            emit(defs, order, "%s_assert%d" % (fname, cnt["assert"]), kids[0], "bool", assert_text(n))
            cnt["assert"] += 1
            return
        if k in ("BinaryOperator", "CompoundAssignOperator") and n.get("opcode") in ("=", "+=", "-="):
            m = lhs_member(kids[0])
            if m is not None:
                op = n["opcode"]
                if op == "=":
                    node = kids[1]
                else:
                    node = {"kind": "BinaryOperator", "opcode": op[0], "inner": [kids[0], kids[1]]}
                emit(defs, order, "%s_set%d_%s" % (fname, cnt["set"], m), node, "Z", text_of(n, rel))
                cnt["set"] += 1
                return
        if k == "ReturnStmt" and kids and is_int(kids[0]):
            rets.append((kids[0], text_of(n, rel)))
        if k == "VarDecl" and kids and cxxast.strip(kids[-1]).get("kind") == "ConditionalOperator" and not is_assert(cxxast.strip(kids[-1])):
            emit(defs, order, "%s_let_%s" % (fname, n.get("name")), kids[-1], "Z", text_of(n, rel))
            return
        if k == "CXXMemberCallExpr":
            callee = cxxast.strip(kids[0])
            args = [c for c in kids[1:] if c.get("kind") != "CXXDefaultArgExpr"]
            iargs = [a for a in args if is_int(a)]
            if callee.get("kind") == "MemberExpr" and iargs:
                nm = callee.get("name")
                base = "%s_call%d_%s" % (fname, cnt["call"], nm)
                cnt["call"] += 1
                for j, a in enumerate(iargs):
                    emit(defs, order, base if len(iargs) == 1 else "%s_arg%d" % (base, j), a, "Z", text_of(n, rel))
        for c in kids:
            visit(c)

    visit(cxxast.body(fn))
    if len(rets) == 1:
        emit(defs, order, "%s_ret" % fname, rets[0][0], "Z", rets[0][1])


def main():
    out = ["(* GENERATED by lib/gen_C10.py from %s/%s (and the Buffer.h it includes) -- do not edit *)" % (cxxast.REPO, REL),
           "From Coq Require Import ZArith Bool.", "Local Open Scope Z_scope.", ""]
    msgs, defs, order = [], {}, []
    try:
        methods = {}
        for rel in (RELH, REL):
          for d in cxxast.dump(rel, "muduo::net::Buffer"):
            for n in cxxast.walk(d):
                if n.get("kind") in ("CXXMethodDecl", "CXXConstructorDecl") and \
                   any(isinstance(c, dict) and c.get("kind") == "CompoundStmt" for c in n.get("inner", [])):
                    if n.get("isImplicit"):
                        continue
                    nparm = len([c for c in n.get("inner", []) if isinstance(c, dict) and c.get("kind") == "ParmVarDecl"])
                    if (rel == REL) != (n["name"] == "readFd"):
                        continue
                    methods.setdefault(n["name"], {})[nparm] = (n, rel)
        for name in sorted(methods):
            ov = methods[name]
            for nparm in sorted(ov):
                # the const/non-const pair of begin()/beginWrite() has the same arity: one entry is enough
                fname = name if len(ov) == 1 else "%s%d" % (name, nparm)
                facts_of(fname, ov[nparm][0], defs, order, ov[nparm][1])
    except Exception as e:  # noqa
        msgs.append("MISSING everything: %s" % e)
    for nm in order:
        out.append(defs[nm])
        out.append("")
    for r in REQUIRED:
        if r not in defs or defs[r].startswith("(* untranslated"):
            out.append("(* MISSING %s *)" % r)
            msgs.append("MISSING %s" % r)
    txt = "\n".join(out) + "\n"
    path = os.path.join(cxxast.ROOT, "coq/Gen_C10.v")
    old = open(path).read() if os.path.exists(path) else None
    if old != txt:
        open(path, "w").write(txt)
    for m in msgs:
        print(m)
    return 0


if __name__ == "__main__":
    sys.exit(main())
