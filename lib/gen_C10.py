#!/usr/bin/env python3
"""C10 translator output -> coq/Gen_C10.v: the integer/boolean skeleton of muduo::net::Buffer
(muduo/net/Buffer.h, Buffer.cc) read from the clang JSON AST of the *current* sources:
for every member function, in source order,
  <f>_if<k>        condition of the k-th `if`
  <f>_assert<k>    condition of the k-th `assert(...)` (the macro is expanded: NDEBUG is not set)
  <f>_set<k>_<m>   new value of member m after the k-th assignment (=, +=, -=) to an index field
  <f>_ret          the returned integer expression (single-return observers)
  <f>_let_<v>      initialiser of a local whose initialiser is a ?: expression
  <f>_call<k>_<g>  the integer argument(s) of the k-th call of another member (retrieve, append, ...)
  <f>_init_<m>     constructor initialiser of member m
  <f>_tree         the statement tree of the body (review E-3): SAssert / SSet / SLet / SHavoc / SCall / SIf / SRet / SOther with
                   the facts above at their place, so that branch structure, order and presence of statements are generated too
  toStringPiece_len_cast_bits / append1_size_bits  width (bits) of the signed integer type the length of
                   toStringPiece() / StringPiece::size() is cast to (review B-3), 0 = no narrowing
all as Gallina functions (conditions: bool, the rest Z) over ONE record `obs` of NAMED observables
(review B-2): the free names of the C++ expression -- members (`readerIndex_` -> field `o_readerIndex`,
`buffer_.size()` -> `o_buffer_size`), observers (`readableBytes()` -> `o_readableBytes`), pointers
(`peek()`, `beginWrite()`, `start`, `end`: their addresses), `kCheapPrepend`, parameters and locals
(`len`, `n`, `writable`, `readable`, `reserve`, `initialSize`, ...) -- are read from the field of that
name, never from a position.  The vocabulary is fixed (VOCAB): a name outside it makes the fact
untranslated (MISSING when the link lemmas need it).  coq/C10_GenLink.v evaluates each fact on the
record built from a model buffer by NAME (`buf_obs`, over an arbitrary record for everything that is
not in scope) and proves it equal to the corresponding test of the hand model C10_Model, so editing an
operator or replacing an operand by another observable in the source breaks a proof obligation
directly.  Overloads are told apart by arity: findCRLF0 / findCRLF1."""
import os, sys, re
sys.path.insert(0, os.path.dirname(os.path.abspath(__file__)))
import cxxast

REL = "muduo/net/Buffer.cc"      # readFd
RELH = "muduo/net/Buffer.h"      # everything else (inline)
INDEX_MEMBERS = ("readerIndex_", "writerIndex_", "iov_len")

# facts that C10_GenLink.v uses: if one of them cannot be produced, say so loudly
REQUIRED = """
Buffer_init_buffer Buffer_init_readerIndex Buffer_init_writerIndex Buffer_assert0 Buffer_assert1 Buffer_assert2
readableBytes_ret writableBytes_ret prependableBytes_ret
findCRLF1_assert0 findCRLF1_assert1 findEOL1_assert0 findEOL1_assert1
retrieve_assert0 retrieve_if0 retrieve_set0_readerIndex
retrieveUntil_assert0 retrieveUntil_assert1 retrieveUntil_call0_retrieve
retrieveInt64_call0_retrieve retrieveInt32_call0_retrieve retrieveInt16_call0_retrieve retrieveInt8_call0_retrieve
retrieveAll_set0_readerIndex retrieveAll_set1_writerIndex
retrieveAllAsString_call0_retrieveAsString retrieveAsString_assert0 retrieveAsString_call0_retrieve
ensureWritableBytes_if0 ensureWritableBytes_assert0 ensureWritableBytes_call0_makeSpace
hasWritten_assert0 hasWritten_set0_writerIndex unwrite_assert0 unwrite_set0_writerIndex
peekInt64_assert0 peekInt32_assert0 peekInt16_assert0 peekInt8_assert0
prepend_assert0 prepend_set0_readerIndex shrink_call0_ensureWritableBytes
makeSpace_if0 makeSpace_call0_resize makeSpace_assert0 makeSpace_set0_readerIndex makeSpace_set1_writerIndex makeSpace_assert1
readFd_let_iovcnt readFd_if0 readFd_if1 readFd_set2_writerIndex readFd_set3_writerIndex readFd_call0_append
readFd_set0_iov_len readFd_set1_iov_len
toStringPiece_narrow0 toStringPiece_narrow0_arg append1_widen_signed0 narrowing_casts signed_widening_casts
append1_call0_append append2_char_call0_ensureWritableBytes append2_char_call1_hasWritten append2_void_call0_append
findEOL0_memchr0_len findEOL1_memchr0_len peekInt64_memcpy0_len peekInt32_memcpy0_len peekInt16_memcpy0_len
retrieveAsString_string0_len
retrieve_tree retrieveAll_tree retrieveUntil_tree retrieveAsString_tree ensureWritableBytes_tree makeSpace_tree readFd_tree
hasWritten_tree unwrite_tree prepend_tree append2_char_tree shrink_tree swap_tree makeSpace_let_readable readFd_let_writable
all_trees readFd_readv0_arg0 readFd_readv0_arg2
""".split()


# the named observables of record `obs` (fields o_<name>); fixed, so that the record type is stable
VOCAB = ["readerIndex", "writerIndex", "buffer_size",                 # private members / buffer_.size()
         "readableBytes", "writableBytes", "prependableBytes",       # public size observers
         "peek", "beginWrite",                                        # pointers (addresses)
         "kCheapPrepend",
         "len", "initialSize", "reserve", "start", "end", "size", "fd",   # parameters (size = str.size())
         "n", "writable", "readable", "iovcnt", "x", "result"]        # locals


class G(cxxast.GExpr):
    def var(self, name, ty):
        name = name.rstrip("_")
        if ty != "Z" or name not in VOCAB:
            raise cxxast.Untranslatable("name %s (%s) is outside the vocabulary of record obs" % (name, ty))
        self.vars[name] = ty
        return "(o_%s o)" % name

    def tr(self, node, want):
        n = cxxast.strip(node)
        k = n.get("kind")
        if k == "UnaryExprOrTypeTraitExpr":
            return "(%d)" % cxxast.const_eval(n)
        if k in ("CallExpr", "CXXMemberCallExpr"):
            callee = cxxast.strip(n["inner"][0])
            args = [c for c in n["inner"][1:] if isinstance(c, dict) and c.get("kind") != "CXXDefaultArgExpr"]
            nm = callee.get("name") or callee.get("referencedDecl", {}).get("name")
            if nm == "implicit_cast" and len(args) == 1:        # implicit_cast<size_t>(n)
                return self.tr(args[0], want)
        if k == "ConditionalOperator":
            c, a, b = [x for x in n["inner"] if isinstance(x, dict)]
            return "(if %s then %s else %s)" % (self.tr(c, "bool"), self.tr(a, want), self.tr(b, want))
        if k == "CXXThisExpr":
            raise cxxast.Untranslatable("this")
        return super().tr(node, want)


def text_of(node, rel):
    """source text of a node that lies in REPO/rel (macro expansions: the expansion range)"""
    rng = node.get("range", {})
    b, e = rng.get("begin", {}), rng.get("end", {})
    b, e = b.get("expansionLoc", b), e.get("expansionLoc", e)
    if "offset" not in b or "offset" not in e:
        return ""
    f = b.get("file")
    if f and not f.endswith(rel):
        return ""
    try:
        data = open(os.path.join(cxxast.REPO, rel), "rb").read()
    except OSError:
        return ""
    return data[b["offset"]: e["offset"] + e.get("tokLen", 1)].decode("utf-8", "replace")


def assert_text(n):
    inner = [c for c in n.get("inner", []) if isinstance(c, dict)]
    for x in cxxast.walk(inner[2]):
        if x.get("kind") == "StringLiteral":
            return "assert(" + x.get("value", "").strip('"') + ")"
    return "assert(?)"


def is_assert(n):
    if n.get("kind") != "ConditionalOperator":
        return False
    inner = [c for c in n.get("inner", []) if isinstance(c, dict)]
    if len(inner) != 3:
        return False
    return any(x.get("referencedDecl", {}).get("name") == "__assert_fail" for x in cxxast.walk(inner[2]))


def lhs_member(n):
    """name of the index member an assignment writes, or None"""
    n = cxxast.strip(n)
    if n.get("kind") == "MemberExpr" and n.get("name") in INDEX_MEMBERS:
        return n["name"].rstrip("_")
    return None


def is_int(n):
    qt = n.get("type", {}).get("qualType", "")
    return bool(re.match(r"^(const )?(size_t|ssize_t|int|unsigned long|long|unsigned int|int\d+_t|uint\d+_t|unsigned char|char)$", qt))


def emit(defs, order, name, node, want, src):
    g = G()
    try:
        body = g.tr(node, want)
    except cxxast.Untranslatable as e:
        defs[name] = "(* untranslated %s: %s *)" % (name, str(e).replace("*)", ""))
        order.append(name)
        return
    src = " ".join(src.split()).replace("*)", "* )").replace("(*", "( *")
    reads = ", ".join(sorted(g.vars)) or "nothing"
    defs[name] = "(* %s   -- reads: %s *)\nDefinition %s (o : obs) : %s :=\n  %s." % (src, reads, name, want, body)
    order.append(name)


def record_text():
    """Record obs, one setter per field, and the reduction tactic the link lemmas use"""
    out = ["(* the named observables every generated fact reads (review B-2): a fact never sees a position *)",
           "Record obs : Type := mkObs {"]
    out.append(";\n".join("  o_%s : Z" % v for v in VOCAB))
    out.append("}.")
    out.append("")
    for v in VOCAB:
        args = " ".join("v" if w == v else "(o_%s o)" % w for w in VOCAB)
        out.append("Definition set_%s (v : Z) (o : obs) : obs :=\n  mkObs %s." % (v, args))
    out.append("")
    out += ["(* the statement tree of a member function (review E-3): control structure with every fact at its place *)",
            "Inductive stmt : Type :=",
            "| SAssert (c : obs -> bool)                                  (* assert(c) *)",
            "| SSet (member : string) (e : obs -> Z)                      (* member = e  (readerIndex / writerIndex / iov_len) *)",
            "| SLet (x : string) (set : Z -> obs -> obs) (e : obs -> Z)   (* integer local x initialised with e *)",
            "| SHavoc (x : string)                                        (* local whose initialiser is not translated *)",
            "| SCall (callee : string) (args : list (obs -> Z))           (* call of a member function, its integer arguments *)",
            "| SIf (c : obs -> bool) (th el : list stmt)",
            "| SRet (e : obs -> Z)                                        (* return of the single integer result *)",
            "| SRetOther                                                  (* return of a non-integer value / plain return: ends the function *)",
            "| SLetCall (x : string) (callee : string) (args : list (obs -> Z))  (* integer local x = the bare result of a free function *)",
            "| SSwapWith (other : string) (member : string)               (* std::swap(member_, other.member_) *)",
            "| SOther (what : string).                                    (* anything else: std::copy, memcpy, *savedErrno = errno, ...;",
            "                                                                the generator guarantees it has no side effect on readerIndex_ /",
            "                                                                writerIndex_ / buffer_ (such a statement is MISSING instead) *)",
            ""]
    out.append("Ltac obs_red := cbv beta iota delta [%s\n  %s]." % (" ".join("o_" + v for v in VOCAB),
                                                                    " ".join("set_" + v for v in VOCAB)))
    out.append("")
    return out


WIDTH = {"size_t": 64, "unsigned long": 64, "long": 64, "ssize_t": 64, "int64_t": 64, "uint64_t": 64, "long long": 64,
         "unsigned long long": 64, "int": 32, "unsigned int": 32, "int32_t": 32, "uint32_t": 32, "short": 16,
         "unsigned short": 16, "int16_t": 16, "uint16_t": 16, "char": 8, "signed char": 8, "unsigned char": 8,
         "int8_t": 8, "uint8_t": 8}
SIGNED = ("long", "ssize_t", "int64_t", "long long", "int", "int32_t", "short", "int16_t", "char", "signed char", "int8_t")


def qt(n):
    return n.get("type", {}).get("qualType", "").replace("const ", "").strip()


def cast_facts(fname, body, defs, order, rel):
    """integer casts the expression translator looks through (cxxast.strip): a cast from a 64-bit type to a
    narrower one (<f>_narrow<k> := bits of the destination, <f>_narrow<k>_arg := the operand) and a conversion
    of a signed <= 32-bit value to a 64-bit unsigned type (<f>_widen_signed<k> := bits of the source)."""
    kn = kw = 0
    seen = set()
    for n in cxxast.walk(body):
        if n.get("kind") not in ("ImplicitCastExpr", "CXXStaticCastExpr", "CStyleCastExpr", "CXXFunctionalCastExpr"):
            continue
        if n.get("castKind") != "IntegralCast":
            continue
        kids = [c for c in n.get("inner", []) if isinstance(c, dict)]
        if len(kids) != 1:
            continue
        src, dst = qt(kids[0]), qt(n)
        if src not in WIDTH or dst not in WIDTH:
            if src != dst:
                defs["%s_cast_unknown%d" % (fname, kn + kw)] = "(* untranslated cast %s -> %s in %s *)" % (src, dst, fname)
                order.append("%s_cast_unknown%d" % (fname, kn + kw))
            continue
        if isinstance(cxxast.strip(kids[0]), dict) and cxxast.strip(kids[0]).get("kind") in ("IntegerLiteral", "CharacterLiteral", "UnaryExprOrTypeTraitExpr"):
            continue                                   # a constant: its value is what the facts carry
        if WIDTH[src] == 64 and WIDTH[dst] < 64:
            name = "%s_narrow%d" % (fname, kn)
            kn += 1
            defs[name] = "(* %s : %s -> %s *)\nDefinition %s : Z := (%d)." % (
                " ".join(text_of(n, rel).split()).replace("*)", "* )"), src, dst, name, WIDTH[dst])
            order.append(name)
            emit(defs, order, name + "_arg", kids[0], "Z", text_of(kids[0], rel))
        elif WIDTH[dst] == 64 and dst not in SIGNED and WIDTH[src] <= 32 and src in SIGNED:
            name = "%s_widen_signed%d" % (fname, kw)
            kw += 1
            defs[name] = "(* %s : %s -> %s *)\nDefinition %s : Z := (%d)." % (
                " ".join(text_of(kids[0], rel).split()).replace("*)", "* )"), src, dst, name, WIDTH[src])
            order.append(name)


FREE_LEN_CALLS = {"memchr": 2, "memcpy": 2}      # free function -> index of its length argument


STATE = ("readerIndex_", "writerIndex_", "buffer_")
ASSIGN_ALL = ("=", "+=", "-=", "*=", "/=", "%=", "&=", "|=", "^=", "<<=", ">>=")
FAILED = []


def is_assert_call(x):
    ks = [c for c in x.get("inner", []) or [] if isinstance(c, dict)]
    return bool(ks) and cxxast.strip(ks[0]).get("referencedDecl", {}).get("name") == "__assert_fail"


OBSERVERS = ("readableBytes", "writableBytes", "prependableBytes", "peek", "beginWrite", "begin", "size", "data", "capacity",
             "operator*", "operator[]")


def qs(x):
    return '"%s"%%string' % x.replace('"', "'")


def facts_of(fname, fn, defs, order, rel):
    """facts of one member function (names as documented at the top) AND its statement tree <f>_tree (review E-3):
    the control structure of the body with every fact at its place --
      SAssert c | SSet member e | SLet local setter e | SHavoc local | SCall callee [integer args] | SIf c then else |
      SRet e | SOther tag
    so that which branch a statement is in, its order, and its presence are part of what the link lemmas compare."""
    cnt = {"if": 0, "assert": 0, "set": 0, "call": 0, "free": 0, "ctor": 0, "stmt": 0}
    try:
        cast_facts(fname, cxxast.body(fn), defs, order, rel)
    except cxxast.Untranslatable:
        pass
    # constructor initialisers
    for c in fn.get("inner", []):
        if isinstance(c, dict) and c.get("kind") == "CXXCtorInitializer":
            m = c.get("anyInit", {}).get("name", "?").rstrip("_")
            e = [x for x in c.get("inner", []) if isinstance(x, dict)]
            if e:
                x = cxxast.strip(e[0])
                if x.get("kind") == "CXXConstructExpr":      # buffer_(kCheapPrepend + initialSize)
                    a = [y for y in x.get("inner", []) if isinstance(y, dict) and y.get("kind") != "CXXDefaultArgExpr"]
                    if not a:
                        continue
                    x = a[0]
                emit(defs, order, "%s_init_%s" % (fname, m), x, "Z", text_of(c, rel))
    body = cxxast.body(fn)
    int_rets = [n for n in cxxast.walk(body) if n.get("kind") == "ReturnStmt" and
                [c for c in n.get("inner", []) if isinstance(c, dict)] and is_int([c for c in n.get("inner", []) if isinstance(c, dict)][0])]
    single_ret = len(int_rets) == 1
    ret_done = []

    def kids_of(n):
        return [c for c in n.get("inner", []) or [] if isinstance(c, dict)]

    def ok(name):
        return name in defs and not defs[name].startswith("(* untranslated")

    def generic(n, tags):
        """facts nested in an expression / unstructured statement; returns the SCall entries of the member calls in it
        (inner calls first); free-function callee names are collected in tags"""
        k = n.get("kind")
        kids = kids_of(n)
        res = []
        mine = None
        if k == "CallExpr" and kids:
            callee = cxxast.strip(kids[0])
            nm = callee.get("referencedDecl", {}).get("name")
            if nm and nm != "__assert_fail":
                tags.append(nm)
            if nm in FREE_LEN_CALLS and len(kids) > 1 + FREE_LEN_CALLS[nm]:
                emit(defs, order, "%s_%s%d_len" % (fname, nm, cnt["free"]), kids[1 + FREE_LEN_CALLS[nm]], "Z", text_of(n, rel))
                cnt["free"] += 1
        if k == "CXXConstructExpr" and qt(n) in ("std::string", "string"):
            args = [c for c in kids if c.get("kind") != "CXXDefaultArgExpr"]
            if len(args) == 2 and is_int(args[1]):          # string(ptr, len)
                emit(defs, order, "%s_string%d_len" % (fname, cnt["ctor"]), args[1], "Z", text_of(n, rel))
                cnt["ctor"] += 1
                tags.append("string")
        if k == "CXXMemberCallExpr":
            callee = cxxast.strip(kids[0])
            args = [c for c in kids[1:] if c.get("kind") != "CXXDefaultArgExpr"]
            iargs = [a for a in args if is_int(a)]
            if callee.get("kind") == "MemberExpr":
                nm = callee.get("name")
                names = []
                if iargs:
                    base = "%s_call%d_%s" % (fname, cnt["call"], nm)
                    cnt["call"] += 1
                    for j, a in enumerate(iargs):
                        an = base if len(iargs) == 1 else "%s_arg%d" % (base, j)
                        emit(defs, order, an, a, "Z", text_of(n, rel))
                        names.append(an if ok(an) else "UNTRANSLATED_" + an)
                obj = kids_of(callee)[0] if kids_of(callee) else {}
                while obj.get("kind") in ("ImplicitCastExpr", "ParenExpr") and kids_of(obj):
                    obj = kids_of(obj)[0]
                prefix = "" if obj.get("kind") == "CXXThisExpr" else \
                    (obj.get("name") or obj.get("referencedDecl", {}).get("name") or "?").rstrip("_") + "."
                if nm not in OBSERVERS and not nm.startswith("operator"):
                    mine = "SCall %s [%s]" % (qs(prefix + nm), "; ".join(names))
        for c in kids:
            res += generic(c, tags)
        if mine:
            res.append(mine)
        return res

    def unwrap(n):
        while n.get("kind") in ("ParenExpr", "ExprWithCleanups") and len(kids_of(n)) == 1:
            n = kids_of(n)[0]
        return n

    def untranslated(name, why):
        FAILED.append("MISSING %s (%s: %s)" % (name, fname, why))
        cnt["stmt"] += 1
        return "UNTRANSLATED_" + name

    def by_ref_state(a):
        """does the argument expression hand readerIndex_ / writerIndex_ / buffer_ (of any object) to the callee as an lvalue?"""
        while True:
            ka = a.get("kind")
            if ka == "MemberExpr":                    # of THIS object (rhs.buffer_ handed to buffer_.swap is the other buffer's)
                base = kids_of(a)[0] if kids_of(a) else {}
                while base.get("kind") in ("ImplicitCastExpr", "ParenExpr") and kids_of(base):
                    base = kids_of(base)[0]
                return a.get("name") in STATE and base.get("kind") == "CXXThisExpr"
            if ka == "ParenExpr" or (ka == "ImplicitCastExpr" and a.get("castKind") != "LValueToRValue") or \
               (ka == "UnaryOperator" and a.get("opcode") == "&"):
                if len(kids_of(a)) != 1:
                    return False
                a = kids_of(a)[0]
                continue
            return False

    def mentions_state(a):
        return any(x.get("kind") == "MemberExpr" and x.get("name") in STATE for x in cxxast.walk(a))

    def scan(node, collect=False):
        """fail closed (review F-1): a side effect on readerIndex_ / writerIndex_ / buffer_ that the tree does not show as
        SSet / SCall / SSwapWith -- ++/--, any assignment operator, a call that takes one of them by reference -- anywhere
        in an otherwise untranslated statement or sub-expression"""
        for x in cxxast.walk(node):
            kx = x.get("kind")
            xs = kids_of(x)
            why = None
            if kx == "UnaryOperator" and x.get("opcode") in ("++", "--") and xs and mentions_state(xs[0]):
                why = "%s on an index member inside an expression" % x.get("opcode")
            elif kx in ("BinaryOperator", "CompoundAssignOperator") and x.get("opcode") in ASSIGN_ALL and xs and mentions_state(xs[0]):
                why = "assignment %s to an index member / buffer_ inside an expression" % x.get("opcode")
            elif kx in ("CallExpr", "CXXOperatorCallExpr", "CXXMemberCallExpr", "CXXConstructExpr") and not is_assert_call(x):
                args = xs[1:] if kx != "CXXConstructExpr" else xs
                if any(by_ref_state(a) for a in args):
                    why = "%s is handed an index member / buffer_ by reference" % (
                        cxxast.strip(xs[0]).get("referencedDecl", {}).get("name") or cxxast.strip(xs[0]).get("name") or kx)
            if why:
                if collect:
                    return why
                FAILED.append("MISSING %s_stmt%d (%s: %s)" % (fname, cnt["stmt"], fname, why))
                return why
        return None

    def tree(n):
        k = n.get("kind")
        kids = kids_of(n)
        if k == "CompoundStmt":
            res = []
            for c in kids:
                res += tree(c)
            return res
        if k == "IfStmt":
            name = "%s_if%d" % (fname, cnt["if"])
            emit(defs, order, name, kids[0], "bool", "if (" + text_of(kids[0], rel) + ")")
            cnt["if"] += 1
            th = tree(kids[1]) if len(kids) > 1 else []
            el = tree(kids[2]) if len(kids) > 2 else []
            return ["SIf %s [%s] [%s]" % (name if ok(name) else "UNTRANSLATED_" + name, "; ".join(th), "; ".join(el))]
        u = unwrap(n)
        uk = u.get("kind")
        ukids = kids_of(u)
        if is_assert(u):
            name = "%s_assert%d" % (fname, cnt["assert"])
            emit(defs, order, name, ukids[0], "bool", assert_text(u))
            cnt["assert"] += 1
            return ["SAssert %s" % (name if ok(name) else "UNTRANSLATED_" + name)]
        ARITH = {"+=": "+", "-=": "-", "*=": "*", "/=": "/", "%=": "%"}
        if uk in ("BinaryOperator", "CompoundAssignOperator") and u.get("opcode") in ASSIGN_ALL:
            m = lhs_member(ukids[0])
            if m is not None:
                op = u["opcode"]
                name = "%s_set%d_%s" % (fname, cnt["set"], m)
                cnt["set"] += 1
                if op != "=" and op not in ARITH:
                    return [untranslated(name, "%s on %s" % (op, m))]
                scan(ukids[1])
                node = ukids[1] if op == "=" else {"kind": "BinaryOperator", "opcode": ARITH[op], "inner": [ukids[0], ukids[1]]}
                emit(defs, order, name, node, "Z", text_of(u, rel))
                return ["SSet %s %s" % (qs(m), name if ok(name) else "UNTRANSLATED_" + name)]
        if uk == "UnaryOperator" and u.get("opcode") in ("++", "--"):
            m = lhs_member(ukids[0])
            if m is not None:                         # ++readerIndex_ / writerIndex_-- as a statement
                name = "%s_set%d_%s" % (fname, cnt["set"], m)
                cnt["set"] += 1
                node = {"kind": "BinaryOperator", "opcode": u["opcode"][0],
                        "inner": [ukids[0], {"kind": "IntegerLiteral", "value": "1", "type": {"qualType": "int"}}]}
                emit(defs, order, name, node, "Z", text_of(u, rel))
                return ["SSet %s %s" % (qs(m), name if ok(name) else "UNTRANSLATED_" + name)]
        if uk == "CallExpr" and len(ukids) == 3:      # std::swap(member_, rhs.member_)
            cal = cxxast.strip(ukids[0]).get("referencedDecl", {}).get("name")
            a, b = ukids[1], ukids[2]
            if cal == "swap" and a.get("kind") == "MemberExpr" and b.get("kind") == "MemberExpr" and a.get("name") == b.get("name") \
               and kids_of(a) and kids_of(a)[0].get("kind") == "CXXThisExpr" \
               and kids_of(b) and cxxast.strip(kids_of(b)[0]).get("kind") == "DeclRefExpr":
                return ["SSwapWith %s %s" % (qs(cxxast.strip(kids_of(b)[0]).get("referencedDecl", {}).get("name", "?")),
                                             qs(a.get("name", "?").rstrip("_")))]
        bad = scan(u, collect=True)
        if bad:
            return [untranslated("%s_stmt%d" % (fname, cnt["stmt"]), bad)]
        if k == "DeclStmt":
            res = []
            for v in kids:
                if v.get("kind") != "VarDecl":
                    continue
                vk = kids_of(v)
                vn = v.get("name", "?")
                if vk and is_int(v):
                    name = "%s_let_%s" % (fname, vn)
                    emit(defs, order, name, vk[-1], "Z", text_of(v, rel))
                    if ok(name) and vn in VOCAB:
                        res.append("SLet %s set_%s %s" % (qs(vn), vn, name))
                        continue
                    del defs[name]                 # untranslatable, or a local no fact reads: no fact
                    order.remove(name)
                init = unwrap(vk[-1]) if vk else {}
                while init.get("kind") == "ImplicitCastExpr" and len(kids_of(init)) == 1:
                    init = kids_of(init)[0]
                if init.get("kind") == "CallExpr" and is_int(v):
                    # `const ssize_t n = sockets::readv(fd, vec, iovcnt)`: the local IS the result of that call (no arithmetic
                    # on it), and the integer arguments handed to the callee are facts
                    ik = kids_of(init)
                    cal = cxxast.strip(ik[0]).get("referencedDecl", {}).get("name", "?")
                    names = []
                    for j, a in enumerate(ik[1:]):
                        if is_int(a):
                            an = "%s_%s%d_arg%d" % (fname, cal, cnt["free"], j)
                            emit(defs, order, an, a, "Z", text_of(init, rel))
                            names.append(an if ok(an) else "UNTRANSLATED_" + an)
                    cnt["free"] += 1
                    res.append("SLetCall %s %s [%s]" % (qs(vn), qs(cal), "; ".join(names)))
                    continue
                tags = []
                res += generic(v, tags)
                res.append("SHavoc %s" % qs(vn))
            return res
        if k == "ReturnStmt":
            if kids and is_int(kids[0]) and single_ret:
                name = "%s_ret" % fname
                ret_done.append((kids[0], text_of(n, rel)))
                return ["SRET"]                      # patched below, once the fact has been emitted in its old place
            tags = []
            res = generic(n, tags)
            return res + ["SRetOther"]
        tags = []
        res = generic(u, tags)
        if uk == "CXXMemberCallExpr" and res:
            return res                               # a statement that IS a member call (its nested calls first)
        tag = tags[0] if tags else {"BinaryOperator": "assign", "CompoundAssignOperator": "assign",
                                    "CXXOperatorCallExpr": "operator", "NullStmt": "empty"}.get(uk, uk or "?")
        return res + ["SOther %s" % qs(tag)]

    t = tree(body)
    if ret_done:
        emit(defs, order, "%s_ret" % fname, ret_done[0][0], "Z", ret_done[0][1])
        rn = "%s_ret" % fname
        t = [x.replace("SRET", "SRet %s" % rn) if ok(rn) else x.replace("SRET", "SRetOther") for x in t]
    nm = "%s_tree" % fname
    defs[nm] = "Definition %s : list stmt :=\n  [%s]." % (nm, ";\n   ".join(t))
    order.append(nm)


LIBC_GLOBALS = ("stderr", "stdout", "stdin")


def _is_const(n):
    q = n.get("type", {}).get("qualType", "")
    return q.startswith("const ") or " const" in q.split("[")[0] or n.get("constexpr", False)


def shared_state_facts():
    """(readFd_extrabuf_is_automatic, Buffer_shares_no_state, [what was found]) -- seeded change C01_4 made the spill area of
    readFd `static`: shared by every Buffer on every thread.
    extrabuf is automatic: the VarDecl named extrabuf inside Buffer::readFd has no storage class (not static / extern), is
    not thread_local, and is a local of that function.
    Buffer shares no state: class Buffer has no static data member other than static const constants (kCheapPrepend,
    kInitialSize, kCRLF), no member function has a static or thread_local local, and no member function refers to a
    non-const variable declared outside it (namespace scope / other class), libc's stdio handles excepted."""
    found = []
    auto = None
    seen = False
    for rel in (RELH, REL):
        for d in cxxast.dump(rel, "muduo::net::Buffer"):
            if d.get("kind") == "CXXRecordDecl" and d.get("name") == "Buffer":
                seen = True
                for n in d.get("inner", []) or []:
                    if isinstance(n, dict) and n.get("kind") == "VarDecl" and n.get("storageClass") == "static" and not _is_const(n):
                        found.append("static data member Buffer::%s : %s" % (n.get("name"), n.get("type", {}).get("qualType")))
            if d.get("kind") == "VarDecl" and not _is_const(d):      # out-of-class definition of a static member
                found.append("non-const static member definition %s" % d.get("name"))
            for fn in cxxast.walk(d):
                if fn.get("kind") not in ("CXXMethodDecl", "CXXConstructorDecl", "CXXDestructorDecl"):
                    continue
                if not any(isinstance(c, dict) and c.get("kind") == "CompoundStmt" for c in fn.get("inner", [])):
                    continue
                local = set()
                for n in cxxast.walk(fn):
                    if n.get("kind") in ("VarDecl", "ParmVarDecl"):
                        local.add(n.get("id"))
                        if n.get("kind") == "VarDecl":
                            shared = n.get("storageClass") in ("static", "extern") or n.get("tls")
                            if fn.get("name") == "readFd" and n.get("name") == "extrabuf":
                                auto = not shared
                            if shared and not (_is_const(n) and not n.get("tls")):
                                found.append("%s local %s in Buffer::%s" % (n.get("storageClass") or "thread_local", n.get("name"), fn.get("name")))
                for n in cxxast.walk(fn):
                    if n.get("kind") == "DeclRefExpr":
                        r = n.get("referencedDecl", {}) or {}
                        if r.get("kind") == "VarDecl" and r.get("id") not in local and r.get("name") not in LIBC_GLOBALS and not _is_const(r):
                            found.append("Buffer::%s refers to the non-local variable %s : %s" % (fn.get("name"), r.get("name"), r.get("type", {}).get("qualType")))
    if not seen:
        raise cxxast.Untranslatable("class Buffer not found")
    if auto is None:
        raise cxxast.Untranslatable("no local named extrabuf in Buffer::readFd")
    return auto, (not found), sorted(set(found))


def main():
    out = ["(* GENERATED by lib/gen_C10.py from %s/%s (and the Buffer.h it includes) -- do not edit *)" % (cxxast.REPO, REL),
           "From Coq Require Import ZArith Bool String List.", "Import ListNotations.", "Local Open Scope Z_scope.", ""]
    out += record_text()
    msgs, defs, order = [], {}, []
    try:
        methods = {}
        for rel in (RELH, REL):
          for d in cxxast.dump(rel, "muduo::net::Buffer"):
            for n in cxxast.walk(d):
                if n.get("kind") in ("CXXMethodDecl", "CXXConstructorDecl") and \
                   any(isinstance(c, dict) and c.get("kind") == "CompoundStmt" for c in n.get("inner", [])):
                    if n.get("isImplicit"):
                        continue
                    parms = [c for c in n.get("inner", []) if isinstance(c, dict) and c.get("kind") == "ParmVarDecl"]
                    nparm = len(parms)
                    if (rel == REL) != (n["name"] == "readFd"):
                        continue
                    # the const/non-const pair of begin()/beginWrite() has no parameter: one entry is enough;
                    # overloads of the same arity (append(const char*, size_t) / append(const void*, size_t))
                    # are told apart by the type of their first parameter
                    t0 = re.sub(r"[^A-Za-z0-9]+", "_", parms[0].get("type", {}).get("qualType", "").replace("const ", "")).strip("_") if parms else ""
                    methods.setdefault(n["name"], {}).setdefault(nparm, {})[t0] = (n, rel)
        for name in sorted(methods):
            ov = methods[name]
            for nparm in sorted(ov):
                for t0 in sorted(ov[nparm]):
                    fname = name if len(ov) == 1 and len(ov[nparm]) == 1 else "%s%d" % (name, nparm)
                    if len(ov[nparm]) > 1:
                        fname += "_" + t0
                    facts_of(fname, ov[nparm][t0][0], defs, order, ov[nparm][t0][1])
        trees = [k for k in order if k.endswith("_tree")]
        defs["all_trees"] = "(* every statement tree, by function name (review F-2: compared with the pinned shapes in C10_GenLink) *)\n" \
            "Definition all_trees : list (string * list stmt) :=\n  [%s]." % ";\n   ".join("(%s, %s)" % (qs(k[:-5]), k) for k in trees)
        order.append("all_trees")
        nn = sum(1 for k in order if re.search(r"_narrow\d+$", k))
        nw = sum(1 for k in order if "_widen_signed" in k)
        defs["narrowing_casts"] = "(* number of integer casts from a 64-bit to a narrower type in Buffer.h/.cc *)\nDefinition narrowing_casts : Z := (%d)." % nn
        defs["signed_widening_casts"] = "(* number of conversions of a signed <= 32-bit value to a 64-bit unsigned type *)\nDefinition signed_widening_casts : Z := (%d)." % nw
        order += ["narrowing_casts", "signed_widening_casts"]
    except Exception as e:  # noqa
        msgs.append("MISSING everything: %s" % e)
    for nm in order:
        out.append(defs[nm])
        out.append("")
    try:
        auto, noshare, what = shared_state_facts()
        out.append("(* Buffer::readFd: `extrabuf` has automatic storage (a fresh array per call, on the calling thread's stack): %s *)" % auto)
        out.append("Definition readFd_extrabuf_is_automatic : bool := %s." % ("true" if auto else "false"))
        out.append("(* class Buffer: %s *)" % ("; ".join(what).replace("*)", "* )") if what else
                   "no static data member but the static const constants, no static / thread_local local in a member function, "
                   "no member function refers to a non-const variable outside its object"))
        out.append("Definition Buffer_shares_no_state : bool := %s." % ("true" if noshare else "false"))
        out.append("")
    except Exception as e:  # noqa
        msgs.append("MISSING Buffer_shares_no_state (%s)" % e)
    msgs += FAILED
    for r in REQUIRED:
        if r not in defs or defs[r].startswith("(* untranslated"):
            out.append("(* MISSING %s *)" % r)
            msgs.append("MISSING %s" % r)
    txt = "\n".join(out) + "\n"
    path = os.path.join(cxxast.ROOT, "coq/Gen_C10.v")
    old = open(path).read() if os.path.exists(path) else None
    if old != txt:
        open(path, "w").write(txt)
    for m in msgs:
        print(m)
    return 0


if __name__ == "__main__":
    sys.exit(main())
