"""C06 (and, through run_common, C07): timers never fire early, run as often as scheduled, in
deadline order, none lost / cancel() stops a timer for good and never disturbs any other.

proof (Properties_C06.v / Properties_C07.v over the shared TimerModel C06_Model.v) + correspondence of
the extracted model with the real muduo::net::TimerQueue inside a real EventLoop (driver style A:
virtual clock via --wrap=gettimeofday, armed value via --wrap=timerfd_settime, expiry injected by
calling TimerQueue::handleRead(), real allocator addresses fed to the model as the environment's
choice) + an independent oracle = the property text evaluated on the implementation's trace."""
import os, re, sys, glob, time
import vlib

WRAP = ["gettimeofday", "timerfd_settime", "read", "pthread_mutex_lock"]
CLK0 = 1700000000000000
FLOOR = 100
C06_CLAUSES = ("early", "once", "spacing", "order", "lost", "armed", "sets", "id", "crash", "format", "thread")   # thread: free-running part only (B-10)
C07_CLAUSES = ("cancel", "cancel-queued-add", "lost", "once", "id", "crash", "sets", "format")   # lost/once: a cancel must not kill or duplicate ANOTHER timer

RUN = re.compile(r"^run\((-?\d+),(-?\d+),(-?\d+),(-?\d+)\)$")
ARM = re.compile(r"^arm\((-?\d+),(-?\d+)\)$")
ADD = re.compile(r"^add\((-?\d+)\)$")
BADID = re.compile(r"^bad(id|new)\((-?\d+)(?:,(-?\d+))?\)$")
LINE = re.compile(r"^(ok|rejected) (.*) \| n=(\d+) a=(\d+) c=(\d+) p=(\d+) arm=(-|-?\d+)$")


def exact_iv(iv):
    return iv <= 0 or int((iv / 1e6) * 1000000.0) == iv


def iv_of(tok):
    """interval token of the case format -> (repeating, delta in us).  "<n>ns" is the double n/1e9 seconds; the delta is
    what muduo's addTime computes from it: static_cast<int64_t>(seconds * 1e6) (IEEE double product, truncated)."""
    if tok.endswith("ns"):
        ns = float(tok[:-2])
        return (True, int((ns / 1e9) * 1000000.0)) if ns > 0 else (False, 0)
    v = int(tok)
    return (v > 0, v if v > 0 else 0)


# ------------------------------------------------------------------ case text helpers
def parse_script(tokens):
    """tokens after 'F': '[' ... ']' -> list of groups, each a list of cbop token lists."""
    assert tokens[0] == "[" and tokens[-1] == "]", tokens
    groups, cur, op = [], [], []
    for t in tokens[1:-1]:
        if t == ";":
            if op:
                cur.append(op)
            groups.append(cur)
            cur, op = [], []
        elif t == ",":
            if op:
                cur.append(op)
            op = []
        else:
            op.append(t)
    if op:
        cur.append(op)
    groups.append(cur)
    return groups


def parse_qbody(tokens):
    """tokens of a Q op: ['Q', '{', ..., '}'] -> list of cbop token lists"""
    assert tokens[0] == "Q" and tokens[1] == "{" and tokens[-1] == "}", tokens
    ops, cur = [], []
    for t in tokens[2:-1]:
        if t == "|":
            if cur:
                ops.append(cur)
            cur = []
        else:
            cur.append(t)
    if cur:
        ops.append(cur)
    return ops


def fmt_script(groups):
    return "F [ " + " ; ".join(" , ".join(" ".join(o) for o in g) for g in groups) + " ]"


# ------------------------------------------------------------------ the property oracle
class Tm:
    __slots__ = ("tag", "when", "iv", "rep", "seq", "state", "runs", "next_dl", "cancel_in_f", "lost_cancel", "foreign")

    def __init__(self, tag, when, iv, foreign, rep=None):
        self.tag, self.when, self.iv, self.foreign = tag, when, iv, foreign
        self.rep = (iv > 0) if rep is None else rep
        self.seq, self.state, self.runs, self.next_dl = None, "new", [], when
        self.cancel_in_f, self.lost_cancel = None, False


def oracle(case, lines):
    """The property text on the implementation's trace.  Returns a list of (clause, op index, message).
    Independent of the Coq model: plain bookkeeping of which timers are registered / due / cancelled."""
    bad = []
    tags, byseq, queue, inflight = {}, {}, [], {}
    clk = int(case.header.split()[0])
    arm_at = None
    ops = [o for o in case.ops if not o.startswith("addr ")]
    body = [l for l in lines[1:] if not l.startswith("@")]
    stats = {"runs": 0, "batch_max": 0, "stale_cancels": 0, "inbatch_cancels": 0, "nested_adds": 0}

    def cancel(tag, fidx, due_now, t="bytag"):
        if t == "bytag":
            t = tags.get(tag)
        if t is None:
            stats["stale_cancels"] += 1
            return
        if t.state == "queued":
            t.lost_cancel = True
        elif t.state == "pending":
            t.state = "cancelled"
            t.cancel_in_f = fidx if (fidx is not None and t in due_now) else None
            if fidx is not None:
                stats["inbatch_cancels"] += 1
        else:
            stats["stale_cancels"] += 1

    def do_add(w, evs, idx, foreign):
        """w = [A|FA, tag, when, iv]; pops the add event. returns False on format error"""
        tag, when = int(w[1]), int(w[2])
        rep_, iv = iv_of(w[3])
        while evs and ARM.match(evs[0]):
            m = ARM.match(evs.pop(0))
            note_arm(m)
        if when <= 0:
            if evs and evs[0] == "rejected":
                evs.pop(0)
            return
        while evs and ARM.match(evs[0]):
            m = ARM.match(evs.pop(0))
            note_arm(m)
        if not evs or not ADD.match(evs[0]):
            bad.append(("format", idx, "no add event for %s" % " ".join(w)))
            return
        seq = int(ADD.match(evs.pop(0)).group(1))
        if seq in byseq:
            bad.append(("cancel", idx, "sequence number %d handed out twice" % seq))
        t = Tm(tag, when, iv, foreign, rep=rep_)
        t.seq = seq
        t.state = "inflight" if foreign == "new" else ("queued" if foreign else "pending")
        if foreign == "new":
            inflight[tag] = t          # the id is not public before the add returns (FQ)
        else:
            tags[tag] = t
        byseq[seq] = t
        if foreign and foreign != "new":
            queue.append(("add", t))

    def note_arm(m):
        nonlocal arm_at
        arm_at = int(m.group(1))

    def do_enq(tag, evs, idx):
        """FQ: the hand-off of an in-flight foreign add"""
        while evs and BADID.match(evs[0]):
            bad.append(("id", idx, "the id returned by the foreign add of tag %d does not carry its timer's sequence number: %s" % (tag, evs.pop(0))))
        t = inflight.pop(tag, None)
        if t is None:
            return
        t.state = "queued"
        tags[tag] = t
        queue.append(("add", t))

    def do_queue(w):
        """Q { ... }: a user functor; cancels name the id the tag has now"""
        ops = []
        for cw in parse_qbody(w):
            if cw[0] in ("C", "FC"):
                ops.append((cw, tags.get(int(cw[1]))))
            else:
                ops.append((cw, None))
        queue.append(("user", ops))

    def run_cbops(ops, evs, idx, fidx, due):
        """ops of a callback / a top-level op list; returns nothing, mutates the bookkeeping"""
        nonlocal clk

        def skip_arms():
            while evs and ARM.match(evs[0]):
                note_arm(ARM.match(evs.pop(0)))
        for cw in ops:
            ck = cw[0]
            if ck == "T":
                if int(cw[1]) >= 0:
                    clk += int(cw[1])
                else:
                    skip_arms()
                    if evs and evs[0] == "rejected":
                        evs.pop(0)
            elif ck in ("A", "FA"):
                stats["nested_adds"] += 1
                do_add(cw, evs, idx, ck == "FA")
            elif ck == "FN":
                do_add(cw, evs, idx, "new")
            elif ck == "FQ":
                skip_arms()
                if int(cw[1]) in inflight:
                    do_enq(int(cw[1]), evs, idx)
                elif evs and evs[0] == "rejected":
                    evs.pop(0)
            elif ck == "Q":
                do_queue(cw)
            elif ck == "C":
                cancel(int(cw[1]), fidx, due)
            elif ck == "FC":
                queue.append(("cancel", tags.get(int(cw[1]))))

    for idx, op in enumerate(ops):
        if idx >= len(body) or body[idx] in ("end",) or body[idx].startswith("destroy"):
            bad.append(("crash", idx, "missing output for op %r" % op))
            return bad, stats
        m = LINE.match(body[idx])
        if not m:
            bad.append(("format", idx, "unparsable line %r" % body[idx]))
            return bad, stats
        status, evtxt, n, a, c, p, arm = m.group(1), m.group(2), int(m.group(3)), int(m.group(4)), int(m.group(5)), int(m.group(6)), m.group(7)
        evs = [] if evtxt == "-" else evtxt.split(" ")
        w = op.split()
        k = w[0]
        if status == "rejected":
            pass
        elif k == "T":
            clk += int(w[1])
        elif k in ("A", "FA"):
            do_add(w, evs, idx, k == "FA")
        elif k == "FN":
            do_add(w, evs, idx, "new")
        elif k == "FQ":
            do_enq(int(w[1]), evs, idx)
        elif k == "Q":
            do_queue(w)
        elif k == "C":
            cancel(int(w[1]), None, ())
        elif k == "FC":
            queue.append(("cancel", tags.get(int(w[1]))))
        elif k == "P":
            batch, queue = queue, []          # doPendingFunctors swaps the queue; what is queued meanwhile waits
            for (what, x) in batch:
                if what == "add":
                    if x.state == "queued":
                        x.state = "pending"
                elif what == "cancel":
                    cancel(None, None, (), t=x)
                else:
                    for (cw, tm) in x:
                        if cw[0] == "C":
                            cancel(None, None, (), t=tm)
                        elif cw[0] == "FC":
                            queue.append(("cancel", tm))
                        else:
                            run_cbops([cw], evs, idx, None, ())
        elif k == "F":
            groups = parse_script(w[1:])
            now = clk
            due = [t for t in tags.values() if t.state == "pending" and t.next_dl <= now]
            ran, last_dl, gi = [], None, 0
            while evs:
                e = evs.pop(0)
                mr = RUN.match(e)
                if not mr:
                    ma = ARM.match(e)
                    if ma:
                        note_arm(ma)
                    continue
                seq, t_run = int(mr.group(1)), int(mr.group(4))
                stats["runs"] += 1
                t = byseq.get(seq)
                if t is None:
                    bad.append(("format", idx, "run of unknown sequence %d" % seq))
                    continue
                if t.state == "cancelled" and t.cancel_in_f != idx:
                    key = "cancel-queued-add" if t.lost_cancel else "cancel"
                    bad.append((key, idx, "timer tag %d (seq %d) ran at %d after its cancel had been processed" % (t.tag, seq, t_run)))
                elif t.state == "pending" and t.lost_cancel:
                    bad.append(("cancel-queued-add", idx, "timer tag %d (seq %d) ran at %d although cancel(id) was processed by the loop "
                                "(the cancel overtook the still queued addTimerInLoop)" % (t.tag, seq, t_run)))
                elif t.state in ("done", "queued", "new"):
                    bad.append(("once", idx, "timer tag %d (seq %d) ran in state %s (one-shot ran twice / ran before registration)" % (t.tag, seq, t.state)))
                if t_run < t.next_dl:
                    bad.append(("early", idx, "timer tag %d (seq %d) ran at %d, before its deadline %d" % (t.tag, seq, t_run, t.next_dl)))
                if t.rep and t_run < t.when + len(t.runs) * t.iv:
                    bad.append(("spacing", idx, "run #%d of repeater tag %d at %d < first deadline %d + %d*%d" % (len(t.runs) + 1, t.tag, t_run, t.when, len(t.runs), t.iv)))
                if t not in due and t.state == "pending":
                    bad.append(("early", idx, "timer tag %d ran in a batch at %d although it was not due/registered when the batch started (deadline %d)" % (t.tag, now, t.next_dl)))
                if last_dl is not None and t.next_dl < last_dl:
                    bad.append(("order", idx, "timer tag %d (deadline %d) ran after a timer with deadline %d in the same batch" % (t.tag, t.next_dl, last_dl)))
                last_dl = t.next_dl
                t.runs.append(t_run)
                ran.append(t)
                # the callback's script
                g = groups[gi] if gi < len(groups) else []
                gi += 1
                run_cbops(g, evs, idx, idx, due)
            stats["batch_max"] = max(stats["batch_max"], len(ran))
            for t in due:
                if t not in ran and not (t.state == "cancelled"):
                    bad.append(("lost", idx, "timer tag %d (seq %s, deadline %d) did not run in the expiry processed at %d" % (t.tag, t.seq, t.next_dl, now)))
            for t in ran:
                if t.state == "pending":
                    if t.rep:
                        t.next_dl = now + t.iv
                    else:
                        t.state = "done"
                elif t.state == "cancelled":
                    t.cancel_in_f = None
        # arm events of non-F ops
        for e in evs:
            ma = ARM.match(e)
            if ma:
                note_arm(ma)
        # ---- after every op: the two sets agree, and the loop is armed for the earliest pending deadline
        if n != a:
            bad.append(("sets", idx, "timers_.size()=%d != activeTimers_.size()=%d" % (n, a)))
        pend = [t for t in tags.values() if t.state == "pending"]
        if len(pend) != n and not any(t.lost_cancel for t in tags.values()):
            bad.append(("sets", idx, "%d timers are registered and not cancelled/expired, but timers_.size()=%d" % (len(pend), n)))
        if pend:
            earliest = min(t.next_dl for t in pend)
            if arm == "-":
                bad.append(("armed", idx, "%d timers pending (earliest deadline %d) but the timerfd is not armed" % (len(pend), earliest)))
            elif arm_at is None or int(arm) > max(earliest, arm_at + FLOOR):
                bad.append(("armed", idx, "timerfd armed for %s, later than max(earliest deadline %d, arm instant %s + %d us)" % (arm, earliest, arm_at, FLOOR)))
    return bad, stats


# ------------------------------------------------------------------ generator
IVS = [1000, 2000, 5000, 10000, 20000, 50000, 100000, 250000, 7, 100, 50, 99, 101, 3333]


def gen_case(rng, cid, maxops, focus):
    """A timer program.  The generator keeps a rough picture (deadlines of the timers it created) so that
    fires happen around deadlines, batches have many members and cancels hit live, due, dead and
    never-created ids."""
    clk = CLK0 + rng.randrange(0, 1000000)
    clk0 = clk
    ops, tags, ntag = [], [], [0]   # tags: [tag, when, iv]
    hist = {}

    def note(k):
        hist[k] = hist.get(k, 0) + 1

    def new_add(cur, nested, foreign=False):
        ntag[0] += 1
        r = rng.random()
        live = [t for t in tags if t[3]]
        if live and r < 0.35:
            when = rng.choice(live)[1] + rng.choice([0, 0, 0, 1, -1])      # equal / adjacent deadlines
        elif r < 0.5:
            when = cur + rng.choice([0, 1, -1, 99, 100, 101, 50, -50000, -1000])   # due now / in the past / around the floor
        else:
            when = cur + rng.randrange(-50000, 300001)
        iv = 0
        ivtok = None
        r2 = rng.random()
        if r2 < 0.05:
            # intervals that are not a whole number of microseconds / below one microsecond (delta 0): Timer::restart
            ivtok = rng.choice(["500ns", "999ns", "1ns", "1500ns", "100500ns", "2900000ns", "99999ns", "7300ns"])
            iv = iv_of(ivtok)[1]
            if rng.random() < 0.5:
                when = cur + iv
        elif r2 < 0.3:
            iv = rng.choice(IVS)
            if not exact_iv(iv):
                iv = 1000
            if rng.random() < 0.5:
                when = cur + iv      # runEvery
        elif r2 < 0.33:
            iv = -5
        if rng.random() < 0.01:
            when = rng.choice([0, -7])   # rejected precondition: deadline not after the epoch
        tags.append([ntag[0], when, iv, True])
        ivs = ivtok if ivtok else str(iv)
        if ivtok:
            note("inexact-interval")
        if foreign in ("new", "inbody_new"):
            (inflight if foreign == "new" else inflight_next).append(ntag[0])
            note("foreign-new")
            return ["FN", str(ntag[0]), str(when), ivs]
        if foreign:
            (queued_next if foreign == "inbody" else queued).add(ntag[0])
        note("nested-add" if nested else ("foreign-add" if foreign else "add"))
        return ["FA" if foreign else "A", str(ntag[0]), str(when), ivs]

    queued = set()        # tags whose foreign add is in pendingFunctors_ now
    queued_next = set()   # tags whose foreign add will be queued by a user functor when the next P runs it
    inflight = []         # tags of foreign adds between their two micro-steps (FN done, FQ not yet)
    inflight_next = []    # FN ops inside user functors that have not run yet

    def enq_op():
        """FQ of an in-flight add (or a new FN when there is none)"""
        if inflight and rng.random() < 0.85:
            tag = inflight.pop(rng.randrange(len(inflight)))
            queued.add(tag)
            note("foreign-enq")
            return ["FQ", str(tag)]
        if rng.random() < 0.1:
            return ["FQ", str(900 + rng.randrange(3))]     # nothing in flight under that tag: rejected
        return None

    def qbody(cur):
        """Q { ... }: a user functor; its ops run when the next doPendingFunctors reaches it"""
        body = []
        for _ in range(rng.choice([1, 1, 2, 3])):
            r = rng.random()
            if r < 0.3:
                body.append(new_add(cur, True))
            elif r < 0.5:
                body.append(["C", pick_cancel()])          # runs behind every add queued before it (FIFO)
            elif r < 0.6:
                body.append(new_add(cur, True, foreign="inbody"))
            elif r < 0.68:
                body.append(new_add(cur, True, foreign="inbody_new"))
            elif r < 0.74 and inflight:
                tag = inflight.pop(rng.randrange(len(inflight)))       # the hand-off happens when the functor runs
                queued_next.add(tag)
                body.append(["FQ", str(tag)])
            elif r < 0.8:
                body.append(["FC", pick_cancel()])
            else:
                body.append(["T", str(rng.choice([0, 1, 50, 3000]))])
        note("user-functor")
        return ["Q", "{"] + " | ".join(" ".join(o) for o in body).split() + ["}"]

    def cancel_op(tag):
        # a loop-thread cancel that overtakes the still queued add is the recorded finding
        # `cancel-queued-add` (its witness is in corpus/C07); random programs stay clear of it
        return ["FC" if int(tag) in queued else "C", tag]

    def pick_cancel():
        r = rng.random()
        if not tags or r < 0.05:
            note("cancel-unknown")
            return str(900 + rng.randrange(5))
        if r < 0.45:
            note("cancel-old")
            return str(rng.choice(tags[:max(1, len(tags) // 2)])[0])
        note("cancel-any")
        return str(rng.choice(tags)[0])

    def script(cur):
        due = [t for t in tags if t[3] and t[1] <= cur]
        ng = min(len(due) + rng.randrange(0, 3), 24)
        groups = []
        for gi in range(ng):
            g = []
            for _ in range(rng.choice([0, 0, 1, 1, 2, 3])):
                r = rng.random()
                if r < 0.35:
                    if due and rng.random() < 0.7:
                        note("cancel-in-batch")
                        g.append(cancel_op(str(rng.choice(due)[0])))     # self / sibling of the same batch
                    else:
                        g.append(cancel_op(pick_cancel()))
                elif r < 0.7:
                    g.append(new_add(cur, True))
                elif r < 0.8:
                    g.append(["T", str(rng.choice([0, 1, 10, 150, 5000]))])
                elif r < 0.9:
                    r3 = rng.random()
                    e = enq_op() if (inflight and r3 >= 0.45) else None
                    if e:
                        g.append(e)
                    elif r3 < 0.6:
                        g.append(new_add(cur, True, foreign=True))
                    else:
                        g.append(new_add(cur, True, foreign="new"))
                elif r < 0.97:
                    g.append(["FC", pick_cancel()])
                else:
                    g.append(qbody(cur))
            groups.append(g)
        return fmt_script(groups)

    nops = rng.randint(3, maxops)
    churn = focus == "reuse" or rng.random() < 0.25
    while len(ops) < nops:
        r = rng.random()
        if r < 0.30:
            if rng.random() < 0.25:        # a batch of equal deadlines
                when = clk + rng.randrange(-1000, 100000)
                for _ in range(rng.randint(2, 20)):
                    ntag[0] += 1
                    iv = rng.choice([0, 0, 0, 1000, 50])
                    tags.append([ntag[0], when, iv, True])
                    ops.append("A %d %d %d" % (ntag[0], when, iv))
                    note("add-batch")
            else:
                ops.append(" ".join(new_add(clk, False)))
        elif r < 0.42:
            ops.append(" ".join(cancel_op(pick_cancel())))
        elif r < 0.62:
            pend = [t for t in tags if t[3] and t[1] > clk]
            if pend and rng.random() < 0.7:
                t = rng.choice(pend)
                d = t[1] - clk + rng.choice([0, 0, -1, 1, 50, 200])
            else:
                d = rng.choice([0, 1, 99, 100, 101, rng.randrange(0, 100000)])
            d = max(d, 0) if rng.random() < 0.98 else -3
            ops.append("T %d" % d)
            if d > 0:
                clk += d
            note("tick")
        elif r < 0.85:
            ops.append(script(clk))
            for t in tags:                    # rough: repeaters move on, one-shots are gone
                if t[3] and t[1] <= clk:
                    if t[2] > 0:
                        t[1] = clk + t[2]
                    else:
                        t[3] = False
            note("fire")
        elif r < 0.88:
            ops.append(" ".join(new_add(clk, False, foreign=True)))
        elif r < 0.90:
            ops.append(" ".join(new_add(clk, False, foreign="new")))
        elif r < 0.92:
            e = enq_op()
            ops.append(" ".join(e if e else new_add(clk, False, foreign="new")))
        elif r < 0.935:
            ops.append(" ".join(qbody(clk)))
        elif r < 0.955:
            ops.append("FC " + pick_cancel())
            note("foreign-cancel")
        else:
            ops.append("P")
            queued.clear()
            queued.update(queued_next)      # what the user functors of this batch queued waits for the next one
            queued_next.clear()
            inflight.extend(inflight_next)
            del inflight_next[:]
            note("run-pending")
        if inflight and rng.random() < 0.3:
            e = enq_op()
            if e:
                ops.append(" ".join(e))
        if churn and rng.random() < 0.3:
            # allocate and free so that the allocator hands old addresses out again, then cancel old ids
            for _ in range(rng.randint(1, 6)):
                ntag[0] += 1
                tags.append([ntag[0], clk + 200000, 0, True])
                ops.append("A %d %d 0" % (ntag[0], clk + 200000))
                if rng.random() < 0.7:
                    ops.append("C %d" % ntag[0])
                    tags[-1][3] = False
            if rng.random() < 0.6:
                ops.append(" ".join(cancel_op(pick_cancel())))
            note("churn")
    if inflight and rng.random() < 0.7:
        ops.append("FQ %d" % inflight.pop())
    if rng.random() < 0.5:
        ops.append("P")
        if queued_next and rng.random() < 0.7:
            ops.append("P")
    if rng.random() < 0.6:
        ops.append("T %d" % rng.choice([400000, 100, 0]))
        ops.append(script(clk + 400000))
    return vlib.Case(cid, str(clk0), ops, "random-" + focus), hist


def boundary_cases():
    """Hand-enumerated programs at the case splits of the proofs."""
    c = CLK0
    out = []
    def mk(name, ops):
        out.append(vlib.Case("b_" + name, str(c), ops, "boundary"))
    for d in (-1, 0, 1, 99, 100, 101):
        mk("floor%d" % d, ["A 1 %d 0" % (c + d), "T 100", "F [ ]", "F [ ]"])
    mk("deadline_eq_now", ["A 1 %d 0" % (c + 500), "T 499", "F [ ]", "T 1", "F [ ]", "F [ ]"])
    mk("equal_deadlines", ["A %d %d 0" % (i, c + 1000) for i in range(1, 21)] + ["T 1000", "F [ ]"])
    mk("new_earliest", ["A 1 %d 0" % (c + 5000), "A 2 %d 0" % (c + 3000), "A 3 %d 0" % (c + 4000), "C 2", "T 4000", "F [ ]", "T 1000", "F [ ]"])
    mk("cancel_earliest", ["A 1 %d 0" % (c + 1000), "A 2 %d 0" % (c + 9000), "C 1", "T 1000", "F [ ]", "T 8000", "F [ ]"])
    mk("repeat_self_cancel", ["A 1 %d 1000" % (c + 1000), "T 1000", "F [ ]", "T 1000", "F [ C 1 ]", "T 1000", "F [ ]", "T 5000", "F [ ]"])
    mk("repeat_sibling_cancel", ["A 1 %d 1000" % (c + 1000), "A 2 %d 1000" % (c + 1000), "T 1000", "F [ C 2 ; C 1 ]", "T 1000", "F [ ]"])
    mk("oneshot_self_cancel", ["A 1 %d 0" % (c + 10), "T 10", "F [ C 1 ]", "A 2 %d 0" % (c + 50), "C 1", "T 100", "F [ ]"])
    mk("nested_past_add", ["A 1 %d 0" % (c + 10), "T 10", "F [ A 2 %d 0 , A 3 %d 0 ]" % (c - 5, c + 10), "F [ ]", "F [ ]"])
    mk("nested_add_cancel", ["A 1 %d 0" % (c + 10), "T 10", "F [ A 2 %d 0 , C 2 , A 3 %d 500 , C 3 ]" % (c + 100, c + 100), "T 1000", "F [ ]"])
    mk("default_id", ["C 77", "A 1 %d 0" % (c + 10), "C 77", "T 10", "F [ C 78 ]"])
    mk("double_cancel", ["A 1 %d 0" % (c + 10), "C 1", "C 1", "A 2 %d 0" % (c + 10), "C 1", "T 10", "F [ ]"])
    mk("stale_after_reuse", ["A 1 %d 0" % (c + 10), "C 1"] + sum([["A %d %d 0" % (i, c + 20 + i), "C %d" % i] for i in range(2, 40)], [])
       + ["A %d %d 0" % (i, c + 100) for i in range(40, 60)] + ["C %d" % i for i in range(1, 40)] + ["T 200", "F [ ]"])
    mk("foreign_add_cancel", ["FA 1 %d 0" % (c + 10), "FC 1", "P", "T 10", "F [ ]", "FA 2 %d 0" % (c + 100), "P", "FC 2", "T 100", "F [ ]", "P", "F [ ]"])
    mk("foreign_in_batch", ["A 1 %d 0" % (c + 10), "T 10", "F [ FA 2 %d 0 , FC 1 ]" % (c + 5), "P", "F [ ]"])
    mk("tiny_repeat", ["A 1 %d 7" % (c + 7), "T 7", "F [ ]", "F [ ]", "T 7", "F [ ]", "T 100", "F [ T 50 ]", "F [ ]"])
    mk("rejected", ["A 1 0 0", "A 2 -5 0", "T -1", "A 3 %d 0" % (c + 1), "T 1", "F [ A 4 0 0 , T -2 ]"])
    mk("stale_fire", ["A 1 %d 0" % (c + 1000), "F [ ]", "T 500", "F [ ]", "T 500", "F [ ]"])
    # at the case splits of the history / order / same-batch-cancel proofs (C06_Hist, C06_Order, C07_Proofs)
    mk("repeat_tick_in_batch", ["A 1 %d 1000" % (c + 1000), "A 2 %d 0" % (c + 1000), "T 1000", "F [ T 5000 ; T 7 ]", "F [ ]", "T 1000", "F [ ]"])
    mk("sibling_cancel_later", ["A 1 %d 1000" % (c + 1000), "A 2 %d 1000" % (c + 1001), "T 1001", "F [ C 2 ]", "T 1000", "F [ ]", "T 1000", "F [ ]"])
    mk("sibling_cancel_earlier", ["A 1 %d 1000" % (c + 1000), "A 2 %d 1000" % (c + 1001), "T 1001", "F [ ; C 1 ]", "T 1000", "F [ ]", "T 1000", "F [ ]"])
    mk("oneshot_sibling_cancel", ["A 1 %d 0" % (c + 1000), "A 2 %d 0" % (c + 1000), "A 3 %d 500" % (c + 1000), "T 1000", "F [ C 3 , C 2 ; C 1 ; C 3 ]", "T 600", "F [ ]"])
    mk("stale_arm_progress", ["A 1 %d 0" % (c + 500), "A 2 %d 0" % (c + 8000), "C 1", "T 600", "F [ ]", "F [ ]", "T 7400", "F [ ]", "F [ ]"])
    mk("order_across_batches", ["A 2 %d 0" % (c + 700), "A 1 %d 0" % (c + 500), "T 600", "F [ ]", "T 200", "F [ ]"])
    mk("cancel_readd_in_batch", ["A 1 %d 0" % (c + 10), "A 2 %d 500" % (c + 900), "T 10", "F [ C 2 , A 3 %d 500 , C 3 , A 4 %d 0 ]" % (c + 900, c + 900), "T 1000", "F [ ]"])
    # foreign add as micro-steps (FN ; FQ), user functors (Q), queue order
    mk("fn_fq_basic", ["FN 1 %d 0" % (c + 100), "A 2 %d 0" % (c + 50), "FQ 1", "P", "T 100", "F [ ]"])
    mk("fn_other_add_between", ["FN 1 %d 500" % (c + 100), "FA 2 %d 0" % (c + 60), "A 3 %d 0" % (c + 70), "FQ 1", "FC 1", "P", "T 700", "F [ ]", "F [ ]"])
    mk("fn_order_swapped", ["FN 1 %d 0" % (c + 100), "FN 2 %d 0" % (c + 90), "FQ 2", "P", "FQ 1", "FC 1", "P", "T 100", "F [ ]"])
    mk("fn_cancel_before_return", ["FN 1 %d 0" % (c + 100), "C 1", "FC 1", "FQ 1", "P", "T 100", "F [ ]"])
    mk("fn_in_callback", ["A 1 %d 0" % (c + 10), "T 10", "F [ FN 2 %d 0 , T 5 , FQ 2 ]" % (c + 40), "P", "T 40", "F [ ]"])
    mk("fq_unknown", ["FQ 7", "FN 1 %d 0" % (c + 10), "FQ 1", "FQ 1", "P", "T 10", "F [ ]"])
    mk("fn_never_enqueued", ["FN 1 %d 0" % (c + 10), "T 20", "F [ ]", "P"])
    mk("q_basic", ["A 1 %d 1000" % (c + 1000), "Q { C 1 | A 2 %d 0 }" % (c + 500), "FA 3 %d 0" % (c + 400), "P", "T 1000", "F [ ]"])
    mk("q_between_functors", ["FA 1 %d 0" % (c + 300), "Q { FA 2 %d 0 | FC 1 | T 7 }" % (c + 200), "FA 3 %d 0" % (c + 100), "P", "P", "T 300", "F [ ]"])
    mk("q_add_then_cancel_fifo", ["FA 1 %d 500" % (c + 300), "Q { C 1 }", "P", "T 900", "F [ ]"])
    mk("q_fn_fq_in_body", ["FN 1 %d 0" % (c + 100), "Q { FQ 1 | FN 2 %d 0 | C 1 }" % (c + 50), "P", "FQ 2", "Q { C 1 | FQ 3 }", "P", "P", "T 100", "F [ ]"])
    # Timer::restart / addTime: intervals that are not whole microseconds, and below one microsecond (delta 0)
    mk("iv_sub_us", ["A 1 %d 500ns" % (c + 100), "T 100", "F [ ]", "F [ ]", "T 50", "F [ ]", "T 50", "F [ ]", "F [ T 200 ]", "F [ ]", "C 1", "T 100", "F [ ]"])
    mk("iv_inexact", ["A 1 %d 2900000ns" % (c + 2899), "A 2 %d 1500ns" % (c + 1), "A 3 %d 100500ns" % (c + 100), "T 2899", "F [ ]", "T 2899", "F [ ]", "T 1", "F [ ]"])
    mk("iv_sub_us_self_cancel", ["A 1 %d 1ns" % (c + 10), "T 10", "F [ ]", "T 100", "F [ C 1 ]", "T 100", "F [ ]"])
    mk("q_from_callback", ["A 1 %d 0" % (c + 10), "T 10", "F [ Q { A 2 %d 0 | C 1 } ]" % (c + 5), "P", "F [ ]"])
    # long horizons: delays / intervals beyond 2^31 and 2^32 microseconds (36 and 72 minutes): every place that carries a
    # time or a time difference (addTime's delta, howMuchTimeFromNow, the timespec split) must be 64 bit
    mk("long_delay", ["A 1 %d 0" % (c + 3000000000), "A 2 %d 0" % (c + 5000000000), "A 3 %d 0" % (c + 2147483648), "T 2147483647", "F [ ]", "T 1", "F [ ]",
                      "T 852516352", "F [ ]", "T 2000000000", "F [ ]"])
    mk("long_interval", ["A 1 %d 4300000000" % (c + 4300000000), "T 4300000000", "F [ ]", "T 4300000000", "F [ ]", "T 4299999999", "F [ ]", "T 1", "F [ ]",
                         "C 1", "T 4300000000", "F [ ]"])
    mk("long_nested", ["A 1 %d 0" % (c + 10), "T 10", "F [ A 2 %d 86400000000 , A 3 %d 0 ]" % (c + 10 + 86400000000, c + 10 + 4294967296), "T 4294967296", "F [ ]",
                       "T 82105032704", "F [ ]", "T 86400000000", "F [ C 2 ]"])
    mk("deadline_eq_sentinel", ["A 1 %d 0" % (c + 100), "A 2 %d 0" % (c + 101), "T 100", "F [ ]", "T 1", "F [ ]"])
    return out


# ------------------------------------------------------------------ running both sides
def rename_addresses(case, impl_lines):
    """The real allocator's addresses -> small integers, order preserving (std::set orders equal
    deadlines by pointer value), identity preserving (address reuse stays visible)."""
    raw = []
    for l in impl_lines:
        if l.startswith("@addr "):
            _, tag, a = l.split()
            raw.append((int(tag), int(a)))
    rank = {a: i + 1 for i, a in enumerate(sorted(set(a for _, a in raw)))}
    reused = len(raw) - len(rank)
    hdr = ["addr %d %d" % (tag, rank[a]) for tag, a in raw]
    return vlib.Case(case.cid, case.header, hdr + case.ops, case.tag), reused, dict(raw)


def strip(lines):
    return [l for l in lines if not l.startswith("@")]


def stale_reuse_hits(case, rawmap):
    """number of top-level/nested cancels of a tag whose address is, at that point of the program text,
    also the address of a later-created tag (an id whose storage was reused)."""
    hits = 0
    seen = []
    for op in case.ops:
        toks = op.split()
        i = 0
        while i < len(toks):
            if toks[i] in ("A", "FA") and i + 1 < len(toks) and toks[i + 1].isdigit():
                seen.append(int(toks[i + 1]))
            elif toks[i] in ("C", "FC") and i + 1 < len(toks) and toks[i + 1].isdigit():
                t = int(toks[i + 1])
                if t in rawmap and any(u != t and u in rawmap and rawmap[u] == rawmap[t] and seen.index(u) > seen.index(t)
                                       for u in seen if t in seen):
                    hits += 1
            i += 1
    return hits


def load_case_file(path, prefix=""):
    cases, cid, header, ops = [], None, "", []
    for line in open(path):
        line = line.rstrip("\n")
        if not line or line.startswith("#"):
            continue
        if line.startswith("---"):
            break
        if line.startswith("case "):
            t = line.split()
            cid, header, ops = prefix + t[1], " ".join(t[2:]), []
        elif line == "end":
            cases.append(vlib.Case(cid, header, ops, "corpus" if prefix else "replay"))
        elif not line.startswith("addr "):
            ops.append(line)
    return cases


def build(variants):
    impls = {}
    for v in variants:
        impls[v] = vlib.build_driver("C06_driver_" + v, ["C06_driver.cc"], variant=v, components=("base", "net"), wrap=WRAP)
    return impls


MODEL_PRE = ["bash", "-c", 'ulimit -s unlimited 2>/dev/null; exec "$0"']


def run_both(impl, model, cases):
    """returns {cid: (impl lines or None, model lines or None, crash or None, reused, rawmap)}"""
    impl_out, crashes = vlib.run_batch_parallel(impl, cases, timeout=1200)
    mcases, meta = [], {}
    for c in cases:
        li = impl_out.get(c.cid)
        if li is None and c.cid in crashes:
            li = crashes[c.cid][2] or None
        if li:
            mc, reused, rawmap = rename_addresses(c, li)
        else:
            mc, reused, rawmap = c, 0, {}
        meta[c.cid] = (reused, rawmap)
        mcases.append(mc)
    model_out = {}
    if model:
        model_out, _ = vlib.run_batch_parallel(model, mcases, timeout=1200, pre=MODEL_PRE)
    res = {}
    for c in cases:
        res[c.cid] = (impl_out.get(c.cid), model_out.get(c.cid), crashes.get(c.cid), meta[c.cid][0], meta[c.cid][1])
    return res


# ------------------------------------------------------------------ free-running comparison against the wall clock
FREE_DURATION = 300000      # us a free-running program lasts at least; it ends when every expected timer has run
FREE_LAST_DL = 150000       # latest first deadline
FREE_TIMEOUT = 30000000     # ... or, at the latest, after this long (30 s: only a lost timer or a hopelessly slow machine)


def gen_free(rng, cid):
    ops, n = [], 0
    tags = []            # (tag, iv)

    def fresh(iv):
        nonlocal n
        n += 1
        tags.append((n, iv))
        return n

    def delay():
        r = rng.random()
        if r < 0.15:
            return rng.choice([-5000, -1, 0, 1, 50, 99, 100, 101])
        if r < 0.35:
            return rng.choice([20000, 40000, 60000])          # equal requested delays: near-equal deadlines
        return rng.randrange(0, FREE_LAST_DL)

    def iv():
        return rng.choice([0, 0, 0, 0, 5000, 10000, 20000, 50000])
    n_initial = [0]
    for _ in range(rng.randint(4, 18)):
        i = iv()
        ops.append("A %d %d %d" % (fresh(i), delay() if i == 0 else i, i))
        n_initial[0] += 1
    for _ in range(rng.randint(0, 8)):
        i = iv()
        ops.append("FA %d %d %d %d" % (fresh(i), min(delay(), 80000) if i == 0 else i, i, rng.randrange(0, 120000)))
    first = [t for (t, _) in tags]
    loop_added = list(first[:n_initial[0]])      # a loop-thread cancel of a foreign add that may still be queued is C07-b
    for _ in range(rng.randint(0, 6)):
        i = iv()
        cb = rng.choice(first)
        ops.append("N %d %d %d %d" % (cb, fresh(i), rng.choice([-1000, 0, 100, 5000, 30000]) if i == 0 else i, i))
    for _ in range(rng.randint(0, 5)):
        cb = rng.choice(first)
        ops.append("X %d %d" % (cb, rng.choice([cb, cb, rng.choice(loop_added)]) if cb in loop_added else rng.choice(loop_added)))
    for _ in range(rng.randint(0, 6)):
        ops.append("FC %d %d" % (rng.choice(first), rng.randrange(0, 200000)))
    return vlib.Case(cid, "free %d %d" % (FREE_DURATION, FREE_TIMEOUT), ops, "free")


def free_oracle(case, lines):
    """the property text on the wall-clock trace of harness/C06_free.cc -> ([(clause, message)], stats)"""
    bad = []
    adds, runs, pos = {}, {}, 0
    cancelled = {}       # tag -> (position in the trace, time, kind) of the first processed cancel
    called = set()       # tags for which a cancel call was made at all
    t_quit, timed_out = None, False
    for l in lines[1:]:
        w = l.split()
        if not w or w[0] == "end":
            continue
        pos += 1
        if w[0] == "add":
            adds[int(w[1])] = dict(seq=int(w[2]), tb=int(w[3]), ta=int(w[4]), lo=int(w[5]), hi=int(w[6]), iv=int(w[7]), who=w[8])
        elif w[0] == "run":
            runs.setdefault(int(w[1]), []).append((int(w[3]), int(w[4]), pos))
            # REVIEW_B B-10: "runs ... on the loop thread" - the driver records EventLoop::isInLoopThread() inside the callback
            if len(w) < 6 or w[5] != "L":
                bad.append(("thread", "callback of tag %s ran on a thread that is not the loop's (%s)" % (w[1], w[5] if len(w) > 5 else "no thread record")))
        elif w[0] == "cancel":
            called.add(int(w[1]))
            if w[3] == "L":
                cancelled.setdefault(int(w[1]), (pos, int(w[2]), "L"))
        elif w[0] == "processed":
            cancelled.setdefault(int(w[1]), (pos, int(w[2]), "F"))
        elif w[0] == "quit":
            t_quit = int(w[1])
            timed_out = len(w) > 2 and w[2] == "timeout"
    stats = {"timers": len(adds), "runs": sum(len(v) for v in runs.values()), "max_late_us": 0, "cancels_processed": len(cancelled)}
    if t_quit is None:
        return [("crash", "no quit record: the free-running program did not finish")], stats
    for tag, rs in runs.items():
        a = adds.get(tag)
        if a is None:
            bad.append(("format", "run of tag %d without an add record" % tag))
            continue
        for k, (t, dl, p) in enumerate(rs):
            if t < a["lo"] + k * a["iv"]:
                bad.append(("early" if a["iv"] == 0 or k == 0 else "spacing",
                            "run #%d of tag %d at %d us, earlier than its first deadline %d + %d intervals of %d" % (k + 1, tag, t, a["lo"], k, a["iv"])))
            if dl >= 0 and t < dl:
                bad.append(("early", "tag %d ran at %d us, before the deadline %d it was filed under" % (tag, t, dl)))
            if dl >= 0:
                stats["max_late_us"] = max(stats["max_late_us"], t - dl)
            if k > 0 and dl >= 0 and rs[k - 1][1] >= 0 and dl < rs[k - 1][1] + a["iv"]:
                bad.append(("spacing", "repeater tag %d: run #%d filed under %d, less than one interval (%d) after the previous %d" % (tag, k + 1, dl, a["iv"], rs[k - 1][1])))
        if a["iv"] == 0 and len(rs) > 1:
            bad.append(("once", "one-shot tag %d ran %d times" % (tag, len(rs))))
        if a["iv"] > 0 and len(rs) > (t_quit - a["lo"]) // a["iv"] + 1:
            bad.append(("spacing", "repeater tag %d ran %d times in %d us with interval %d" % (tag, len(rs), t_quit - a["lo"], a["iv"])))
        c = cancelled.get(tag)
        if c is not None and c[2] == "L" and a["who"] == "F":
            # a loop-thread cancel of a timer whose foreign add may still be queued: the recorded finding C07-b
            # (cancel-queued-add; deterministic witness in corpus/C07); not decidable from a free-running trace
            stats["cancel_of_possibly_queued_add"] = stats.get("cancel_of_possibly_queued_add", 0) + 1
        elif c is not None:
            later = [(t, dl, p) for (t, dl, p) in rs if p > c[0]]
            allowed = 1 if c[2] == "L" else 0          # a same-batch cancel lets the invocation that was already due run
            late_ok = [x for x in later if x[1] >= 0 and x[1] <= c[1]]
            if len(later) > allowed or (later and not late_ok and c[2] == "L"):
                bad.append(("cancel", "tag %d ran %d time(s) after its cancel had been processed at %d us" % (tag, len(later), c[1])))
    all_runs = [(t, dl, p, tg) for tg, rs in runs.items() for (t, dl, p) in rs]
    for tag, a in adds.items():
        if tag in called or runs.get(tag):
            continue
        # (a) independent of the machine's load: a callback filed under a LATER deadline ran after this timer was registered
        later = [x for x in all_runs if x[1] > a["hi"] and x[0] > a["ta"]] if a["who"] == "L" else []
        if later:
            bad.append(("lost", "tag %d (deadline <= %d us, registered at %d, never cancelled) never ran although tag %d filed under the later "
                                "deadline %d ran at %d" % (tag, a["hi"], a["ta"], later[0][3], later[0][1], later[0][0])))
        # (b) the program waits for every expected timer and gives up only after FREE_TIMEOUT
        elif timed_out:
            bad.append(("lost", "tag %d (deadline <= %d us, never cancelled) had not run when the program gave up after %d us" % (tag, a["hi"], t_quit)))
    # deadline order among one-shots added on the loop thread before the earlier deadline
    one = [(tag, a) for tag, a in adds.items() if a["iv"] == 0 and len(runs.get(tag, [])) == 1]
    for ta_, a in one:
        if a["who"] != "L" or a["ta"] >= a["lo"]:
            continue
        for tb_, b in one:
            if a["hi"] < b["lo"] and runs[tb_][0][2] < runs[ta_][0][2]:
                bad.append(("order", "one-shot tag %d (deadline >= %d) ran before tag %d (deadline <= %d, registered at %d)" % (tb_, b["lo"], ta_, a["hi"], a["ta"])))
    return bad, stats


def free_part(chk, nprog, variants=("plain",)):
    """free-running programs on the real loop / timerfd / clock"""
    rng = chk.rng
    cases = [gen_free(rng, "w%d" % i) for i in range(nprog)]
    agg = {"programs": 0, "timers": 0, "runs": 0, "max_late_us": 0, "cancels_processed": 0}
    bad_all = []
    for v in variants:
        exe = vlib.build_driver("C06_free_" + v, ["C06_free.cc"], variant=v, components=("base", "net"))
        out, crashes = vlib.run_batch_parallel(exe, cases, jobs=max(1, min(vlib.NPROC, len(cases) // 4)), timeout=1200)
        for c in cases:
            chk.cov["evaluations"] += 1
            li = out.get(c.cid)
            if li is None:
                cr = crashes.get(c.cid)
                bad_all.append((c, v, "crash", "free-running program crashed / no output (%s build): %s" % (v, (cr[1][-800:] if cr else ""))))
                continue
            bad, st = free_oracle(c, li)
            agg["programs"] += 1
            for k in ("timers", "runs", "cancels_processed"):
                agg[k] += st[k]
            agg["max_late_us"] = max(agg["max_late_us"], st["max_late_us"])
            for (clause, msg) in bad:
                bad_all.append((c, v, clause, msg))
    chk.cov["free_running"] = agg
    chk.add_obligation("free-running comparison against the wall clock (real loop(), timerfd, poller; %d programs x %s): never early, one-shots "
                       "once, every callback on the loop thread (isInLoopThread() inside the callback), repeater spacing and count, deadline order, processed cancels stop the timer, none lost"
                       % (nprog, "+".join(variants)), not bad_all)
    seen = set()
    for (c, v, clause, msg) in bad_all:
        if clause in seen:
            continue
        seen.add(clause)
        n = sum(1 for x in bad_all if x[2] == clause)
        p = chk.write_replay("free_%s_%s.case" % (clause, c.cid), "# free-running, build=%s clause=%s\n# %s\n" % (v, clause, msg) + c.text())
        chk.violation(p, "%s fails on the free-running implementation [%s]: %s (%d failing checks; timing dependent: replay with "
                         "harness/C06_free.cc)" % (chk.prop, clause, msg[:500], n))


def known_key(prop, clause):
    for k in vlib.known_findings():
        if k["property"] == prop and k["key"] == clause:
            return k
    return None


def run_common(chk, prop, clauses, focus_mix, replay=None, extra=None):
    tier, rng = chk.tier, chk.rng
    # Base_Bytes.vo is needed by the extraction (extract/util.ml) but is not in the closure of
    # Properties_C06/C07.vo: on a fresh checkout it has to be asked for explicitly
    pr = chk.prove(extra_targets=("Base_Bytes.vo", "C06_Model.vo"))
    gen_problems = [p for p in pr["problems"] if p.startswith(("gen_C06.py", "gen_C07.py")) or "Timestamp_kMicroSecondsPerSecond" in p]
    try:
        model = vlib.build_model("C06")     # (vlib retries under the Coq lock when a required .vo is missing)
    except Exception as e:  # the model must run even when a proof breaks; if it cannot be built, say so
        model = None
        chk.notes.append("model build failed: %s" % str(e)[-400:])
    variants = ["asan", "plain"]
    impls = build(variants)

    cases = []
    hist = {}
    if replay:
        cases = load_case_file(replay)
    else:
        for f in sorted(glob.glob(os.path.join(vlib.ROOT, "corpus", prop, "*.case"))):
            if "race" in os.path.basename(f):
                continue
            cases += load_case_file(f, prefix="corpus_" + os.path.basename(f)[:-5] + "_")
        cases += boundary_cases()
        nrand, maxops = (3000, 30) if tier == "quick" else (150000, 30)
        for i in range(nrand):
            focus = focus_mix[i % len(focus_mix)]
            c, h = gen_case(rng, "r%d" % i, maxops if i % 7 else 12, focus)
            cases.append(c)
            for k, v in h.items():
                hist[k] = hist.get(k, 0) + v
    chk.cov["generator_histogram"] = hist

    t1 = time.time()
    results = {}
    for v in variants:
        results[v] = run_both(impls[v], model, cases)
    chk.cov["phase_s"] = {"proof": round(pr["wall_s"], 1), "run": round(time.time() - t1, 1)}

    corr_bad, oracle_bad, known_hits = [], [], {}
    sigs, reused_total, reuse_cases, stale_hits = set(), 0, 0, 0
    agg = {"runs": 0, "batch_max": 0, "stale_cancels": 0, "inbatch_cancels": 0, "nested_adds": 0}
    for v in variants:
        for c in cases:
            li, lm, crash, reused, rawmap = results[v][c.cid]
            chk.cov["evaluations"] += 1
            if crash is not None:
                rc, se, partial = crash
                if "crash" in clauses:
                    oracle_bad.append((c, v, "crash", len(partial), "implementation crashed (rc=%s, %s build): %s" % (rc, v, se[-1200:])))
                continue
            if li is None:
                oracle_bad.append((c, v, "crash", 0, "no implementation output (%s build)" % v))
                continue
            bad, st = oracle(c, li)
            for k in agg:
                agg[k] = max(agg[k], st[k]) if k == "batch_max" else agg[k] + st[k]
            reused_total += reused
            reuse_cases += 1 if reused else 0
            stale_hits += stale_reuse_hits(c, rawmap)
            for (clause, idx, msg) in bad:
                if clause not in clauses:
                    continue
                kf = known_key(prop, clause)
                if kf:
                    known_hits[clause] = "key=%s %s (witness: case %s op %d: %s)" % (clause, kf["text"], c.cid, idx, msg)
                else:
                    oracle_bad.append((c, v, clause, idx, msg))
            if model is not None:
                si = strip(li)
                if lm is None or si != lm:
                    idx = next((i for i in range(min(len(si), len(lm or []))) if si[i] != lm[i]), min(len(si), len(lm or [])))
                    corr_bad.append((c, v, idx, "impl %r vs model %r" % (si[idx] if idx < len(si) else None,
                                                                         lm[idx] if lm and idx < len(lm) else None)))
                if lm and any(l == "FAULT" or "FAULT" in l for l in lm):
                    corr_bad.append((c, v, 0, "model reports FAULT (dead dereference / failed assert in the model)"))
            if st["batch_max"] >= 2 or st["inbatch_cancels"] or reused:
                sigs.add((tuple(op.split()[0] for op in c.ops), st["batch_max"], st["inbatch_cancels"], st["runs"], reused > 0))
            if len(chk.cov["samples"]) < 4 and v == "plain" and reused and len(c.ops) <= 14 and st["runs"] >= 2:
                chk.sample({"case": c.text().split("\n")[:-1], "impl": strip(li)[1:-1][:14], "addresses_reused": reused})
    chk.cov["distinct_nontrivial"] = len(sigs)
    chk.cov["rule"] = ("corpus + hand-enumerated boundary programs + random timer programs (<=30 top-level ops; delays -50ms..+300ms, equal "
                       "deadlines, batches up to 20, nested adds/cancels, foreign adds/cancels, churn for address reuse), each run on the ASan "
                       "build and on the plain build (glibc malloc reuses addresses at once); non-trivial = a batch with >=2 expired timers, "
                       "or a cancel from inside a batch, or an address handed out twice; distinct by (op-kind sequence, max batch, in-batch "
                       "cancels, runs, reuse)")
    chk.cov["address_reuse"] = {"allocations_at_a_previously_used_address": reused_total, "cases_with_reuse": reuse_cases,
                                "cancels_of_an_id_whose_address_was_reused_later": stale_hits}
    chk.cov["oracle_stats"] = agg
    chk.cov["traces_validated_against_impl"] = chk.cov["evaluations"] - len(corr_bad)
    for k, t in known_hits.items():
        chk.known(k, t)
    ok_corr = (model is not None) and not corr_bad
    chk.add_obligation("correspondence: extracted C06_Model.step == real TimerQueue/EventLoop on every case (events, sizes, armed value after every op; ASan and plain builds)", ok_corr)
    chk.add_obligation("oracle: the property text (%s) on the implementation's own trace" % ", ".join(clauses), not oracle_bad)
    chk.add_obligation("generated facts (100us floor literals, getExpired sentinel, kMicroSecondsPerSecond%s) found in the current sources"
                       % (", addTimer read order" if prop == "C07" else ""), not gen_problems)
    chk.trusted("extraction: ExtrOcamlBasic only; extract/util.ml + extract/C06_driver.ml (OCaml 4.13.1; resolves timer tags to (address, sequence))",
                "harness/C06_driver.cc: real EventLoop+TimerQueue, no loop() running, #define private public, --wrap=gettimeofday (virtual clock), "
                "--wrap=timerfd_settime (armed value; simulated one-shot timerfd: readable from arm instant + it_value until read or re-armed, it_value 0 disarms, EINVAL leaves it), "
                "--wrap=read on the timerfd, handleRead()/doPendingFunctors() called directly, foreign ops on a joined helper thread",
                "translator lib/gen_C06.py, lib/gen_consts.py (clang 14 JSON AST)",
                "std::set / std::vector / std::function / the allocator (only its freedom to reuse addresses is modelled; real addresses are fed to the model)")

    def shrink(c, v, pred):
        def fails(ops):
            cc = vlib.Case("s", c.header, ops)
            r = run_both(impls[v], model, [cc])["s"]
            return pred(cc, r)
        ops = vlib.ddmin(c.ops, fails, max_tests=120)
        return vlib.Case(c.cid, c.header, ops)

    if extra:
        extra(chk, pr)      # the race suite runs BEFORE a fallback is settled as no-failing-input-found
    if oracle_bad:
        # one violation per clause (a different clause is a different violation)
        seen = set()
        for (c, v, clause, idx, msg) in oracle_bad:
            if clause in seen:
                continue
            seen.add(clause)
            def pred(cc, r, clause=clause):
                li, lm, crash, _, _ = r
                if crash is not None or li is None:
                    return clause == "crash"
                return any(b[0] == clause for b in oracle(cc, li)[0])
            small = shrink(c, v, pred)
            n = sum(1 for x in oracle_bad if x[2] == clause)
            p = chk.write_replay("oracle_%s_%s.case" % (clause, c.cid),
                                 "# property=%s clause=%s build=%s\n# %s\n" % (prop, clause, v, msg.replace("\n", "\n# ")) + small.text())
            chk.violation(p, "%s fails on the implementation [%s]: %s (%d failing evaluations)" % (prop, clause, msg[:600], n))
    elif corr_bad or not pr["ok"] or gen_problems or model is None:
        what, body = [], ""
        if not pr["ok"]:
            what.append("proof obligation(s) no longer check: %s %s" % (pr["broken"], pr["problems"]))
        if gen_problems:
            what.append("generated fact(s) could not be regenerated from the sources: %s" % gen_problems)
        if model is None:
            what.append("the model could not be built")
        if corr_bad:
            c, v, idx, msg = corr_bad[0]
            def pred(cc, r):
                li, lm, crash, _, _ = r
                return crash is None and li is not None and strip(li) != lm
            small = shrink(c, v, pred)
            what.append("correspondence C06_Model vs TimerQueue broken at line %d of the case below (%s build; %s); %d of %d evaluations differ; "
                        "the property oracle holds on all of them" % (idx, v, msg, len(corr_bad), chk.cov["evaluations"]))
            body = small.text()
        p = chk.write_replay("broken_obligation.txt", "\n".join("# " + w for w in what) + "\n" + body +
                             ("\n--- coq log tail ---\n" + pr["log"][-3000:] if not pr["ok"] else ""))
        only_fallback = bool(gen_problems) and not corr_bad and pr["ok"] and model is not None
        have_input = any(not ni for (_, _, ni) in chk.violations)
        if only_fallback and have_input:
            # the fact could not be read off the sources AND the suites found a failing input: that input is the verdict
            chk.notes.append("generated fact fell back (%s); reported through the failing input found by the race suite" % gen_problems)
        else:
            chk.violation(p, "; ".join(what), no_input=True)
    return pr


def free_extra(chk, pr):
    if chk.tier == "thorough":
        free_part(chk, 640, variants=("plain", "asan"))
    else:
        free_part(chk, 16)


def run(chk, replay=None):
    if replay and any(l.startswith("case ") and l.split()[2:3] == ["free"] for l in open(replay).read().split("\n")):
        chk.prove()
        cases = load_case_file(replay)
        exe = vlib.build_driver("C06_free_plain", ["C06_free.cc"], variant="plain", components=("base", "net"))
        out, crashes = vlib.run_batch_parallel(exe, cases, timeout=600)
        for c in cases:
            bad, st = free_oracle(c, out.get(c.cid) or ["", "quit -1"]) if out.get(c.cid) else ([("crash", "no output")], {})
            for (clause, msg) in bad[:1]:
                chk.violation(replay, "C06 fails on the free-running implementation [%s]: %s" % (clause, msg))
        return chk.finish(level="proof", assumptions=["free-running replay (timing dependent)"])
    run_common(chk, "C06", C06_CLAUSES, ["mixed", "mixed", "reuse"], replay=replay, extra=None if replay else free_extra)
    return chk.finish(level="proof", assumptions=[
        "timerfd contract (DESIGN 3.4): readable no earlier than the armed relative time, stays readable until read or re-armed; it_value 0 disarms",
        "clock: gettimeofday does not go backwards between two reads by the loop thread (negative ticks are rejected)",
        "deadlines lie after the epoch (Timestamp::valid() gates the re-arm in reset); intervals are at least 1 us",
        "the model is tied to the code by differential execution (testing), not by a verified C++ semantics; wall-clock lateness and the "
        "relation between CLOCK_MONOTONIC (timerfd) and gettimeofday (deadlines) are the platform's"])
