"""C07: cancel() stops a timer for good and never disturbs any other timer.
Shares the TimerModel, the model runner and the C++ driver with C06 (props/C06.py: run_common) with a
generator mix biased to cancels / address reuse and the C07 clauses of the oracle, plus the add-vs-fire race
(F-7, fixed in /repo by a82dacb): harness/C07_race.cc forces, on the REAL code under ASan, the schedule of theorem
C07_id_after_handoff_refuted (foreign thread stalled inside the eventfd wake-up write while the loop thread
runs the functor and the expiry), and the generated fact lib/gen_C07.py (clang AST: is timer->sequence()
read after the runInLoop hand-off?) selects which theorem describes the current tree.  The old witness
corpus/C07/race_addtimer_uaf.case is run on every check and must complete cleanly now; a regression is
reported as VIOLATION again (the `fixed:` line in KNOWN_FINDINGS.txt suppresses nothing).
C07-b (cancel-queued-add) is matched by its oracle clause = the signature key of its `known:` line."""
import os, re, glob
import vlib
from props import C06 as base

RACE_WRAP = ["write", "gettimeofday"]
F7_KEY = "addTimer-sequence-after-handoff"
OKLINE = re.compile(r"^ok mode=(\w+) ran=(\d+) id_seq_ok=(\d)$")


def load_race_cases(path):
    cases, cur = [], None
    for line in open(path):
        line = line.rstrip("\n")
        if not line or line.startswith("#"):
            continue
        if line.startswith("case "):
            cur = [line]
        elif line == "end" and cur is not None:
            cur.append(line)
            cases.append(cur)
            cur = None
        elif cur is not None:
            cur.append(line)
    return cases


def race_part(chk, pr, only=None):
    gen = open(os.path.join(vlib.COQ, "Gen_C07.v")).read()
    m = re.search(r"TimerQueue_addTimer_reads_seq_after_handoff : bool := (true|false)", gen)
    after = (m.group(1) == "true") if m else True
    chk.cov["addTimer_reads_sequence_after_handoff"] = after
    exe = vlib.build_driver("C07_race", ["C07_race.cc"], variant="asan", components=("base", "net"), wrap=RACE_WRAP)
    cases = []
    if only:
        cases = [(only, c) for c in load_race_cases(only)]
    else:
        for f in sorted(glob.glob(os.path.join(vlib.ROOT, "corpus", "C07", "race*.case"))):
            cases += [(f, c) for c in load_race_cases(f)]
        for i, d in enumerate([0, -100, 1, 250, 250000]):
            cases.append((None, ["case g%d race" % i, "R loop %d" % d, "R benign %d" % d, "R forced %d" % d, "R forced 1000000 0", "end"]))
        for i, d in enumerate([300000, 1, 2500]):
            cases.append((None, ["case o%d race" % i, "R overlap %d" % d, "R overlap %d" % (d + 7), "end"]))
    env = {"ASAN_OPTIONS": "detect_leaks=0:abort_on_error=0", "UBSAN_OPTIONS": "print_stacktrace=1"}
    uaf_seen, other_bad, clean_forced = None, [], 0
    witness_runs, witness_clean = 0, 0
    for (src, lines) in cases:
        chk.cov["evaluations"] += 1
        rc, so, se = vlib.sh2([exe], stdin=("\n".join(lines) + "\n").encode(), timeout=120, env=env)
        out = so.split("\n")
        if src:
            witness_runs += 1
            witness_clean += 1 if (rc == 0 and any(OKLINE.match(l) and OKLINE.match(l).group(3) == "1" for l in out)) else 0
        if rc != 0:
            if "heap-use-after-free" in se and "Timer::sequence" in se and "TimerQueue::addTimer" in se:
                uaf_seen = uaf_seen or (src, lines, se)
            else:
                other_bad.append((src, lines, "race driver died rc=%s: %s" % (rc, se[-1500:])))
            continue
        for l in out:
            mm = OKLINE.match(l)
            if mm:
                if mm.group(3) != "1":
                    other_bad.append((src, lines, "the TimerId returned by the add does not carry the sequence number of the Timer it points to "
                                                  "(another Timer was constructed while the add was in flight): " + l))
                if mm.group(1) == "overlap" and mm.group(2) != "0":
                    other_bad.append((src, lines, "cancel(id) processed by the loop did not stop the timer the id was returned for (it ran %s time(s)): %s"
                                      % (mm.group(2), l)))
                if mm.group(1) == "forced":
                    clean_forced += 1
            elif l and not l.startswith(("case", "end")):
                other_bad.append((src, lines, "unexpected race driver line: " + l))
    chk.cov["race"] = {"forced_runs_completed_cleanly": clean_forced, "use_after_free_reproduced": bool(uaf_seen)}
    # the model's verdict for the current order (theorem C07_current_tree) must agree with the real code
    agree = (after and uaf_seen is not None) or ((not after) and uaf_seen is None and clean_forced > 0)
    chk.add_obligation("add-vs-fire race: real code under the forced schedule agrees with C07_current_tree for the generated read order "
                       "(after hand-off => use-after-free reproduced; before => every forced run clean)", agree)
    if not only:
        chk.add_obligation("race witnesses corpus/C07/race*.case (F-7: forced add-vs-fire schedule, fixed by a82dacb; overlap: another Timer "
                           "constructed while an add is in flight) complete cleanly under ASan with a valid id; a regression is reported as VIOLATION",
                           witness_runs > 0 and witness_clean == witness_runs)
    chk.cov["race"]["witness_runs"] = witness_runs
    chk.cov["race"]["witness_clean"] = witness_clean
    chk.trusted("harness/C07_race.cc: real EventLoop, foreign std::thread, --wrap=write stalls the foreign thread inside wakeup() while the "
                "loop thread runs doPendingFunctors()+TimerQueue::handleRead(); --wrap=gettimeofday; ASan as the failing-input finder",
                "translator lib/gen_C07.py (clang 14 JSON AST: source order of runInLoop and Timer::sequence() in TimerQueue::addTimer)")
    if uaf_seen:
        src, lines, se = uaf_seen
        first = [l for l in se.split("\n") if "ERROR: AddressSanitizer" in l or "Timer::sequence" in l or "TimerQueue::addTimer" in l or "TimerQueue::reset" in l][:5]
        text = ("TimerQueue::addTimer reads timer->sequence() after handing the timer to the loop: called from a foreign thread, the timer "
                "fired and was deleted first: " + " | ".join(x.strip() for x in first))
        kf = base.known_key("C07", F7_KEY)
        if kf:
            chk.known(F7_KEY, "key=%s %s" % (F7_KEY, kf["text"]))
        else:
            p = src or chk.write_replay("race_addtimer_uaf.case", "\n".join(lines) + "\n")
            chk.violation(p, "C07 fails on the implementation [%s]: %s" % (F7_KEY, text))
    for (src, lines, msg) in other_bad[:1]:
        p = chk.write_replay("race_other.case", "# %s\n" % msg.replace("\n", "\n# ") + "\n".join(lines) + "\n")
        chk.violation(p, "C07 add race: " + msg[:800])
    if not only and witness_runs == 0:
        p = chk.write_replay("broken_obligation_witness.txt", "# corpus/C07/race_addtimer_uaf.case was not found / not run\n")
        chk.violation(p, "C07 add race: the F-7 witness corpus/C07/race_addtimer_uaf.case could not be run", no_input=True)
    if not agree and not other_bad and not (uaf_seen and not after):
        p = chk.write_replay("broken_obligation_race.txt",
                             "# generated fact says sequence() is read %s the hand-off but the forced schedule on the real code %s\n"
                             "# theorem / correspondence that no longer checks: C07_current_tree vs harness/C07_race.cc\n"
                             % ("after" if after else "before", "showed no use-after-free" if after else "did not complete cleanly"))
        chk.violation(p, "C07 add race: model verdict (C07_current_tree) and real code disagree", no_input=True)


WIDTH_LINE = re.compile(r"^ok seqA=(-?\d+) seqB=(-?\d+) same_addr=(\d) erased=(\d) attempts=(\d+)$")


def width_part(chk):
    """Failing-input finder for C07_sequence_width_faithful (coq/C07_Width.v): on the real classes, the timer
    created 2^32 timers after a dead timer A (the creations in between are accounted for by advancing
    Timer::s_numCreated_) must get sequence seqA + 2^32, and the stale cancel(id_A) must leave it registered."""
    exe = vlib.build_driver("C07_width", ["C07_width.cc"], variant="plain", components=("base", "net"))
    rc, so, se = vlib.sh2([exe], timeout=60)
    chk.cov["evaluations"] += 1
    m = WIDTH_LINE.match(so.strip().split("\n")[-1]) if so.strip() else None
    ok = False
    if rc != 0 or not m:
        p = chk.write_replay("width_probe.txt", "# harness/C07_width.cc rc=%s\n%s\n%s\n" % (rc, so[-2000:], se[-2000:]))
        chk.violation(p, "C07 sequence width probe did not complete (rc=%s)" % rc, no_input=True)
    else:
        sa, sb, same, erased = int(m.group(1)), int(m.group(2)), m.group(3) == "1", m.group(4) == "1"
        chk.cov["sequence_width_probe"] = {"seqA": sa, "seq_of_timer_2^32_later": sb, "same_address": same, "stale_cancel_erased_it": erased}
        if sb == sa + (1 << 32) and not erased:
            ok = True
        else:
            p = chk.write_replay("width_wrap.txt",
                                 "# harness/C07_width.cc (no input; run it against the tree)\n"
                                 "# timer A: sequence %d, cancelled and freed; 2^32 - 1 further Timer creations accounted for by\n"
                                 "# advancing Timer::s_numCreated_; the next timer B got sequence %d (expected %d)%s;\n"
                                 "# the stale cancel(id_A) %s\n%s\n"
                                 % (sa, sb, sa + (1 << 32), " at A's address" if same else "",
                                    "ERASED the live timer B" if erased else "left B registered", so))
            chk.violation(p, "C07 fails on the implementation: the timer created 2^32 timers after a dead timer gets sequence %d "
                             "(dead timer's: %d)%s" % (sb, sa, "; cancelling the stale id erased the live timer" if erased else
                                                       "; (address, sequence) no longer identifies one timer"))
    chk.add_obligation("sequence width probe on the real classes: the timer created 2^32 timers after a dead one gets a fresh "
                       "sequence and survives the stale cancel (harness/C07_width.cc; C07_sequence_width_faithful)", ok)


def run(chk, replay=None):
    if replay and any(l.startswith("case ") and l.split()[2:3] == ["race"] for l in open(replay).read().split("\n")):
        pr = chk.prove()
        race_part(chk, pr, only=replay)
    else:
        def extra(chk, pr):
            race_part(chk, pr)
            width_part(chk)
            # free-running programs (real loop / timerfd / clock): processed cancels stop the timer, foreign adds/cancels
            base.free_part(chk, 320 if chk.tier == "thorough" else 8, variants=("plain", "asan") if chk.tier == "thorough" else ("plain",))
        base.run_common(chk, "C07", base.C07_CLAUSES, ["reuse", "mixed", "reuse"], replay=replay,
                        extra=None if replay else extra)
    return chk.finish(level="proof", assumptions=[
        "the allocator may return any non-live address (reuse allowed) but never a live one; fewer than 2^63 timers are created per process (Timer::s_numCreated_ and every carrier of a sequence are 64 bit: C07_sequence_width_faithful)",
        "foreign-thread calls interact with the loop thread only through the mutex-guarded functor queue (sequentially consistent interleaving of micro-steps, DESIGN 3.2)",
        "the model is tied to the code by differential execution (testing), not by a verified C++ semantics"])
