"""C01: TCP payload delivered complete, in order, exactly once, both directions."""
import connlib


def nontrivial(c, tr):
    ev = set()
    for i, o in enumerate(tr.obs):
        if o.out > 0:
            ev.add("backlog")
        if o.steps and any(len(s) > 1 for s in o.steps):
            ev.add("batch")
        if c.ops[i].startswith("FSE"):
            ev.add("foreign")
        if c.ops[i].startswith("RD"):
            ev.add("inbound")
    if not ({"backlog"} <= ev):
        return None
    return (tuple(op.split()[0] for op in c.ops), tuple(sorted(ev)), tr.obs[-1].wire if tr.obs else 0)


def run(chk, replay=None):
    return connlib.run_property(
        chk, "C01", connlib.oracle_c01, ["stream", "stream", "mixed", "marks"], 1500, 24000, replay=replay,
        nontrivial=nontrivial,
        rule="corpus + random op sequences (loop/foreign sends cut into check+enqueue, scripted kernel acceptance incl. short writes/EAGAIN/EINTR, "
             "reads, pause/resume, closes); non-trivial = entered the buffered write path (backlog > 0); distinct by (op-kind sequence, features, final wire length)")
