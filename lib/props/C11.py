"""C11: transient socket faults delay service but never corrupt, wedge or leak.
 proof: Properties_C11.v (listener / classification tables regenerated from the source / poll) and the
        fault theorems over Conn_Model;
 correspondence: (1) real Acceptor on a loopback listener with scripted accept4 answers vs C11_Model,
        (2) real TcpConnection with fault-heavy kernel scripts vs Conn_Model,
        (3) the loop with interrupted polls under both back-ends;
 oracle: the property text - a faulted run and its fault-free twin must agree on everything visible."""
import os, re, itertools
import vlib, connlib

ACC_LINE = re.compile(r"^ok ev=(\S+) ready=(\d) handed=(\d+) valved=(\d+) idle=(\d) fds=(-?\d+)$")
TRANSIENT_ACC = ["eagain", "eintr", "econnaborted", "eproto", "eperm"]
FATAL_ACC = ["ebadf", "efault", "einval", "enfile", "enobufs", "enomem", "enotsock", "eopnotsupp", "eio"]


def acc_oracle(case, lines):
    """property text on the listener's implementation trace"""
    res = []
    prev = dict(ready=0, handed=0, valved=0)
    pend = 0
    for i, op in enumerate(case.ops):
        if i + 1 >= len(lines):
            return [(i, "missing output")]
        m = ACC_LINE.match(lines[i + 1])
        if not m:
            return [(i, "unparsable %r" % lines[i + 1])]
        ev, ready, handed, valved, idle, fds = m.group(1), int(m.group(2)), int(m.group(3)), int(m.group(4)), int(m.group(5)), int(m.group(6))
        t = op.split()
        if t[0] == "CONN":
            pend += 1
        elif t[1] == "ok":
            if pend > 0:
                if handed != prev["handed"] + 1 or "NewConn" not in ev:
                    res.append((i, "a pending connection was not handed over although accept was allowed to succeed"))
                pend -= 1
        elif t[1] == "emfile":
            if pend > 0:
                if valved != prev["valved"] + 1:
                    res.append((i, "descriptor shortage with a connection pending: it was left pending instead of being closed"))
                pend -= 1
            if idle != 1:
                res.append((i, "spare descriptor not restored after the shortage"))
        elif len(t) > 2 and t[2] == "fatal":
            pass
        else:   # transient: nothing may change
            if (handed, valved) != (prev["handed"], prev["valved"]) or "Abort" in ev:
                res.append((i, "transient accept fault %s changed the listener (%s)" % (t[1], lines[i + 1])))
        if t[0] == "ACC" and len(t) == 2 and "Abort" in ev:
            res.append((i, "listener aborted on %s" % t[1]))
        if ready != (1 if pend > 0 else 0):
            res.append((i, "listener readiness %d with %d connection(s) pending" % (ready, pend)))
        if fds != 0:
            res.append((i, "descriptor census off by %d after %r" % (fds, op)))
        prev = dict(ready=ready, handed=handed, valved=valved)
    return res


def acc_cases(rng, tier):
    cases = []
    alpha = ["CONN", "ACC ok", "ACC emfile"] + ["ACC " + e for e in TRANSIENT_ACC]
    depth = 4 if tier == "quick" else 5
    n = 0
    for ops in itertools.product(alpha, repeat=depth):
        if tier == "quick" and rng.random() > 0.08:
            continue
        n += 1
        cases.append(vlib.Case("ax%d" % n, "acc", list(ops) + ["ACC emfile", "ACC ok"], "acc-enum"))
    for i in range(60 if tier == "quick" else 600):
        k = rng.randint(3, 14)
        ops = [rng.choice(alpha + ["CONN", "ACC emfile"]) for _ in range(k)]
        if rng.random() < 0.3:
            ops.append("ACC %s fatal" % rng.choice(FATAL_ACC))
        cases.append(vlib.Case("ar%d" % i, "acc", ops, "acc-random"))
    # the persisting-shortage scenario of the no-spin theorem: n pending, n+1 dispatches with EMFILE
    for n in (1, 2, 5):
        cases.append(vlib.Case("starve%d" % n, "acc", ["CONN"] * n + ["ACC emfile"] * (n + 1) + ["CONN", "ACC ok"], "acc-starve"))
    for i, (k, n) in enumerate([(0, 0), (1, 0), (3, 2), (7, 5), (25, 1)]):
        cases.append(vlib.Case("loop%d" % i, "loop %d %d" % (k, n), ["GO"], "loop"))
    return cases


def run(chk, replay=None):
    pr = chk.prove()
    # ---- (1)+(3) listener and loop
    amodel = vlib.build_model("C11")
    aimpl = vlib.build_driver("C11_driver", ["C11_driver.cc"], variant="asan", wrap=["accept4", "epoll_wait", "poll"])
    cmodel, cimpl = connlib.build()
    corr_bad, orc_bad = [], []
    sigs = set()
    if replay and not open(replay).read().count(" acc") and not open(replay).read().count(" loop "):
        acases = []
        ccases = connlib.load_cases(replay)
    elif replay:
        acases = [vlib.Case(c.cid, c.header, c.ops, "replay") for c in connlib.load_cases(replay)]
        ccases = []
    else:
        acases = acc_cases(chk.rng, chk.tier)
        ccases = connlib.load_cases(os.path.join(vlib.ROOT, "corpus", "C11", "*.case"))
        n = 700 if chk.tier == "quick" else 8000
        for i in range(n):
            ccases.append(connlib.gen_case(chk.rng, "f%d" % i, "faults", maxops=22 if chk.tier == "quick" else 40))
    for env, tag in (({}, "epoll"), ({"MUDUO_USE_POLL": "1"}, "poll")):
        cs = acases if tag == "epoll" else [c for c in acases if c.tag == "loop"]
        if not cs:
            continue
        io, icr = vlib.run_batch_parallel(aimpl, cs, timeout=1200, env=env, jobs=8)
        mo, _ = vlib.run_batch_parallel(amodel, cs, timeout=600)
        for c in cs:
            chk.cov["evaluations"] += 1
            if c.cid in icr:
                orc_bad.append((c, 0, "listener driver crashed (%s): %s" % (tag, icr[c.cid][1][-400:])))
                continue
            li, lm = io.get(c.cid), mo.get(c.cid)
            if li is None:
                orc_bad.append((c, 0, "no output"))
                continue
            if c.tag == "loop":
                k, n = c.header.split()[1:3]
                want = "ok ev=- ran=%s exited=1 interrupted_left=0 bounded=1" % n
                if li[1] != want:
                    orc_bad.append((c, 0, "loop with %s interrupted poll calls under %s: %r (expected %r): tasks lost, loop exited or spinning" % (k, tag, li[1], want)))
            else:
                for (i, msg) in acc_oracle(c, li):
                    orc_bad.append((c, i, msg))
                sigs.add(("acc", tuple(c.ops)))
            if li != lm:
                idx = next((i for i in range(min(len(li), len(lm or []))) if li[i] != lm[i]), 0)
                corr_bad.append((c, idx, "listener impl %r vs model %r" % (li[idx], (lm or [None] * (idx + 1))[idx])))
    # ---- (2) connection under faults: differential + metamorphic transparency
    twins = [connlib.calm_case(c) for c in ccases]
    io, icr, mo, mcr = connlib.run_both(cmodel, cimpl, ccases)
    io2, icr2 = vlib.run_batch_parallel(cimpl, twins, timeout=1800)
    nfault = 0
    for c, t in zip(ccases, twins):
        chk.cov["evaluations"] += 1
        if c.cid in icr or t.cid in icr2:
            se = (icr.get(c.cid) or icr2.get(t.cid))[1]
            orc_bad.append((c, 0, "implementation crashed under faults: %s" % se.strip().split("\n")[0][:300]))
            continue
        li, lm, lt = io.get(c.cid), mo.get(c.cid), io2.get(t.cid)
        if li is None or lt is None:
            orc_bad.append((c, 0, "no output"))
            continue
        if li != lm:
            idx = next((i for i in range(min(len(li), len(lm or []))) if li[i] != lm[i]), 0)
            corr_bad.append((c, idx, "connection impl %r vs model %r" % (li[idx], (lm or [None] * (idx + 1))[idx])))
        tr1, tr2 = connlib.Trace(c, li), connlib.Trace(t, lt)
        for msg in connlib.transparency(tr1, tr2):
            orc_bad.append((c, len(c.ops) - 1, "faults are not a mere delay: " + msg))
        # the stream / notification oracles must hold under faults as well
        # (C03's clauses are the life-cycle part: a fault must not cost the peer its end-of-stream or a DOWN)
        for orc in (connlib.oracle_c01, connlib.oracle_c13, connlib.oracle_c03):
            for (i, key, msg) in orc(connlib.Trace(c, li)):
                if key is None:
                    orc_bad.append((c, i, msg))
        nf = sum(1 for op in c.ops for x in op.split() if x in connlib.TRANSIENT or x in ("RERR", "ERR"))
        if nf:
            nfault += 1
            sigs.add(("conn", tuple(op.split()[0] + ":" + ",".join(x for x in op.split()[1:] if x in connlib.TRANSIENT) for op in c.ops)))
        if len(chk.cov["samples"]) < 3 and nf >= 2 and len(c.ops) <= 14:
            chk.sample({"case": c.text().split("\n")[:-1], "calmed_twin": t.ops, "final": li[len(c.ops)] if len(li) > len(c.ops) else ""})
    chk.cov["distinct_nontrivial"] = len(sigs)
    chk.cov["rule"] = ("listener: enumerated + random histories over {client connects, accept ok, EMFILE, 5 transient errno classes, fatal classes in a forked child}, persisting-shortage "
                       "scenarios, interrupted poll calls under epoll and poll; connection: random scenarios with a fault-heavy scripted kernel (EAGAIN/EINTR/short writes at every write "
                       "site, read errors, error events), each also run as its fault-free twin; non-trivial = contains at least one injected fault; distinct by op/fault pattern")
    chk.cov["cases_with_faults"] = nfault
    chk.add_obligation("correspondence: C11_Model (listener) and Conn_Model (connection) == real Acceptor / TcpConnection under scripted faults", not corr_bad)
    chk.add_obligation("oracle: faulted run == fault-free twin on streams, callbacks, state; listener conservation; no abort/spin", not orc_bad)
    if chk.tier == "thorough" and not replay:
        ok_soak, soak_bad, summ = connlib.soak(chk, "C11")
        chk.cov["soak"] = summ
        chk.add_obligation("free-running loopback soak (real TcpServer, both pollers, 0/1/3 io threads, EINTR showers on the loop threads, 4 KiB kernel send buffers): "
                           "no wedge, no descriptor left open, streams intact", ok_soak)
        for m in soak_bad:
            orc_bad.append((vlib.Case("soak", "soak", [m], "soak"), 0, "free-running soak: " + m))
    chk.trusted("translator lib/gen_C11.py: switch tables of sockets::accept and Connector::connect from the clang AST, errno values from Python's errno module",
                "harness/C11_driver.cc (loopback listener, --wrap=accept4/epoll_wait/poll, fatal classes in a forked child), harness/Conn_driver.cc",
                "extraction: ExtrOcamlBasic only")
    if orc_bad:
        c, i, msg = orc_bad[0]
        p = chk.write_replay("oracle_%s.case" % c.cid, "# %s\n%s" % (msg.replace("\n", " "), c.text()))
        chk.violation(p, "C11 fails on the implementation: %s (%d failing case(s))" % (msg, len(set(x[0].cid for x in orc_bad))))
    elif corr_bad or not pr["ok"]:
        what = []
        body = ""
        if not pr["ok"]:
            what.append("proof obligation(s) no longer check: %s %s" % (pr["broken"], pr["problems"]))
        if corr_bad:
            c, idx, msg = corr_bad[0]
            what.append("correspondence broken at line %d (%s); the C11 oracle holds on all cases" % (idx, msg))
            body = c.text()
        p = chk.write_replay("broken_obligation.txt", "\n".join("# " + w for w in what) + "\n" + body +
                             ("\n--- coq log tail ---\n" + pr["log"][-3000:] if not pr["ok"] else ""))
        chk.violation(p, "; ".join(what), no_input=True)
    return chk.finish(level="proof", assumptions=[
        "kernel contract (DESIGN 3.4): accept succeeds only when a connection is pending; a zero-length write never fails transiently; after SHUT_WR writes fail with EPIPE",
        "fatal accept classes abort the process by design (LOG_FATAL); they are exercised in a forked child"])
