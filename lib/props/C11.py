"""C11: transient socket faults delay service but never corrupt, wedge or leak.
 proof: Properties_C11.v (listener / classification tables regenerated from the source / poll) and the
        fault theorems over Conn_Model;
 correspondence: (1) real Acceptor on a loopback listener with scripted accept4 answers vs C11_Model,
        (2) real TcpConnection with fault-heavy kernel scripts vs Conn_Model,
        (3) the real EventLoop::loop() with every pass scripted (bursts of interrupted polls at every position of a
            scenario, both back-ends) vs C11_Model.loop_run;
 oracle: the property text - a faulted run and its fault-free twin must agree on everything visible."""
import os, re, itertools
import vlib, connlib

ACC_LINE = re.compile(r"^ok ev=(\S+) ready=(\d) handed=(\d+) valved=(\d+) idle=(\d) fds=(-?\d+)$")
TRANSIENT_ACC = ["eagain", "eintr", "econnaborted", "eproto", "eperm"]
FATAL_ACC = ["ebadf", "efault", "einval", "enfile", "enobufs", "enomem", "enotsock", "eopnotsupp", "eio"]


def acc_oracle(case, lines):
    """property text on the listener's implementation trace"""
    res = []
    prev = dict(ready=0, handed=0, valved=0)
    pend = 0
    for i, op in enumerate(case.ops):
        if i + 1 >= len(lines):
            return [(i, "missing output")]
        m = ACC_LINE.match(lines[i + 1])
        if not m:
            return [(i, "unparsable %r" % lines[i + 1])]
        ev, ready, handed, valved, idle, fds = m.group(1), int(m.group(2)), int(m.group(3)), int(m.group(4)), int(m.group(5)), int(m.group(6))
        t = op.split()
        if t[0] == "CONN":
            pend += 1
        elif t[1] == "ok":
            if pend > 0:
                if handed != prev["handed"] + 1 or "NewConn" not in ev:
                    res.append((i, "a pending connection was not handed over although accept was allowed to succeed"))
                pend -= 1
        elif t[1] == "emfile":
            if pend > 0:
                if valved != prev["valved"] + 1:
                    res.append((i, "descriptor shortage with a connection pending: it was left pending instead of being closed"))
                pend -= 1
            if idle != 1:
                res.append((i, "spare descriptor not restored after the shortage"))
        elif len(t) > 2 and t[2] == "fatal":
            pass
        else:   # transient: nothing may change
            if (handed, valved) != (prev["handed"], prev["valved"]) or "Abort" in ev:
                res.append((i, "transient accept fault %s changed the listener (%s)" % (t[1], lines[i + 1])))
        if t[0] == "ACC" and len(t) == 2 and "Abort" in ev:
            res.append((i, "listener aborted on %s" % t[1]))
        if ready != (1 if pend > 0 else 0):
            res.append((i, "listener readiness %d with %d connection(s) pending" % (ready, pend)))
        if fds != 0:
            res.append((i, "descriptor census off by %d after %r" % (fds, op)))
        prev = dict(ready=ready, handed=handed, valved=valved)
    return res


LOOP_LINE = re.compile(r"^ok disp=(\S+) ran=(\S+) pend=(\d+) quit=(\d) it=(\d+) log=(\d+)$")


def loop_oracle(case, lines):
    """property text on the loop's implementation trace: under interrupted polls the loop neither exits,
    aborts nor spins; no task / event is lost or duplicated; an interrupted poll costs exactly one empty pass.
    Independent bookkeeping (not the model): unread pipes, the task queue in FIFO order, who asked to quit."""
    res = []
    unread = [0, 0, 0]
    queue = []          # functors queued and not yet run, in queueing order
    asked_quit = False
    passes = 0
    for i, op in enumerate(case.ops):
        if i + 2 >= len(lines):
            return res + [(i, "missing output")]
        ln = lines[i + 1]
        t = op.split()
        exts = t[2:] if t[0] == "E" else t[1:]
        if ln == "ok unused":
            if not asked_quit:
                res.append((i, "the loop left its while loop although nobody asked it to quit (after %d passes)" % passes))
                return res
            continue
        if asked_quit:
            res.append((i, "the loop made another pass after quit was requested and the pass that saw it had ended"))
            return res
        m = LOOP_LINE.match(ln)
        if not m:
            return res + [(i, "unparsable %r" % ln)]
        disp = [] if m.group(1) == "-" else [int(x[1:]) for x in m.group(1).split(",")]
        ran = [] if m.group(2) == "-" else [int(x[1:]) for x in m.group(2).split(",")]
        pend, quit, it, log = int(m.group(3)), int(m.group(4)), int(m.group(5)), int(m.group(6))
        passes += 1
        for e in exts:
            if e == "quit":
                asked_quit = True
            elif e[0] == "q":
                queue.append(int(e[1:]))
            elif e[0] == "p":
                unread[int(e[1:])] += 1
        if it != passes:
            res.append((i, "iteration count %d after %d returns of the poll call (one pass per return: no spinning, none skipped)" % (it, passes)))
        if t[0] in ("I", "E"):
            if disp:
                res.append((i, "a failed poll call dispatched channels %s" % disp))
            if t[0] == "I" and log:
                res.append((i, "an interrupted poll call (EINTR) was logged as an error"))
        else:
            want = [c for c in range(3) if unread[c] > 0]
            if disp != want:
                res.append((i, "channels dispatched %s, readable %s: an event was lost or duplicated" % (disp, want)))
        for c in disp:
            unread[c] = 0
            if c == 1:
                queue.append(5)
        # doPendingFunctors: everything queued up to here runs now, once, in order (also in an interrupted pass)
        if ran != queue:
            res.append((i, "functors run %s, queued and due %s: a task was lost, duplicated, reordered or skipped by the pass" % (ran, queue)))
        queue = [f - 10 for f in ran if 10 <= f < 20]
        if 99 in ran:
            asked_quit = True
        if pend != len(queue):
            res.append((i, "%d functors left pending, %d expected" % (pend, len(queue))))
        if quit != (1 if asked_quit else 0):
            res.append((i, "quit_ = %d although quit was%s requested: a failed poll must not end the loop" % (quit, "" if asked_quit else " not")))
    return res


LOOP_SCENARIOS = [
    ["N q1", "N p0", "N q2 p1", "N", "N q10", "N", "N quit"],
    ["N p0 p1 p2", "N q11 q3", "N", "N p1", "N q99", "N q4"],
    ["N q1 q2 q3", "N p2", "N p2 q12", "N", "N quit"],
    ["N", "N p1", "N", "N q10 q11", "N p0 quit", "N q1"],
]


def loop_cases(rng, tier):
    """bursts of k interrupted polls at EVERY position of each scenario (the burst either on its own, or with
    the other thread's activity of that position happening during the burst's first / last pass), plus
    random scripts; a few failed polls with another errno"""
    cases = []
    n = 0
    ks = (1, 2, 3, 7) if tier == "quick" else (1, 2, 3, 5, 7, 12, 25)
    for si, sc in enumerate(LOOP_SCENARIOS):
        cases.append(vlib.Case("lb%d" % si, "loop", sc, "loop-base"))
        for pos in range(len(sc) + 1):
            for k in ks:
                for how in ("alone", "first", "last"):
                    if how != "alone" and (pos >= len(sc) or len(sc[pos].split()) == 1):
                        continue
                    burst = ["I"] * k
                    ops = list(sc)
                    if how != "alone":
                        exts = sc[pos].split()[1:]
                        j = 0 if how == "first" else k - 1
                        burst[j] = "I " + " ".join(exts)
                        ops[pos] = "N"
                    n += 1
                    cases.append(vlib.Case("lp%d" % n, "loop", ops[:pos] + burst + ops[pos:], "loop-burst"))
    # the plain statement of the property: k interrupted polls, then one normal pass that delivers everything: k + 1 passes
    for k in (0, 1, 2, 5, 25):
        cases.append(vlib.Case("lk%d" % k, "loop", ["I"] * k + ["N q1 q2 p0 p2 quit"], "loop-k"))
    exts_pool = ["q1", "q2", "q3", "q10", "q11", "q15", "p0", "p1", "p2"]
    for i in range(120 if tier == "quick" else 1500):
        ops = []
        for _ in range(rng.randint(3, 14)):
            r = rng.random()
            kind = "I" if r < 0.4 else ("E %s" % rng.choice(["enomem", "einval", "ebadf"]) if r < 0.47 else "N")
            ex = [rng.choice(exts_pool) for _ in range(rng.choice([0, 0, 1, 1, 2, 3]))]
            if rng.random() < 0.04:
                ex.append(rng.choice(["quit", "q99"]))
            ops.append(" ".join([kind] + ex))
        ops.append("N quit")
        cases.append(vlib.Case("lr%d" % i, "loop", ops, "loop-random"))
    return cases


def acc_cases(rng, tier):
    cases = []
    alpha = ["CONN", "ACC ok", "ACC emfile"] + ["ACC " + e for e in TRANSIENT_ACC]
    depth = 4 if tier == "quick" else 5
    n = 0
    for ops in itertools.product(alpha, repeat=depth):
        if tier == "quick" and rng.random() > 0.08:
            continue
        n += 1
        cases.append(vlib.Case("ax%d" % n, "acc", list(ops) + ["ACC emfile", "ACC ok"], "acc-enum"))
    for i in range(60 if tier == "quick" else 600):
        k = rng.randint(3, 14)
        ops = [rng.choice(alpha + ["CONN", "ACC emfile"]) for _ in range(k)]
        if rng.random() < 0.3:
            ops.append("ACC %s fatal" % rng.choice(FATAL_ACC))
        cases.append(vlib.Case("ar%d" % i, "acc", ops, "acc-random"))
    # the persisting-shortage scenario of the no-spin theorem: n pending, n+1 dispatches with EMFILE
    for n in (1, 2, 5):
        cases.append(vlib.Case("starve%d" % n, "acc", ["CONN"] * n + ["ACC emfile"] * (n + 1) + ["CONN", "ACC ok"], "acc-starve"))
    # REVIEW_C item 6 / finding F-27 (fixed in /repo; regression witness): the same histories with a logger sink that changes
    # errno on every line it is given (a failing system call): a test of errno placed AFTER a log statement would then go
    # wrong.  Each is compared with the run under an errno-preserving sink (its twin above / below).
    clob = []
    base = [c for c in cases if any(o.startswith("ACC") and not o.endswith("fatal") for o in c.ops) and not any(o.endswith("fatal") for o in c.ops)]
    pick = [c for c in base if c.tag == "acc-starve"] + [c for c in base if c.tag != "acc-starve" and "ACC emfile" in c.ops[:-2]][:40 if tier == "quick" else 400]
    for c in pick:
        clob.append(vlib.Case(c.cid + "_clob", "acc clobber", c.ops, "acc-clobber"))
    # REVIEW_E E-4: the free-running idle loop (real time-out, real signals): must not go round without a reason
    idle = [vlib.Case("idle%d_%d" % (ms, k), "idle %d %d" % (ms, k), ["GO"], "idle") for (ms, k) in ((120, 0), (200, 3), (300, 8))]
    return cases + clob + idle + loop_cases(rng, tier)


def run(chk, replay=None):
    pr = chk.prove()
    # ---- (1)+(3) listener and loop
    amodel = vlib.build_model("C11")
    aimpl = vlib.build_driver("C11_driver", ["C11_driver.cc"], variant="asan", wrap=["accept4", "epoll_wait", "poll"])
    cmodel, cimpl = connlib.build()
    corr_bad, orc_bad = [], []
    sigs = set()
    nloop_intr = 0
    clob_bad = []     # fails only when the logger's sink changes errno
    if replay and not re.search(r"^case \S+ (acc|loop|idle)\b", open(replay).read(), re.M):
        acases = []
        ccases = connlib.load_cases(replay)
    elif replay:
        acases = [vlib.Case(c.cid, c.header, c.ops, "replay") for c in connlib.load_cases(replay)]
        ccases = []
    else:
        acases = acc_cases(chk.rng, chk.tier)
        ccases = connlib.load_cases(os.path.join(vlib.ROOT, "corpus", "C11", "*.case"))
        n = 700 if chk.tier == "quick" else 8000
        for i in range(n):
            ccases.append(connlib.gen_case(chk.rng, "f%d" % i, "faults", maxops=22 if chk.tier == "quick" else 40))
    for env, tag in (({}, "epoll"), ({"MUDUO_USE_POLL": "1"}, "poll")):
        cs = acases if tag == "epoll" else [c for c in acases if c.header == "loop" or c.header.startswith("idle")]
        if not cs:
            continue
        io, icr = vlib.run_batch_parallel(aimpl, cs, timeout=1200, env=env, jobs=8)
        mo, _ = vlib.run_batch_parallel(amodel, cs, timeout=600, env=env)
        for c in cs:
            chk.cov["evaluations"] += 1
            if c.cid in icr:
                what = "the process aborted / crashed in the loop under a failed poll call" if (c.header == "loop" or c.header.startswith("idle")) else "listener driver crashed"
                orc_bad.append((c, 0, "%s (%s, exit status %s): %s" % (what, tag, icr[c.cid][0], icr[c.cid][1][-400:].strip())))
                continue
            li, lm = io.get(c.cid), mo.get(c.cid)
            if li is None:
                orc_bad.append((c, 0, "no output"))
                continue
            if c.header.startswith("idle"):
                ms, k = c.header.split()[1:3]
                if len(li) < 2 or li[1] != "ok idle spin=0":
                    orc_bad.append((c, 0, "the idle loop spins (%s): %s with nothing to do for %s ms but %s signal(s) and one quit() - expected at most %d passes" % (tag, li[1] if len(li) > 1 else "no output", ms, k, int(k) + 4)))
                sigs.add(("idle", tag, c.header))
            elif c.header == "loop":
                for (i, msg) in loop_oracle(c, li):
                    orc_bad.append((c, i, "loop under interrupted polls (%s): %s" % (tag, msg)))
                nloop_intr += sum(1 for op in c.ops if op[0] in "IE")
                sigs.add(("loop", tag, tuple(c.ops)))
                if c.cid in ("lp3", "lk2") and tag == "poll":
                    chk.sample({"case": c.text().split("\n")[:-1], "back_end": tag, "implementation": li[1:-1]}, limit=8)
            elif c.tag == "acc-clobber":
                twin_ok = not acc_oracle(c, io.get(c.cid[:-5]) or [])
                for (i, msg) in acc_oracle(c, li):
                    (clob_bad if twin_ok else orc_bad).append((c, i, msg))
                sigs.add(("acc-clobber", tuple(c.ops)))
            else:
                for (i, msg) in acc_oracle(c, li):
                    orc_bad.append((c, i, msg))
                sigs.add(("acc", tuple(c.ops)))
            if li != lm and c.tag != "acc-clobber":     # (the model is of the code under an errno-preserving sink)
                idx = next((i for i in range(min(len(li), len(lm or []))) if li[i] != lm[i]), 0)
                corr_bad.append((c, idx, "listener impl %r vs model %r" % (li[idx], (lm or [None] * (idx + 1))[idx])))
    # ---- (2) connection under faults: differential + metamorphic transparency
    twins = [connlib.calm_case(c) for c in ccases]
    io, icr, mo, mcr = connlib.run_both(cmodel, cimpl, ccases)
    io2, icr2 = vlib.run_batch_parallel(cimpl, twins, timeout=1800)
    nfault = 0
    for c, t in zip(ccases, twins):
        chk.cov["evaluations"] += 1
        if c.cid in icr or t.cid in icr2:
            se = (icr.get(c.cid) or icr2.get(t.cid))[1]
            orc_bad.append((c, 0, "implementation crashed under faults: %s" % se.strip().split("\n")[0][:300]))
            continue
        li, lm, lt = io.get(c.cid), mo.get(c.cid), io2.get(t.cid)
        if li is None or lt is None:
            orc_bad.append((c, 0, "no output"))
            continue
        if li != lm:
            idx = next((i for i in range(min(len(li), len(lm or []))) if li[i] != lm[i]), 0)
            corr_bad.append((c, idx, "connection impl %r vs model %r" % (li[idx], (lm or [None] * (idx + 1))[idx])))
        tr1, tr2 = connlib.Trace(c, li), connlib.Trace(t, lt)
        for msg in connlib.transparency(tr1, tr2):
            orc_bad.append((c, len(c.ops) - 1, "faults are not a mere delay: " + msg))
        # the stream / notification oracles must hold under faults as well
        # (C03's clauses are the life-cycle part: a fault must not cost the peer its end-of-stream or a DOWN)
        for orc in (connlib.oracle_c01, connlib.oracle_c13, connlib.oracle_c03):
            for (i, key, msg) in orc(connlib.Trace(c, li)):
                if key is None:
                    orc_bad.append((c, i, msg))
        nf = sum(1 for op in c.ops for x in op.split() if x in connlib.TRANSIENT or x in ("RERR", "ERR"))
        if nf:
            nfault += 1
            sigs.add(("conn", tuple(op.split()[0] + ":" + ",".join(x for x in op.split()[1:] if x in connlib.TRANSIENT) for op in c.ops)))
        if len(chk.cov["samples"]) < 5 and nf >= 2 and len(c.ops) <= 14:
            chk.sample({"case": c.text().split("\n")[:-1], "calmed_twin": t.ops, "final": li[len(c.ops)] if len(li) > len(c.ops) else ""})
    # REVIEW_C item 6, connection side: scenarios with a failed direct write that is logged (EINTR / another errno),
    # run again with a logger sink that leaves EPIPE in errno: the implementation's lines must not change
    clob_replay = bool(replay) and "# sink=clobber" in open(replay).read()
    loud = [c for c in ccases if any(x in ("eintr", "eother") for op in c.ops for x in op.split()[1:])]
    loud = loud if clob_replay else ([] if replay else loud[:150 if chk.tier == "quick" else 1500])
    if loud:
        io3, icr3 = vlib.run_batch_parallel(cimpl, loud, timeout=1800, env={"VERIF_LOG_CLOBBER": "1"})
        for c in loud:
            chk.cov["evaluations"] += 1
            a, b = io.get(c.cid), io3.get(c.cid)
            if a is None or c.cid in icr:
                continue
            if b is None or c.cid in icr3:
                clob_bad.append((c, 0, "implementation crashed when the logger's sink changes errno"))
            elif a != b:
                idx = next((i for i in range(min(len(a), len(b))) if a[i] != b[i]), 0)
                clob_bad.append((c, idx, "connection behaves differently when the logger's sink leaves EPIPE in errno: %r vs %r (a write error is classified by an errno read after LOG_SYSERR)" % (b[idx], a[idx])))
            sigs.add(("conn-clobber", tuple(c.ops)))
    if not chk.cov["samples"] and ccases:
        # always show at least one actual faulted connection case with its calmed twin
        c0 = next((c for c in ccases if any(x in connlib.TRANSIENT for op in c.ops for x in op.split())), ccases[0])
        chk.sample({"case": c0.text().split("\n")[:-1][:30], "calmed_twin": connlib.calm_case(c0).ops[:30]})
    chk.cov["distinct_nontrivial"] = len(sigs)
    chk.cov["rule"] = ("listener: enumerated + random histories over {client connects, accept ok, EMFILE, 5 transient errno classes, fatal classes in a forked child}, persisting-shortage "
                       "scenarios, the same EMFILE histories under a logger sink that changes errno; loop: the real EventLoop::loop() with every pass scripted (what another thread "
                       "does meanwhile: queueInLoop / pipe readable / quit; how epoll_wait / poll returns: EINTR, another errno, the real call) - bursts of 1,2,3,7 interrupted "
                       "polls at EVERY position of 4 scenarios (alone / with the position's foreign activity during the first / last pass of the burst), k interrupted polls then one "
                       "normal pass, random scripts, under BOTH back-ends; the free-running idle loop (real time-out, 0/3/8 real signals, quit from a helper thread; iteration() growth bounded) under both back-ends; connection: corpus (empty sends under faults) + random scenarios with a fault-heavy scripted kernel (EAGAIN/EINTR/short writes at every write "
                       "site, read errors, error events), each also run as its fault-free twin; non-trivial = contains at least one injected fault; distinct by op/fault pattern")
    chk.cov["cases_with_faults"] = nfault
    chk.add_obligation("correspondence: C11_Model (listener) and Conn_Model (connection) == real Acceptor / TcpConnection under scripted faults", not corr_bad)
    chk.add_obligation("oracle: faulted run == fault-free twin on streams, callbacks, state; listener conservation; loop under interrupted polls: no exit/abort/spin, no task or event lost or duplicated, one pass per poll return", not orc_bad)
    chk.cov["interrupted_polls_executed"] = nloop_intr
    key = "errno-after-log"
    clob_known = any(k["property"] == "C11" and k["key"] == key for k in vlib.known_findings())
    chk.add_obligation("errno is not read after a log statement: a logger sink that changes errno == a sink that preserves it (listener under EMFILE, connection under logged write errors)"
                       + (" [recorded finding %s]" % key if clob_bad and clob_known else ""), (not clob_bad) or clob_known)
    if clob_bad:
        c, i, msg = clob_bad[0]
        txt = ("errno is tested after a log statement (Acceptor::handleRead `errno == EMFILE`, TcpConnection::sendInLoop `errno == EPIPE || ..`, both after LOG_SYSERR): "
               "with a logger output function that changes errno: %s (%d case(s); the same cases pass with a sink that preserves errno)" % (msg, len(set(x[0].cid for x in clob_bad))))
        if clob_known:
            chk.known(key, txt)
        else:
            p = chk.write_replay("oracle_%s.case" % c.cid, "# %s\n%s%s" % (msg.replace("\n", " "), "# sink=clobber\n" if c.header != "acc clobber" else "", c.text()))
            chk.violation(p, "C11 fails on the implementation: " + txt)
    if chk.tier == "thorough" and not replay:
        ok_soak, soak_bad, summ = connlib.soak(chk, "C11")
        chk.cov["soak"] = summ
        chk.add_obligation("free-running loopback soak (real TcpServer, both pollers, 0/1/3 io threads, EINTR showers on the loop threads, 4 KiB kernel send buffers): "
                           "no wedge, no descriptor left open, streams intact", ok_soak)
        for m in soak_bad:
            orc_bad.append((vlib.Case("soak", "soak", [m], "soak"), 0, "free-running soak: " + m))
    chk.trusted("translator lib/gen_C11.py: switch tables of sockets::accept and Connector::connect, the whole of EPollPoller::poll / PollPoller::poll (guards + statement codes per branch, "
                "fail closed: whatever is not positively recognised - Logger(.., true) / Logger::FATAL, abort, assert, return, unknown calls or node kinds - is code 9 = aborts), the bodies of "
                "EventLoop::loop's while loop and of doPendingFunctors, the EMFILE branch of Acceptor::handleRead, all from the clang AST; errno values from Python's errno module",
                "harness/C11_driver.cc (loopback listener, --wrap=accept4/epoll_wait/poll, fatal classes in a forked child; loop mode: every epoll_wait / poll of the loop thread follows the script, "
                "real calls with timeout 0, foreign activity on a joined helper thread), harness/Conn_driver.cc",
                "lib/errno_order.py (which locals are single-assignment copies of errno; where the tested value is captured; which log statements lie on the path to that point)",
                "kernel: a failed epoll_wait / poll reports nothing and consumes nothing (level-triggered readiness is reported again by the next successful call) - exercised, not proved",
                "extraction: ExtrOcamlBasic only")
    if orc_bad:
        c, i, msg = orc_bad[0]
        p = chk.write_replay("oracle_%s.case" % c.cid, "# %s\n%s" % (msg.replace("\n", " "), c.text()))
        chk.violation(p, "C11 fails on the implementation: %s (%d failing case(s))" % (msg, len(set(x[0].cid for x in orc_bad))))
    elif corr_bad or not pr["ok"]:
        what = []
        body = ""
        if not pr["ok"]:
            what.append("proof obligation(s) no longer check: %s %s" % (pr["broken"], pr["problems"]))
        if corr_bad:
            c, idx, msg = corr_bad[0]
            what.append("correspondence broken at line %d (%s); the C11 oracle holds on all cases" % (idx, msg))
            body = c.text()
        p = chk.write_replay("broken_obligation.txt", "\n".join("# " + w for w in what) + "\n" + body +
                             ("\n--- coq log tail ---\n" + pr["log"][-3000:] if not pr["ok"] else ""))
        chk.violation(p, "; ".join(what), no_input=True)
    return chk.finish(level="proof", assumptions=[
        "kernel contract (DESIGN 3.4): accept succeeds only when a connection is pending; a zero-length write never fails transiently (queued empty block AND the direct write of a loop-thread send of an empty block: env_ok); after SHUT_WR writes fail with EPIPE",
        "loop model: what other threads do (queueInLoop, quit) is taken to happen while the loop thread is in the poll call - the swap in doPendingFunctors is under the mutex, so a foreign queueInLoop during the dispatch / functor phase is equivalent to one before / after it",
        "fatal accept classes abort the process by design (LOG_FATAL); they are exercised in a forked child"])
