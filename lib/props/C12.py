"""C12: a client connects once per cycle, retries with back-off, obeys stop/disconnect, keeps its sockets
in order and can be destroyed at any point.
proof (Properties_C12.v over C12_Model.v, all histories) + regenerated facts (errno table of
Connector::connect, back-off update expression, both constants) + differential execution of the extracted
model against the real TcpClient/Connector/TcpConnection (scripted kernel, virtual clock, ASan/UBSan,
asserts on) + an independent oracle (the property text, in Python, on the implementation's outputs)."""
import os, re, sys, glob, subprocess, time
import vlib

WRAP = ["socket", "connect", "close", "shutdown", "getsockopt", "getsockname", "getpeername", "gettimeofday",
        "pthread_mutex_lock", "epoll_ctl"]

# errno classes of the property text ("refused or failed attempts" are retried; an attempt that is in
# progress is watched; anything else is given up) -- the oracle's own table, Linux numbers
E = {"0": 0, "EINPROGRESS": 115, "EINTR": 4, "EISCONN": 106, "EAGAIN": 11, "EADDRINUSE": 98, "EADDRNOTAVAIL": 99,
     "ECONNREFUSED": 111, "ENETUNREACH": 101, "EACCES": 13, "EPERM": 1, "EAFNOSUPPORT": 97, "EALREADY": 114,
     "EBADF": 9, "EFAULT": 14, "ENOTSOCK": 88, "ETIMEDOUT": 110, "EHOSTUNREACH": 113, "ECONNRESET": 104, "ENOBUFS": 105}
PROCEED = {0, 115, 4, 106}
RETRY = {11, 98, 99, 111, 101}
INIT_MS, MAX_MS = 500, 30000       # the numbers of the property text (0.5 s doubling, never more than 30 s)

LINE = re.compile(r"^(ok|rejected) t=(-?\d+) ev=(\S+) arm=(\S+) k=(\S+) tm=(\S+) pend=(\d+) socks=(\S+) cl=(\S+) cs=(\S+)$")

KEY_F10A = "connect-while-retry-timer-pending"
KEY_F10B = "connect-after-stop-delay-not-reset"
KEY_N1 = "connect-when-state-kConnected"
KEY_N4 = "connect-while-resetChannel-queued"
KEY_N2 = "destroy-with-connection-while-connector-functor-queued"
KEY_F13 = "foreign-destroy-races-loop-thread"
KEY_REL = "user-releases-last-reference-of-live-connection"
KEY_E2 = "client-destroyed-then-loop-destroyed"
# the three asserts by which ~EventLoop (pendingFunctors_ / timers destroyed unrun) brings a client's leftovers down
E2_ASSERTS = ("assert:state__==_kDisconnected at=muduo::net::TcpConnection::~TcpConnection",
              "assert:!addedToLoop_ at=muduo::net::Channel::~Channel",
              "assert:!channel_ at=muduo::net::Connector::~Connector")


def lst(x):
    return [] if x == "-" else x.split(",")


class Obs:
    __slots__ = ("status", "t", "ev", "arm", "k", "tm", "pend", "socks", "cl", "cs")

    def __init__(self, m):
        self.status, self.t = m.group(1), int(m.group(2))
        self.ev, self.arm = lst(m.group(3)), [int(x) for x in lst(m.group(4))]
        self.k = m.group(5)
        self.tm = [int(x) for x in lst(m.group(6))]
        self.pend, self.socks, self.cl, self.cs = int(m.group(7)), lst(m.group(8)), m.group(9), lst(m.group(10))

    def kf(self):
        """(state, connect_, channel, delay) or None when the Connector is gone"""
        if self.k == "dead":
            return None
        a = self.k.split("/")
        return int(a[0]), a[1] == "1", a[2], int(a[3])

    def conn(self):
        a = self.cl.split("/")
        return a[2] if len(a) == 3 else None


def canon(lines):
    return ["FAULT" if l.startswith("crashed") else l for l in lines]


def oracle(case, lines):
    """The property text evaluated on the implementation's output.
    Returns (failures, sigs): failures = [(op index, kind, message)], sigs = {key: op index} of the
    history patterns under which a recorded finding applies (computed from ops and outputs only)."""
    fails, sigs = [], {}
    ops = case.ops
    prev = None
    want = False            # the user wants a connection (connect() since the last stop()/destroy)
    cl_connect = True       # TcpClient: connect()/disconnect()/stop()
    retry_on = False
    fails_in_cycle = 0
    ups_in_cycle = 0
    cycle_open = False      # a connect cycle may produce attempts
    retry_due = []          # due times of retry timers
    hack_from_queue = False
    destroyed = False
    dying = False
    socks = {}              # i -> dict(closes, handed, ccloses)
    up, downs = set(), set()
    fin_expected = {}       # conn -> "now" | "queued"
    kq_since_run = 0        # stop()/start() functors queued since the last RUN
    foreign = set()
    user = None

    def fail(i, kind, msg):
        fails.append((i, kind, msg))

    def sig(k, i):
        sigs.setdefault(k, i)

    for i, op in enumerate(ops):
        if i + 1 >= len(lines) or lines[i + 1] == "end":
            fail(i, "output", "missing output for op %d (%s)" % (i, op))
            break
        ln = lines[i + 1]
        w = op.split()
        k = w[0]
        pk = prev.kf() if prev else (0, False, "-", INIT_MS)
        pconn = prev.conn() if prev else "-"
        if not ln.startswith("rejected"):
            # op patterns of the recorded findings, from the state BEFORE the op (so that they are known when the op crashes)
            if k in ("CONNECT", "XCF") and prev is not None and not destroyed and not dying:
                if prev.tm:
                    sig(KEY_F10A, i)
                if pk and pk[3] != INIT_MS:
                    sig(KEY_F10B, i)
                if pk and pk[0] == 2:
                    sig(KEY_N1, i)
                if pk and pk[2] != "-" and pk[0] == 0:
                    sig(KEY_N4, i)
            if k in ("DESTROY", "XYR") and pconn not in ("-", None) and prev and prev.pend > 0 and \
                    (pk and pk[2].endswith(":0") or kq_since_run > 0) and not destroyed and not dying:
                sig(KEY_N2, i)
            if k in ("XYR", "EVWY") and not destroyed and not dying:
                sig(KEY_F13, i)
            if k == "REL" and destroyed and user not in (None, "-") and prev is not None and int(user) < len(prev.cs) and \
                    prev.cs[int(user)].split("/")[0] in ("2", "3"):
                sig(KEY_REL, i)
            # REVIEW_E E-2: the EventLoop is destroyed after the client (scope exit) while functors / timers that ~TcpClient or the
            # last loop iteration queued are still pending: they are destroyed unrun
            if k == "LOOPEND" and prev is not None and prev.cl == "x" and (prev.pend > 0 or prev.tm) and \
                    ln.startswith("crashed") and any(a in ln for a in E2_ASSERTS):
                sigs[KEY_E2] = i
        if ln.startswith("crashed"):
            fail(i, "crash", "op %d (%s): %s" % (i, op, ln))
            break
        m = LINE.match(ln)
        if not m:
            fail(i, "output", "unparsable output %r" % ln)
            break
        o = Obs(m)
        if o.status == "rejected":
            prev = o
            continue
        now = o.t - 1          # the op ran at this virtual time (TF: after the clock was advanced)
        ev = o.ev
        arms = list(o.arm)
        # ---------------- who asked for what
        if k in ("CONNECT", "XCF"):
            want, cl_connect = True, True
            fails_in_cycle, ups_in_cycle, cycle_open = 0, 0, True
            if k == "XCF":
                foreign.add("C")
        elif k == "XCE":
            foreign.discard("C")
            kq_since_run += 1
        elif k in ("STOP", "XSF"):
            want, cl_connect = False, False
            if k == "STOP":
                kq_since_run += 1
            else:
                foreign.add("S")
        elif k == "XSE":
            foreign.discard("S")
            kq_since_run += 1
        elif k in ("DISCONNECT", "XDF"):
            cl_connect = False
            if k == "XDF":
                foreign.add("D")
        elif k == "RETRY":
            retry_on = True
        elif k == "DESTROY":
            destroyed = True
            if pconn in ("-", None):
                want = False
                if 1000 in arms:
                    arms.remove(1000)
                else:
                    fail(i, "destroy", "~TcpClient without a connection did not arm its 1 s keep-alive timer")
        elif k == "XYR":
            dying = True
            if pconn in ("-", None):
                want = False
        elif k == "XYD":
            dying, destroyed = False, True
            hack_from_queue = True
        if k == "DISCONNECT" and pconn not in ("-", None):
            c_ = int(pconn)
            st_ = prev.cs[c_].split("/") if prev and c_ < len(prev.cs) else None
            if st_ and st_[0] == "2":
                fin_expected[c_] = "now"
        # ---------------- events
        attempted, closed_now, handed_now = [], [], []
        for e in ev:
            t = e.split(":")
            if t[0] == "att":
                s_, en = int(t[1]), int(t[2])
                if s_ in socks:
                    fail(i, "hygiene", "socket %d used for two attempts" % s_)
                socks[s_] = {"closes": 0, "handed": 0, "ccloses": 0, "errno": en}
                attempted.append((s_, en))
            elif t[0] == "close":
                s_ = int(t[1])
                r = socks.setdefault(s_, {"closes": 0, "handed": 0, "ccloses": 0, "errno": None})
                r["closes"] += 1
                closed_now.append(s_)
                if r["closes"] > 1:
                    fail(i, "hygiene", "socket %d closed %d times by the connector" % (s_, r["closes"]))
                if r["handed"]:
                    fail(i, "hygiene", "socket %d closed by the connector after it was handed over" % s_)
            elif t[0] == "hand":
                s_ = int(t[1])
                r = socks.setdefault(s_, {"closes": 0, "handed": 0, "ccloses": 0, "errno": None})
                r["handed"] += 1
                handed_now.append(s_)
                if r["handed"] > 1 or r["closes"]:
                    fail(i, "hygiene", "socket %d handed over twice / after it was closed" % s_)
            elif t[0] == "cclose":
                s_ = int(t[1])
                r = socks.setdefault(s_, {"closes": 0, "handed": 0, "ccloses": 0, "errno": None})
                r["ccloses"] += 1
                if r["ccloses"] > 1 or not r["handed"]:
                    fail(i, "hygiene", "connection socket %d closed %d times / never handed over" % (s_, r["ccloses"]))
            elif t[0] == "up":
                c = int(t[1])
                if not handed_now:
                    fail(i, "up", "connection %d reported without a socket handed over in the same step" % c)
                if not want:
                    fail(i, "stop", "connection %d reported after stop()/destruction" % c)
                if destroyed:
                    fail(i, "destroy", "connection %d reported to a destroyed client" % c)
                if up:
                    fail(i, "up", "connection %d reported while connection %s is still up" % (c, sorted(up)))
                ups_in_cycle += 1
                if ups_in_cycle > 1:
                    fail(i, "up", "second connection in one connect cycle")
                if c in up or c in downs:
                    fail(i, "up", "connection %d reported UP twice" % c)
                up.add(c)
                cycle_open = False
            elif t[0] == "down":
                c = int(t[1])
                if c not in up:
                    fail(i, "down", "DOWN for connection %d that is not up" % c)
                up.discard(c)
                downs.add(c)
                fin_expected.pop(c, None)
                if not destroyed and pconn == str(c):
                    # the reconnect decision: iff retry enabled and connect wanted (no disconnect()/stop() since)
                    again = any(x.startswith("att:") for x in ev)
                    if retry_on and cl_connect:
                        if not again:
                            fail(i, "retry-policy", "retry enabled and connect wanted, but no new attempt after connection %d went down" % c)
                        fails_in_cycle, ups_in_cycle, cycle_open, want = 0, 0, True, True
                    elif again:
                        fail(i, "retry-policy", "new attempt after connection %d went down although %s" %
                             (c, "retry is off" if not retry_on else "disconnect()/stop() was called"))
            elif t[0] == "fin":
                c = int(t[1])
                if fin_expected.pop(c, None) is None and c in up:
                    fail(i, "disconnect", "write side of connection %d shut down without disconnect()" % c)
        # ---------------- attempts: where and when
        if attempted:
            if len(attempted) > 1:
                fail(i, "attempt", "two attempts in one step")
            if not cycle_open or not want:
                fail(i, "attempt", "attempt although no connect cycle is open (stopped, connected or never started)")
            if k == "TF":
                duenow = [d for d in retry_due if d <= now]
                if not duenow:
                    fail(i, "backoff", "attempt at t=%d ms but no retry timer is due (pending: %s)" % (now, retry_due))
            elif k not in ("CONNECT", "RUN", "RUN1", "DOWN"):
                fail(i, "attempt", "attempt started by %s" % k)
        if k == "TF":
            retry_due = [d for d in retry_due if d > now]
        # ---------------- failed attempts and the back-off
        for (s_, en) in attempted:
            if en in PROCEED and s_ not in closed_now:
                kf = o.kf()
                if not kf or kf[2] != "%d:1" % s_:
                    fail(i, "attempt", "attempt on socket %d in progress (errno %d) but not watched" % (s_, en))
            elif en not in PROCEED and s_ not in closed_now:
                fail(i, "hygiene", "failed attempt on socket %d (errno %d) not closed at once" % (s_, en))
        failed_now = [s_ for s_ in closed_now if not socks[s_]["handed"]]
        exp_arms = []
        for s_ in failed_now:
            en = socks[s_].get("errno")
            at_connect = any(a == s_ for (a, _) in attempted)
            # given up at ::connect only for the hard errors; SO_ERROR / self-connect / POLLERR / a stale stop: a failed attempt
            retried_class = (en in RETRY or en in PROCEED) if at_connect else True
            completed_ok = (k == "EVW" and w[1] in ("0",) and w[2] == "0")
            if want and retried_class and not completed_ok:
                exp_arms.append(min(INIT_MS * (2 ** fails_in_cycle), MAX_MS))
                fails_in_cycle += 1
        if hack_from_queue and k in ("RUN", "RUN1") and len(arms) == 1 and 0 < arms[0] <= 1000 and not exp_arms:
            arms = []          # ~TcpClient's keep-alive timer, computed on the foreign thread, entered the queue now
            hack_from_queue = False
        if arms != exp_arms:
            fail(i, "backoff", "op %d (%s): retry timers armed %s ms, the back-off schedule requires %s" % (i, op, arms, exp_arms))
        for d in arms:
            retry_due.append(now + d)
        # ---------------- stop: an attempt that completes after stop() is closed, not handed over
        if k == "EVW" and w[1] == "0" and w[2] == "0":
            if want and not destroyed:
                if not handed_now:
                    fail(i, "up", "attempt completed while a connection is wanted but no connection was reported")
            elif not closed_now:
                fail(i, "stop", "attempt completed after stop(): socket neither closed nor handed over")
        # ---------------- disconnect
        if k == "DISCONNECT" and pconn not in ("-", None):
            c = int(pconn)
            st = prev.cs[c].split("/") if prev and c < len(prev.cs) else None
            if st and st[0] == "2":
                if "fin:%d" % c not in ev:
                    fail(i, "disconnect", "disconnect() did not shut down the write side of connection %d" % c)
                if any(x.startswith("down:") or x.startswith("cclose:") for x in ev):
                    fail(i, "disconnect", "disconnect() tore connection %d down instead of closing gracefully" % c)
        if k == "XDR":
            foreign.discard("D")
            if pconn not in ("-", None):
                c = int(pconn)
                st = prev.cs[c].split("/") if prev and c < len(prev.cs) else None
                if st and st[0] == "2":
                    fin_expected[c] = "queued"
        if k == "HOLD":
            user = pconn
        if k == "REL":
            user = None
        if k == "RUN":
            kq_since_run = 0
        # ---------------- the driver's own census must agree with the events
        for s_, r in socks.items():
            if s_ < len(o.socks):
                want_txt = ("H" if r["handed"] else "") + (("c%d" % (r["closes"] + r["ccloses"])) if (r["closes"] + r["ccloses"]) else ("" if r["handed"] else "o"))
                if o.socks[s_] != want_txt:
                    fail(i, "hygiene", "descriptor census %s for socket %d, events say %s" % (o.socks[s_], s_, want_txt))
        if len(o.socks) != len(socks):
            fail(i, "hygiene", "%d sockets created, %d attempts seen" % (len(o.socks), len(socks)))
        prev = o
        if fails:
            break
    # ---------------- quiescence: nothing queued, no timer, no half-done foreign call
    if not fails and prev is not None and prev.pend == 0 and not prev.tm and not foreign and not dying:
        kf = prev.kf()
        for s_, r in sorted(socks.items()):
            n = r["closes"] + r["handed"]
            if n == 0:
                if not kf or kf[2] != "%d:1" % s_:
                    fails.append((len(ops) - 1, "hygiene", "socket %d is open and nobody watches it at quiescence" % s_))
            elif n != 1:
                fails.append((len(ops) - 1, "hygiene", "socket %d handed over/closed %d times" % (s_, n)))
        if destroyed:
            if kf is not None:
                fails.append((len(ops) - 1, "destroy", "the Connector outlives its destroyed client at quiescence (k=%s)" % prev.k))
            if user is None:
                for s_, r in sorted(socks.items()):
                    if r["handed"] and r["ccloses"] != 1:
                        fails.append((len(ops) - 1, "destroy", "descriptor of connection socket %d leaked after destruction" % s_))
                if any(c != "x" for c in prev.cs):
                    fails.append((len(ops) - 1, "destroy", "a TcpConnection outlives the destroyed client without a user reference: cs=%s" % prev.cs))
    return fails, sigs


def known_key_for(fails, sigs, release=False):
    """A failure is a recorded finding only when the history shows that finding's op pattern before it:
    the latest such pattern is taken as the cause.  release: the -DNDEBUG build, where the failed asserts of F-10 / F-17
    show as a leaked, unwatched socket instead."""
    i, kind, msg = fails[0]
    if kind == "crash" and sigs.get(KEY_E2) == i:
        return KEY_E2          # the crash is in ~EventLoop itself, with one of its three asserts
    prio = {KEY_N2: 2, KEY_F13: 1}
    allowed = []
    if kind == "crash":
        allowed = [KEY_F13, KEY_N2, KEY_F10A, KEY_N1, KEY_N4, KEY_REL]
    elif kind in ("backoff", "attempt"):
        allowed = [KEY_F10A, KEY_F10B, KEY_F13]
    elif kind in ("up", "down", "retry-policy", "stop", "destroy"):
        allowed = [KEY_F13]
    elif kind == "hygiene" and release:
        allowed = [KEY_F10A, KEY_N4]
    cand = [(sigs[key], prio.get(key, 0), key) for key in allowed if key in sigs and sigs[key] <= i]
    if not cand:
        return None
    return max(cand)[2]


# ---------------------------------------------------------------- cases
def parse_cases(text, tag, prefix=""):
    cases, cid, ops = [], None, []
    for line in text.split("\n"):
        line = line.rstrip()
        if not line or line.startswith("#"):
            continue
        if line.startswith("---"):
            break
        if line.startswith("case "):
            cid, ops = prefix + line.split()[1], []
        elif line == "end":
            if cid is not None:
                cases.append(vlib.Case(cid, "", ops, tag))
            cid = None
        elif cid is not None:
            ops.append(line)
    return cases


def load_corpus():
    cases = []
    for f in sorted(glob.glob(os.path.join(vlib.ROOT, "corpus", "C12", "*.case"))):
        cases += parse_cases(open(f).read(), "corpus", "corpus_" + os.path.basename(f)[:-5] + "_")
    return cases


def scenarios():
    """scripted servers: up, down (k refusals, up to the cap and beyond), come up later, close immediately;
    with and without retry; stop / disconnect / destroy at each point of progress"""
    out = []

    def add(name, ops):
        out.append(vlib.Case("s_" + name, "", ops, "scenario"))
    for kind, fail1 in (("refused", ["CR ECONNREFUSED"]), ("soerr", []), ("pollerr", []), ("self", [])):
        for n in (1, 2, 3, 7, 8, 12):
            ops = ["RETRY"] if n % 2 else []
            ops += fail1 + ["CONNECT"]
            for j in range(n):
                if kind == "refused":
                    ops += ["CR ECONNREFUSED", "TF"] if j + 1 < n else ["TF", "EVW 0 0", "RUN"]
                else:
                    ops += [{"soerr": "EVW ETIMEDOUT 0", "pollerr": "EVE", "self": "EVW 0 1"}[kind], "RUN", "TF"]
            if kind != "refused":
                ops += ["EVW 0 0", "RUN"]
            ops += ["DOWN", "RUN", "EVE", "RUN", "TF", "EVW 0 0", "RUN", "DISCONNECT", "DOWN", "RUN", "DESTROY", "RUN", "TF", "RUN"]
            add("%s_%d" % (kind, n), ops)
    for e in sorted(E):
        add("errno_" + e, ["CR " + e, "CONNECT", "EVW 0 0", "RUN", "TF", "STOP", "RUN", "TF"])
        add("soerr_" + e, ["CONNECT", "EVW %s 0" % e, "RUN", "TF", "EVW 0 0", "RUN"])
    progress = {"before": [], "connecting": ["CONNECT"], "connected": ["CONNECT", "EVW 0 0", "RUN"],
                "backoff": ["CR ECONNREFUSED", "CONNECT"], "backoff2": ["CONNECT", "EVE", "RUN"],
                "held": ["CONNECT", "EVW 0 0", "RUN", "HOLD"], "disconnecting": ["CONNECT", "EVW 0 0", "RUN", "DISCONNECT"],
                "retry_connected": ["RETRY", "CONNECT", "EVW 0 0", "RUN"]}
    tails = {"stop": ["STOP", "RUN", "EVW 0 0", "RUN", "TF", "RUN", "DOWN", "RUN"],
             "xstop": ["XSF", "EVW 0 0", "XSE", "RUN", "TF", "RUN"],
             "disconnect": ["DISCONNECT", "RUN", "DOWN", "RUN", "TF"],
             "xdisconnect": ["XDF", "XDR", "RUN", "DOWN", "RUN"],
             "destroy": ["DESTROY", "RUN", "EVW 0 0", "RUN", "DOWN", "RUN", "REL", "TF", "RUN"],
             "destroy_late": ["DESTROY", "EVW 0 0", "RUN", "RUN", "TF", "DOWN", "RUN", "REL", "RUN"],
             "xdestroy": ["XYR", "XYD", "RUN", "RUN", "DOWN", "RUN", "REL", "TF", "RUN"],
             "destroy_loopend": ["DESTROY", "LOOPEND", "RUN", "TF"],
             "destroy_run_loopend": ["DESTROY", "RUN", "LOOPEND", "RUN"],
             "destroy_drain_loopend": ["DESTROY", "RUN", "RUN", "REL", "TF", "LOOPEND", "RUN", "LOOPEND"]}
    for pn, pre in progress.items():
        for tn, tail in tails.items():
            add("%s_%s" % (pn, tn), pre + tail)
    return out


def gen(model, args, tag, timeout=600):
    p = subprocess.run([model] + [str(a) for a in args], stdout=subprocess.PIPE, timeout=timeout)
    return parse_cases(p.stdout.decode(), tag)


def kinds_signature(case, lines):
    """distinct & non-trivial: a case is non-trivial when at least one attempt was made; distinct by the
    sequence of (op kind, kinds of the events it produced)"""
    sig, nontrivial = [], False
    for op, ln in zip(case.ops, lines[1:]):
        m = LINE.match(ln)
        if not m:
            sig.append((op.split()[0], "crash"))
            continue
        if m.group(1) == "rejected":
            continue
        evk = tuple(e.split(":")[0] for e in lst(m.group(3)))
        if "att" in evk:
            nontrivial = True
        sig.append((op.split()[0], evk, m.group(4) != "-"))
    return tuple(sig) if nontrivial else None


def run(chk, replay=None):
    tier, rng = chk.tier, chk.rng
    pr = chk.prove(extra_targets=("Base_Bytes.vo", "C12_Model.vo"))
    model = vlib.build_model("C12")
    impl = vlib.build_driver("C12_driver", ["C12_driver.cc"], variant="asan", wrap=WRAP)
    impl_nd = vlib.build_driver("C12_driver_ndebug", ["C12_driver.cc"], variant="ndebug", wrap=WRAP)

    t_gen = time.time()
    if replay:
        # witnesses of what the environment contract excludes stay correspondence-only when replayed
        pre = "corpus_contract_" if os.path.basename(replay).startswith("contract_") else ""
        cases = parse_cases(open(replay).read(), "replay", pre)
    else:
        cases = load_corpus() + scenarios()
        depth = 5 if tier == "quick" else 7
        cases += gen(model, ["enum", depth], "enum-depth-%d" % depth)
        nrand, maxlen = (4000, 40) if tier == "quick" else (150000, 120)
        nw = 8
        for j in range(nw):
            cases += gen(model, ["random", rng.randrange(1, 1 << 29), nrand // nw, maxlen], "random")
    t1 = time.time()
    impl_out, crashes = vlib.run_batch_parallel(impl, cases, timeout=3000)
    t2 = time.time()
    model_out, _ = vlib.run_batch_parallel(model, cases, timeout=3000)
    t3 = time.time()
    # release build (-O2 -DNDEBUG, no sanitizer): every case on which the model does not Fault hits no assert, so the
    # release build has to behave like the model there as well
    clean = [c for c in cases if c.cid in model_out and "FAULT" not in model_out[c.cid]]
    nd_out, nd_crashes = vlib.run_batch_parallel(impl_nd, clean, timeout=3000)
    nd_bad = []
    for c in clean:
        ln = nd_out.get(c.cid)
        if ln is None or canon(ln) != model_out[c.cid]:
            idx = next((i for i in range(min(len(ln or []), len(model_out[c.cid]))) if canon(ln)[i] != model_out[c.cid][i]), 0)
            nd_bad.append((c, idx, "NDEBUG impl %r vs model %r" % ((ln or [None] * (idx + 1))[idx] if ln and idx < len(ln) else None,
                                                                   model_out[c.cid][idx] if idx < len(model_out[c.cid]) else None)))
    # ... and the recorded findings as they show in the release build (goldens reviewed by hand, corpus/C12/ndebug)
    gold_bad, gold_n = [], 0
    if not replay:
        for f in sorted(glob.glob(os.path.join(vlib.ROOT, "corpus", "C12", "ndebug", "*.case"))):
            gc_ = parse_cases(open(f).read(), "ndebug-golden")
            exp = open(f[:-5] + ".expect").read().split("\n")
            go, _ = vlib.run_batch(impl_nd, gc_, timeout=300)
            for c in gc_:
                gold_n += 1
                got = go.get(c.cid) or []
                want = [l for l in exp if l]
                if got != want:
                    idx = next((i for i in range(min(len(got), len(want))) if got[i] != want[i]), min(len(got), len(want)))
                    gold_bad.append((c, idx, "release-build behaviour of a recorded finding changed: got %r, recorded %r" %
                                     (got[idx] if idx < len(got) else None, want[idx] if idx < len(want) else None)))
                fl, sg = oracle(c, got)
                if fl and known_key_for(fl, sg, release=True) is None:
                    gold_bad.append((c, fl[0][0], "release build: %s (not a recorded pattern)" % fl[0][2]))
    t4 = time.time()
    chk.cov["phase_s"] = {"generate": round(t1 - t_gen, 1), "impl": round(t2 - t1, 1), "model": round(t3 - t2, 1), "impl_ndebug": round(t4 - t3, 1)}
    chk.cov["ndebug_cases"] = len(clean)
    chk.cov["ndebug_goldens"] = gold_n

    known = {k["key"]: k for k in vlib.known_findings() if k["property"] == "C12"}
    corr_bad, oracle_bad, known_hits = [], [], {}
    sigs_seen = set()
    hist = {}
    for c in cases:
        chk.cov["evaluations"] += 1
        hist[c.tag] = hist.get(c.tag, 0) + 1
        li = impl_out.get(c.cid)
        if c.cid in crashes or li is None:
            rc, se, partial = crashes.get(c.cid, (None, "", []))
            oracle_bad.append((c, [(len(partial), "driver", "the driver itself died (rc=%s): %s" % (rc, se[-600:]))], {}))
            continue
        if c.cid.startswith("corpus_contract_"):
            fails, sigs = [], {}      # witnesses of what the environment contract excludes: correspondence only
        else:
            fails, sigs = oracle(c, li)
        if fails:
            key = known_key_for(fails, sigs)
            if key is not None and key in known:
                known_hits.setdefault(key, []).append((c, fails))
            else:
                oracle_bad.append((c, fails, sigs))
        lm = model_out.get(c.cid)
        ci = canon(li)
        if lm is None or ci != lm:
            idx = next((i for i in range(min(len(ci), len(lm or []))) if ci[i] != lm[i]), min(len(ci), len(lm or [])))
            corr_bad.append((c, idx, "impl %r vs model %r" % (li[idx] if idx < len(li) else None, lm[idx] if lm and idx < len(lm) else None)))
        sg = kinds_signature(c, li)
        if sg is not None:
            sigs_seen.add(sg)
            if c.tag == "random" and 6 <= len(c.ops) <= 14 and not fails:
                chk.sample({"case": c.ops, "impl_last": li[-2] if len(li) > 2 else ""})
    chk.cov["generator_histogram"] = hist
    chk.cov["distinct_nontrivial"] = len(sigs_seen)
    chk.cov["rule"] = ("corpus (witnesses of the findings) + scripted-server scenarios (up / down for k attempts up to and beyond the cap / "
                       "up later / closes at once; every errno of connect and SO_ERROR; stop, disconnect, destroy, foreign halves at every "
                       "point of progress; ~EventLoop after the client at every point of progress) + ALL transitions from every state reachable within depth-1 ops over a 28-op alphabet "
                       "(breadth-first over the extracted model, states identified up to a clock shift, restricted to what the property "
                       "text allows) + random longer histories in 6 profiles; non-trivial = at least one connect attempt; distinct by the "
                       "sequence of (op kind, kinds of events produced, timer armed)")
    chk.cov["traces_validated_against_impl"] = len(cases) - len(corr_bad)
    chk.cov["known_finding_cases"] = {k: len(v) for k, v in known_hits.items()}
    gen_problems = [p for p in pr["problems"] if "gen_C12" in p or "Connector_" in p]
    chk.add_obligation("generated facts: errno table of Connector::connect, retry update expression, the four guard conditions and both "
                       "constants translated from the current source (no FALLBACK/MISSING)", not gen_problems)
    chk.add_obligation("correspondence: extracted C12_Model.step == TcpClient/Connector/TcpConnection on every case, line by line "
                       "(events, timers armed, connector state, timer queue, functor queue length, descriptor census, client, connections)",
                       not corr_bad)
    chk.add_obligation("oracle: the property text on the implementation's outputs (outside recorded findings)", not oracle_bad)
    chk.add_obligation("correspondence, release build (-DNDEBUG): identical to the model on every case without a Fault (%d cases)" % len(clean), not nd_bad)
    chk.add_obligation("release-build behaviour of F-10 / F-16 / F-17 as recorded (corpus/C12/ndebug/*.expect: overwritten channel_ and "
                       "leaked descriptor; reconnect works; new channel destroyed, SIGSEGV in stopInLoop)", not gold_bad)
    chk.trusted("extraction: ExtrOcamlBasic only; extract/util.ml + extract/C12_driver.ml (OCaml 4.13.1); the runner's enum/random "
                "modes only generate inputs",
                "two builds of the driver: ASan+UBSan with asserts, and -O2 -DNDEBUG without sanitizer",
                "harness/C12_driver.cc: scripted kernel by -Wl,--wrap (socket = one end of an AF_UNIX socketpair, connect, getsockopt(SO_ERROR), "
                "getsockname/getpeername, close, shutdown), virtual clock (gettimeofday), foreign calls cut at pthread_mutex_lock, "
                "events delivered by Channel::handleEvent / TimerQueue::handleRead / the functor queue directly (no poll)",
                "translator lib/gen_C12.py + lib/gen_consts.py (clang JSON AST)",
                "EventLoop, Channel, TimerQueue, TcpConnection internals beyond what TcpClient touches are exercised, not modelled")

    for key, lst_ in sorted(known_hits.items()):
        c, fails = lst_[0]
        chk.known(key, "key=%s %s [%d cases, e.g. %s: %s]" % (key, known[key]["text"], len(lst_), "; ".join(c.ops), fails[0][2]))

    def run_one(cc):
        io, cr = vlib.run_batch(impl, [cc], timeout=120)
        mo, _ = vlib.run_batch(model, [cc], timeout=120)
        return io.get(cc.cid), mo.get(cc.cid)

    if oracle_bad:
        c, fails, sigs = oracle_bad[0]
        kind0 = fails[0][1]

        def bad(ops):
            cc = vlib.Case("s", "", ops)
            li, _ = run_one(cc)
            if li is None:
                return True
            f, sg = oracle(cc, li)
            return bool(f) and f[0][1] == kind0 and (known_key_for(f, sg) not in known)
        small_ops = vlib.ddmin(c.ops, bad, max_tests=120) if len(c.ops) > 1 else c.ops
        small = vlib.Case(c.cid, "", small_ops)
        li, _ = run_one(small)
        f2, _ = oracle(small, li) if li else (fails, None)
        msg = (f2 or fails)[0][2]
        p = chk.write_replay("oracle_%s.case" % c.cid, "# %s\n# (%d failing cases; first: %s)\n" % (msg.replace("\n", " "), len(oracle_bad), c.cid) + small.text())
        chk.violation(p, "C12 fails on the implementation: %s (%d failing cases)" % (msg, len(oracle_bad)))
    elif corr_bad or nd_bad or gold_bad or not pr["ok"] or gen_problems:
        what = []
        if not pr["ok"]:
            what.append("proof obligation(s) no longer check: %s %s" % (pr["broken"], pr["problems"]))
        if gen_problems and pr["ok"]:
            what.append("generated facts not translated: %s" % gen_problems)
        body = ""
        if corr_bad:
            c, idx, msg = corr_bad[0]

            def differs(ops):
                cc = vlib.Case("s", "", ops)
                li, lm = run_one(cc)
                return li is None or lm is None or canon(li) != lm
            small_ops = vlib.ddmin(c.ops, differs, max_tests=120) if len(c.ops) > 1 else c.ops
            small = vlib.Case(c.cid, "", small_ops)
            what.append("correspondence C12_Model vs TcpClient/Connector broken at line %d of case %s (%s); %d cases differ; the oracle holds on all %d cases"
                        % (idx, c.cid, msg, len(corr_bad), len(cases)))
            body = small.text()
        for lst_, label in ((nd_bad, "release build (-DNDEBUG) vs model"), (gold_bad, "release-build golden")):
            if lst_ and not body:
                c, idx, msg = lst_[0]
                what.append("%s: case %s line %d: %s (%d cases)" % (label, c.cid, idx, msg, len(lst_)))
                body = c.text()
        p = chk.write_replay("broken_obligation.txt", "\n".join("# " + w for w in what) + "\n" + body +
                             ("\n--- coq log tail ---\n" + pr["log"][-3000:] if not pr["ok"] else ""))
        chk.violation(p, "; ".join(what), no_input=True)
    return chk.finish(level="proof", assumptions=[
        "Idle at connect(): state kDisconnected, no channel, no connection, no connect() in flight, no retry timer pending, delay at its initial value (the theorems' hypothesis; the property text's weaker precondition gives the recorded findings)",
        "the loop is not stalled across a timer deadline while resetChannel / (after ~TcpClient) startInLoop / stopInLoop are still queued (`timely`)",
        "destruction on the loop thread; with a connection only while no functor bound to the raw Connector is queued (`destroy_ok`)",
        "the EventLoop outlives the client's cleanup (`loop_outlives_cleanup`): when it is destroyed the connector's channel has been reset and every "
        "connection object has been through connectDestroyed (true once functor queue and timer queue have drained); the EventLoop is destroyed "
        "after the TcpClient and after the user dropped his TcpConnectionPtrs (Rejected otherwise)",
        "the scripted kernel is consistent: one answer per ::connect, SO_ERROR as scripted, a descriptor closed once is gone",
        "the model is tied to the code by differential execution (testing), not by a verified C++ semantics"])
