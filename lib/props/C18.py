"""C18: stream decoders are segmentation-invariant, bounded, and reject malformed input.
proof (Properties_C18.v over C18_Model.v) + correspondence of the extracted models with the real
ProtobufCodecLite (subclass with a trivial payload = exact oracle; the class itself with RpcMessage
and an arbitrary tag; the real RpcCodec), the real HttpContext and zlib's adler32 (ASan/UBSan,
asserts on), fed from a real muduo::net::Buffer in every segmentation given + an independent
reference decoder (written from the wire-format comment / the HTTP request-line grammar, in
Python) evaluated on the implementation's own outputs after every delivered chunk."""
import os, re, sys, glob, time, zlib, struct
import vlib

MAXLEN = 64 * 1024 * 1024       # property text: "above 64 MiB"
ERRS = ("InvalidLength", "CheckSumError", "InvalidNameLen", "UnknownMessageType", "ParseError")


# ------------------------------------------------------------------ specs
def xorshift(n, seed):
    x = (seed & 0xffffffff) | 1
    out = bytearray()
    for _ in range(n):
        x ^= (x << 13) & 0xffffffff
        x ^= x >> 17
        x ^= (x << 5) & 0xffffffff
        out.append(x & 255)
    return bytes(out)


def bytes_of_spec(s):
    if s == "-":
        return b""
    if s.startswith("@"):
        ln, seed = s[1:].split(":")
        return xorshift(int(ln), int(seed))
    if s.startswith("#"):
        b, n = s[1:].split("*")
        return bytes([int(b, 16)]) * int(n)
    return bytes.fromhex(s)


def hx(b):
    return b.hex() if b else "-"


# ------------------------------------------------------------------ independent references
def adler32_rfc(data):
    """RFC 1950 section 8.2, byte at a time (not zlib)."""
    a, b = 1, 0
    for x in data:
        a = (a + x) % 65521
        b = (b + a) % 65521
    return b * 65536 + a


def adler32_fast(data):
    # frames are short; long inputs only in the AD ops, which use adler32_rfc
    return adler32_rfc(data)


def encode(tag, payload):
    """wire format comment of ProtobufCodecLite.h: size(4) = M+N+4 | tag | payload | adler32(tag+payload)"""
    body = tag + payload
    return struct.pack(">I", len(body) + 4) + body + struct.pack(">I", adler32_fast(body))


def ref_decode(stream, tag, parse):
    """Greedy split of the whole stream.  Returns (events, consumed, abandoned);
    events: ("msg", canonical) / ("err", name)."""
    ev, pos, M = [], 0, len(tag)
    while True:
        rest = len(stream) - pos
        if rest < 4 + M + 4:                       # not even the smallest frame: wait
            return ev, pos, False
        (size,) = struct.unpack(">i", stream[pos:pos + 4])
        if size < M + 4 or size > MAXLEN:
            return ev + [("err", "InvalidLength")], pos, True
        if rest < 4 + size:
            return ev, pos, False
        frame = stream[pos + 4:pos + 4 + size]
        body, (ck,) = frame[:-4], struct.unpack(">I", frame[-4:])
        if adler32_fast(body) != ck:
            return ev + [("err", "CheckSumError")], pos, True
        if body[:M] != tag:
            return ev + [("err", "UnknownMessageType")], pos, True
        m = parse(body[M:])
        if m is None:
            return ev + [("err", "ParseError")], pos, True
        ev.append(("msg", m))
        pos += 4 + size


OLD_TYPE = b"muduo.net.RpcMessage"     # the only message type the harness links (createMessage finds it by name)


def old_frame(cov):
    """len | covered bytes | adler32(covered)   (covered = nameLen, typeName, protobufData)"""
    return struct.pack(">I", len(cov) + 4) + cov + struct.pack(">I", adler32_fast(cov))


def old_encode(type_name, data):
    """struct comment of examples/protobuf/codec/codec.h: int32 len; int32 nameLen; char typeName[nameLen]
    (NUL-terminated); char protobufData[len-nameLen-8]; int32 checkSum = adler32 of nameLen, typeName, protobufData"""
    return old_frame(struct.pack(">i", len(type_name) + 1) + type_name + b"\0" + data)


def ref_decode_old(stream, create, parse):
    """Greedy split of the whole stream in the OLD codec's layout.  (events, consumed, abandoned)"""
    ev, pos = [], 0
    while True:
        rest = len(stream) - pos
        if rest < 4 + 10:                           # len + nameLen + 2 name bytes + checkSum
            return ev, pos, False
        (size,) = struct.unpack(">i", stream[pos:pos + 4])
        if size < 10 or size > MAXLEN:
            return ev + [("err", "InvalidLength")], pos, True
        if rest < 4 + size:
            return ev, pos, False
        frame = stream[pos + 4:pos + 4 + size]
        cov, (ck,) = frame[:-4], struct.unpack(">I", frame[-4:])
        if adler32_fast(cov) != ck:
            return ev + [("err", "CheckSumError")], pos, True
        (nl,) = struct.unpack(">i", cov[:4])
        if nl < 2 or nl > size - 8:
            return ev + [("err", "InvalidNameLen")], pos, True
        name, data = cov[4:4 + nl - 1], cov[4 + nl:]     # the name field's last byte (the NUL) is not looked at
        if not create(name):
            return ev + [("err", "UnknownMessageType")], pos, True
        m = parse(data)
        if m is None:
            return ev + [("err", "ParseError")], pos, True
        ev.append(("msg", m))
        pos += 4 + size


def raw_parse(p):
    return p[1:] if p[:1] == b"*" else None


def raw_ser(m):
    return b"*" + m


def varint(z):
    out = bytearray()
    while z >= 128:
        out.append(128 + z % 128)
        z //= 128
    out.append(z)
    return bytes(out)


def rpc_ser(ty, mid, svc, meth, req, resp, er):
    """rpc.proto RpcMessage, canonical field order"""
    o = b"\x08" + varint(ty) + b"\x11" + struct.pack("<Q", mid)
    for key, f in ((0x1a, svc), (0x22, meth), (0x2a, req), (0x32, resp)):
        if f is not None:
            o += bytes([key]) + varint(len(f)) + f
    if er is not None:
        o += b"\x38" + varint(er)
    return o


METHODS = (b"GET", b"POST", b"HEAD", b"PUT", b"DELETE")
REQLINE = re.compile(rb"(GET|POST|HEAD|PUT|DELETE) ([^ ]*) HTTP/1\.([01])", re.S)
CSPACE = b" \t\n\v\f\r"


def ref_http(stream):
    """Reference HTTP request decoder over the whole stream: CRLF-terminated lines; request line
    METHOD SP target SP HTTP/1.(0|1); header lines 'field:value' (value trimmed); a line without
    a colon ends the request.  Returns (events, consumed, abandoned)."""
    parts = stream.split(b"\r\n")
    lines = parts[:-1]                     # the last part is not terminated yet
    ev, consumed, cur = [], 0, None
    for ln in lines:
        if cur is None:
            m = REQLINE.fullmatch(ln)
            if not m:
                return ev + [("bad",)], consumed, True
            target = m.group(2)
            q = target.find(b"?")
            path, query = (target, b"") if q < 0 else (target[:q], target[q:])
            cur = [m.group(1), 2 if m.group(3) == b"1" else 1, path, query, {}]
        else:
            c = ln.find(b":")
            if c >= 0:
                cur[4][ln[:c]] = ln[c + 1:].strip(CSPACE)
            else:
                ev.append(("req", cur[0], cur[1], cur[2], cur[3], tuple(sorted(cur[4].items()))))
                cur = None
        consumed += len(ln) + 2
    return ev, consumed, False


def show_http_event(e):
    if e[0] == "bad":
        return "bad"
    hs = ",".join("%s=%s" % (hx(k), hx(v)) for k, v in e[5]) or "-"
    return "req:%s:%d:%s:%s:%s" % (e[1].decode(), e[2], hx(e[3]), hx(e[4]), hs)


def show_codec_event(e):
    return "msg:" + hx(e[1]) if e[0] == "msg" else "err:" + e[1]


class RefHttpServer:
    """HttpServer::onMessage as its text reads: ONE parseRequest per delivery (lines are consumed until a
    request is complete, a request line is bad, or no complete line is left), 400 + shutdown on a bad request
    line, the callback + response + reset on a complete request; send() only while connected."""

    def __init__(self):
        self.buf, self.cur, self.connected = b"", None, True
        self.rejected = 0          # deliveries at which a request line was rejected (400 sent or dropped)
        self.answered400 = False

    def deliver(self, chunk):
        """returns (request events, bytes expected on the wire or None = nothing)"""
        self.buf += chunk
        reqs, wire = [], None
        while True:
            i = self.buf.find(b"\r\n")
            if i < 0:
                break
            ln = self.buf[:i]
            if self.cur is None:
                m = REQLINE.fullmatch(ln)
                if not m:
                    self.rejected += 1
                    if self.connected:
                        wire = ("raw", b"HTTP/1.1 400 Bad Request\r\n\r\n")
                        self.answered400 = True
                    self.connected = False
                    break                                  # nothing consumed
                target = m.group(2)
                q = target.find(b"?")
                path, query = (target, b"") if q < 0 else (target[:q], target[q:])
                self.cur = [m.group(1), 2 if m.group(3) == b"1" else 1, path, query, {}]
                self.buf = self.buf[i + 2:]
            else:
                self.buf = self.buf[i + 2:]
                c = ln.find(b":")
                if c >= 0:
                    self.cur[4][ln[:c]] = ln[c + 1:].strip(CSPACE)
                    continue
                req, self.cur = self.cur, None
                reqs.append(("req", req[0], req[1], req[2], req[3], tuple(sorted(req[4].items()))))
                conn_h = req[4].get(b"Connection", b"")
                close = conn_h == b"close" or (req[1] == 1 and conn_h != b"Keep-Alive")
                resp = demo_callback(req, close)
                if self.connected:
                    wire = ("resp", resp)
                if resp["close"]:
                    self.connected = False
                break                                      # one request per delivery
        return reqs, wire


def demo_callback(req, close):
    """the harness callback (harness/C18_driver.cc demoCallback)"""
    meth, ver, path, query, hdrs = req
    if path[:3] == b"/nf":
        return {"code": 404, "msg": b"Not Found", "close": True, "headers": {}, "body": b""}
    h = {b"X-Method": meth}
    if query:
        h[b"A-Query"] = query
    return {"code": 200, "msg": b"OK", "close": close or path == b"/close", "headers": h, "body": path}


RESPLINE = re.compile(rb"HTTP/1\.1 (\d+) ([^\r\n]*)", re.S)


def parse_response(data):
    """independent response grammar: status-line CRLF *(field ": " value CRLF) CRLF body; None if malformed"""
    head, sep, body = data.partition(b"\r\n\r\n")
    if not sep:
        return None
    lines = head.split(b"\r\n")
    m = RESPLINE.fullmatch(lines[0])
    if not m:
        return None
    hs = []
    for ln in lines[1:]:
        k, s2, v = ln.partition(b": ")
        if not s2 or b":" in k:
            return None
        hs.append((k, v))
    d = dict(hs)
    if b"Content-Length" in d:
        if not d[b"Content-Length"].isdigit() or int(d[b"Content-Length"]) != len(body):
            return None
    return int(m.group(1)), m.group(2), hs, body


def check_response(data, resp):
    """the bytes on the wire against the response the callback built; None or a message"""
    pr = parse_response(data)
    if pr is None:
        return "the response %r does not parse under the reference grammar" % data[:120]
    code, msg, hs, body = pr
    if (code, msg, body) != (resp["code"], resp["msg"], resp["body"]):
        return "response carries (%d, %r, %d body bytes), the callback set (%d, %r, %d)" % (
            code, msg, len(body), resp["code"], resp["msg"], len(resp["body"]))
    if resp["close"]:
        implicit = [(b"Connection", b"close")]
    else:
        implicit = [(b"Content-Length", str(len(resp["body"])).encode()), (b"Connection", b"Keep-Alive")]
    exp = implicit + sorted(resp["headers"].items())
    if hs != exp:
        return "response headers %r, expected %r (Connection/Content-Length first, then the map in key order)" % (hs, exp)
    return None


# ------------------------------------------------------------------ oracle
FLINE = re.compile(r"^F (\S+) r=(\d+) ab=([01])( st=\d+)?$")
DCONN = re.compile(r"^D (\S+) r=(\d+) conn=([01]) sh=([01])$")
DSRV = re.compile(r"^D (\S+) sent=(\S+) r=(\d+) conn=([01]) sh=([01]) st=(\d)$")


def oracle(case, lines):
    """The property text evaluated on the implementation's output: after every delivered chunk
    the events so far, the unconsumed byte count and the abandoned flag must equal the reference
    decoding of the bytes delivered so far (which is segmentation invariance + equality with
    the reference + the reject classes + 'consumes only own bytes' at once); encodings equal the
    wire format; ParseFromArray(serialised valid message) succeeds.  None or (op index, msg)."""
    hdr = case.header.split()
    kind = hdr[0]
    tag = bytes_of_spec(hdr[1]) if len(hdr) > 1 else b""
    if kind == "rpc":
        tag = b"RPC0"
    table = {}
    stream = b""
    seen = []
    abandoned_at = None
    first_err = None
    srv = RefHttpServer() if kind == "hsrv" else None
    if not lines or not lines[0].startswith("case "):
        return (0, "bad case line")
    for i, op in enumerate(case.ops):
        if i + 1 >= len(lines) or lines[i + 1] == "end":
            return (i, "missing output for %r" % op)
        out = lines[i + 1]
        t = op.split()
        if t[0] == "PT":
            p = bytes_of_spec(t[1])
            if out == "PT fail":
                table[p] = None
            elif out.startswith("PT ok:"):
                table[p] = bytes_of_spec(out[6:])
            else:
                return (i, "unparsable %r" % out)
            if len(t) > 3 and t[3] == "valid" and table[p] != p:
                return (i, "protobuf does not round-trip a canonical RpcMessage payload %s: %s" % (t[1], out))
        elif t[0] == "E" and kind == "old":
            f = [None if x == "~" else bytes_of_spec(x) for x in t[3:7]]
            exp = old_encode(OLD_TYPE, rpc_ser(int(t[1]), int(t[2]), f[0], f[1], f[2], f[3], None if t[7] == "~" else int(t[7])))
            if out != "E " + exp.hex():
                return (i, "ProtobufCodec::fillEmptyBuffer produced %s, the wire format of codec.h requires %s" % (out[2:], exp.hex()))
        elif t[0] == "E":
            if kind == "raw":
                exp = encode(tag, raw_ser(bytes_of_spec(t[1])))
            else:
                f = [None if x == "~" else bytes_of_spec(x) for x in t[3:7]]
                exp = encode(tag, rpc_ser(int(t[1]), int(t[2]), f[0], f[1], f[2], f[3], None if t[7] == "~" else int(t[7])))
            mo = re.match(r"^E ([0-9a-f]+) p=(\d+) w=(\d+)$", out)
            if not mo or mo.group(1) != exp.hex():
                return (i, "fillEmptyBuffer produced %s, the wire format requires %s" % (out[2:], exp.hex()))
            if int(mo.group(2)) != 4:
                return (i, "after fillEmptyBuffer on a default Buffer prependableBytes = %s, expected kCheapPrepend - 4 = 4" % mo.group(2))
        elif t[0] == "AD":
            exp = adler32_rfc(bytes_of_spec(t[1]))
            if out != "AD %d" % exp:
                return (i, "checksum(%s) = %s, RFC 1950 Adler-32 is %d" % (t[1], out[3:], exp))
        elif t[0] == "RESP":
            if not out.startswith("RESP "):
                return (i, "unparsable %r" % out)
            data = bytes.fromhex(out[5:].split()[0])
            if len(t) > 6:
                continue                                   # deliberately ill-formed response: no claim
            hd = {}
            if t[5] != "-":
                for kv in t[5].split(","):
                    kk, vv = kv.split("=")
                    hd[bytes_of_spec(kk)] = bytes_of_spec(vv)
            msg = check_response(data, {"code": int(t[1]), "msg": bytes_of_spec(t[2]), "close": t[3] == "1",
                                        "headers": hd, "body": bytes_of_spec(t[4])})
            if msg:
                return (i, "appendToBuffer: " + msg)
        elif t[0] == "D" and kind == "conn":
            m = DCONN.match(out)
            if not m:
                return (i, "unparsable %r" % out)
            chunk = bytes_of_spec(t[1])
            stream += chunk
            got = [] if m.group(1) == "-" else m.group(1).split(";")
            ev, consumed, ab = ref_decode(stream, tag, raw_parse)
            exp_all = [show_codec_event(e) for e in ev]
            if first_err is None:
                exp = exp_all[len(seen):]
                seen += got
                if ab:
                    first_err = exp_all[-1]
            else:
                exp = [first_err]          # the stream is abandoned: the same error again, nothing else
            if got != exp:
                return (i, "delivery %d reported %s, the reference (first error sticks, stream abandoned) requires %s"
                        % (i, ";".join(got) or "-", ";".join(exp) or "-"))
            if int(m.group(2)) != len(stream) - consumed:
                return (i, "inputBuffer holds %s bytes, the reference leaves %d" % (m.group(2), len(stream) - consumed))
            if (m.group(3) == "0") != (first_err is not None) or (m.group(4) == "1") != (first_err is not None):
                return (i, "connected=%s peer-sees-EOF=%s, but an error was %sreported: the default error callback must shut the "
                           "connection down exactly when the first error is reported" % (m.group(3), m.group(4), "" if first_err else "not "))
        elif t[0] == "D" and kind == "hsrv":
            if out == "D skipped (aborted)":
                continue
            if out.startswith("D ASSERT "):
                # an assertion inside muduo fired during this delivery (the process would abort)
                if out == "D ASSERT HttpRequest::setMethod method_ == kInvalid" and srv.rejected > 0:
                    return (i, "F22: HttpServer keeps reading after a rejected request line without resetting the context: "
                               "delivery %d aborts in assert(method_ == kInvalid), HttpRequest::setMethod%s"
                            % (i + 1, "" if srv.answered400 else " [400 dropped: connection already shut down]"))
                return (i, "an assertion inside muduo failed during delivery %d: %s" % (i + 1, out[9:]))
            m = DSRV.match(out)
            if not m:
                return (i, "unparsable %r" % out)
            was_connected = srv.connected
            reqs, wire = srv.deliver(bytes_of_spec(t[1]))
            exp = ";".join(show_http_event(e) for e in reqs) or "-"
            if m.group(1) != exp:
                return (i, "HttpServer handed over %s, one-request-per-delivery reference: %s" % (m.group(1), exp))
            if wire is None:
                if m.group(2) != "-":
                    return (i, "bytes were sent (%s) although %s" % (m.group(2), "the connection was shut down" if not was_connected else "no request completed"))
            else:
                if m.group(2) == "-":
                    return (i, "nothing was sent, expected a %s" % ("400" if wire[0] == "raw" else "response"))
                data = bytes.fromhex(m.group(2))
                if wire[0] == "raw":
                    if data != wire[1]:
                        return (i, "a bad request line must be answered by exactly %r, got %r" % (wire[1], data[:80]))
                else:
                    msg = check_response(data, wire[1])
                    if msg:
                        return (i, "HttpServer::onRequest: " + msg)
            if int(m.group(3)) != len(srv.buf):
                return (i, "inputBuffer holds %s bytes, the reference leaves %d" % (m.group(3), len(srv.buf)))
            if (m.group(4) == "1") != srv.connected or (m.group(5) == "1") != (not srv.connected):
                return (i, "connected=%s peer-sees-EOF=%s, reference: connected=%s" % (m.group(4), m.group(5), srv.connected))
        elif t[0] == "D":
            return (i, "D op in a %s case" % kind)
        elif t[0] == "F":
            m = FLINE.match(out)
            if not m:
                return (i, "unparsable %r" % out)
            stream += bytes_of_spec(t[1])
            if m.group(1) != "-":
                seen += m.group(1).split(";")
            if kind == "http":
                ev, consumed, ab = ref_http(stream)
                exp = [show_http_event(e) for e in ev]
            else:
                if kind == "raw":
                    parse = raw_parse
                else:
                    missing = []

                    def parse(p, _m=missing):
                        if p not in table:
                            _m.append(p)
                            return None
                        return table[p]
                if kind == "old":
                    ev, consumed, ab = ref_decode_old(stream, lambda tn: tn == OLD_TYPE, parse)
                else:
                    ev, consumed, ab = ref_decode(stream, tag, parse)
                if kind != "raw" and missing:
                    return (i, "case lacks the protobuf verdict for payload %s" % missing[0].hex())
                exp = [show_codec_event(e) for e in ev]
            if seen != exp:
                k = next((j for j in range(min(len(seen), len(exp))) if seen[j] != exp[j]), min(len(seen), len(exp)))
                return (i, "after %d bytes in %d chunks the decoder reported %s; the reference decoding of these bytes is %s "
                           "(first difference at event %d)" % (len(stream), sum(1 for o in case.ops[:i + 1] if o.startswith("F ")),
                                                              ";".join(seen[-3:]) or "-", ";".join(exp[-3:]) or "-", k))
            if int(m.group(2)) != len(stream) - consumed:
                return (i, "after %d bytes the decoder left %s unconsumed bytes, the reference leaves %d (consumed %d)"
                        % (len(stream), m.group(2), len(stream) - consumed, consumed))
            if (m.group(3) == "1") != ab:
                return (i, "abandoned=%s, reference says %s" % (m.group(3), ab))
    return None


# ------------------------------------------------------------------ generators
def segmentations(rng, n, whole=True, bytewise=True, two_way="all", kway=2):
    """lists of cut positions for a stream of n bytes"""
    segs = []
    if whole:
        segs.append(())
    if bytewise and 1 < n <= 400:
        segs.append(tuple(range(1, n)))
    if two_way == "all":
        segs += [(i,) for i in range(1, n)]
    elif two_way:
        segs += [(rng.randrange(1, n),) for _ in range(two_way) if n > 1]
    for _ in range(kway):
        if n > 2:
            k = rng.randint(2, min(8, n - 1))
            segs.append(tuple(sorted(rng.sample(range(0, n + 1), k))))    # may include empty chunks
    return segs


def chunks_of(stream, cuts):
    out, prev = [], 0
    for c in cuts:
        out.append(stream[prev:c])
        prev = c
    out.append(stream[prev:])
    return out


class Gen:
    def __init__(self, rng):
        self.rng = rng
        self.cases = []
        self.n = 0
        self.hist = {}

    def add(self, kind, tagspec, pre_ops, stream, cuts, label):
        self.n += 1
        ops = list(pre_ops) + ["F " + hx(c) for c in chunks_of(stream, cuts)]
        self.cases.append(vlib.Case("%s%d" % (kind[0], self.n), "%s %s" % (kind, tagspec), ops, label))
        self.hist[label] = self.hist.get(label, 0) + 1

    # ---- codec
    def rand_msg(self):
        r = self.rng
        n = r.choice([0, 0, 1, 2, 3, 5, 8, 13, 21, 40])
        return bytes(r.randrange(256) for _ in range(n))

    def rand_rpc(self):
        r = self.rng
        opt = lambda: None if r.random() < 0.5 else bytes(r.randrange(256) for _ in range(r.choice([0, 1, 3, 7, 130])))
        ty = r.choice([1, 2, 3])
        mid = r.choice([0, 1, 2, 255, 1 << 32, (1 << 64) - 1, r.randrange(1 << 64)])
        er = None if r.random() < 0.6 else r.randrange(7)
        return (ty, mid, opt(), opt(), opt(), opt(), er)

    def payload(self, kind):
        """(payload bytes, E op or None)"""
        if kind == "raw":
            m = self.rand_msg()
            return raw_ser(m), "E " + hx(m)
        f = self.rand_rpc()
        return rpc_ser(*f), "E %d %d %s %s %s %s %s" % (f[0], f[1], *["~" if x is None else hx(x) for x in f[2:6]],
                                                        "~" if f[6] is None else str(f[6]))

    def pt_ops(self, kind, tag, stream, valid_payloads):
        """PT lines for every payload the reference would hand to protobuf"""
        if kind == "raw":
            return []
        seenp = []

        def parse(p):
            if p not in seenp:
                seenp.append(p)
            return b""       # keep going through all frames
        ref_decode(stream, tag, parse)
        return ["PT %s ?%s" % (hx(p), " valid" if p in valid_payloads else "") for p in seenp]

    def codec_stream_cases(self, kind, tag, tagspec, quick):
        r = self.rng
        M = len(tag)
        nfr = r.randint(1, 6)
        pls, eops = [], []
        for _ in range(nfr):
            p, e = self.payload(kind)
            pls.append(p)
            eops.append(e)
        frames = [encode(tag, p) for p in pls]
        good = b"".join(frames)

        def emit(stream, label, two_way="all", kway=2, bytewise=True, pre=()):
            pt = self.pt_ops(kind, tag, stream, pls)
            for j, cuts in enumerate(segmentations(r, len(stream), two_way=two_way, kway=kway, bytewise=bytewise)):
                self.add(kind, tagspec, (list(pre) if j == 0 else []) + pt, stream, cuts, label)

        # 1. valid concatenation, all segmentations (+ the encode ops once)
        emit(good, "valid", pre=eops)
        # choose a victim frame
        k = r.randrange(nfr)
        off = sum(len(f) for f in frames[:k])
        f = frames[k]
        regions = {"length": (0, 4), "tag": (4, 4 + M), "payload": (4 + M, len(f) - 4), "checksum": (len(f) - 4, len(f))}
        # 2. single-bit flips in each region
        for name, (a, b) in regions.items():
            if b <= a:
                continue
            positions = range(a, b) if not quick else [r.randrange(a, b) for _ in range(2)]
            for pos in positions:
                for bit in (range(8) if not quick else [r.randrange(8)]):
                    s = bytearray(good)
                    s[off + pos] ^= 1 << bit
                    emit(bytes(s), "bitflip-" + name, two_way=3, kway=1, bytewise=(bit == 0))
        # 3. multi-byte corruption
        for _ in range(2):
            s = bytearray(good)
            a = r.randrange(len(s))
            for j in range(a, min(len(s), a + r.randint(2, 8))):
                s[j] = r.randrange(256)
            emit(bytes(s), "multibyte", two_way=3, kway=1)
        # 4. payload corrupted, checksum recomputed (reject_payload / other message)
        p = bytearray(pls[k])
        if p:
            j = 0 if r.random() < 0.5 else r.randrange(len(p))
            p[j] ^= 1 << r.randrange(8)
        else:
            p = bytearray(b"\x00")
        s = good[:off] + encode(tag, bytes(p)) + good[off + len(f):]
        emit(s, "payload-rechecksummed", two_way=3, kway=1)
        # empty payload (len == kMinMessageLen)
        s = good[:off] + encode(tag, b"") + good[off + len(f):]
        emit(s, "empty-payload", two_way=3, kway=1)
        # 5. wrong tag of the same length, checksum recomputed
        if M:
            t2 = bytearray(tag)
            t2[r.randrange(M)] ^= 1 << r.randrange(8)
            s = good[:off] + encode(bytes(t2), pls[k]) + good[off + len(f):]
            emit(s, "tag-rechecksummed", two_way=3, kway=1)
        # 6. truncation at every offset (each fed whole and in one random split)
        for cut in (range(len(good)) if not quick else sorted(set([0, 1, 3, 4, 5, 4 + M, 7 + M, 8 + M, len(good) - 1] +
                                                                [r.randrange(len(good)) for _ in range(6)]))):
            if 0 <= cut < len(good):
                s = good[:cut]
                pt = self.pt_ops(kind, tag, s, pls)
                self.add(kind, tagspec, pt, s, (), "truncation")
                if cut > 1:
                    self.add(kind, tagspec, pt, s, (r.randrange(1, cut),), "truncation")
        # 7. adversarial length fields in front of the victim's body
        for L in (-1, -(1 << 31), 0, M + 3, M + 4, MAXLEN, MAXLEN + 1, (1 << 31) - 1, len(f) - 4 - 1, len(f) - 4 + 1):
            s = good[:off] + struct.pack(">i", L) + f[4:] + good[off + len(f):]
            emit(s, "length-field", two_way=2, kway=1, bytewise=False)
        # 8. valid frames followed by a partial next frame / garbage
        tail = bytes(r.randrange(256) for _ in range(r.choice([1, 3, 4, 7, 4 + M + 3, 4 + M + 4, 30])))
        emit(good + tail, "garbage-tail", two_way=3, kway=1)

    # ---- the OLD codec (examples/protobuf/codec/codec.cc)
    def old_pt_ops(self, stream, valid_payloads):
        seenp = []

        def parse(p):
            if p not in seenp:
                seenp.append(p)
            return b""
        ref_decode_old(stream, lambda tn: tn == OLD_TYPE, parse)
        return ["PT %s ?%s" % (hx(p), " valid" if p in valid_payloads else "") for p in seenp]

    def old_cases(self, quick):
        r = self.rng
        nfr = r.randint(1, 4)
        pls, eops = [], []
        for _ in range(nfr):
            p, e = self.payload("pb")
            pls.append(p)
            eops.append(e)
        frames = [old_encode(OLD_TYPE, p) for p in pls]
        good = b"".join(frames)
        N = len(OLD_TYPE) + 1

        def emit(stream, label, two_way=3, kway=1, bytewise=True, pre=()):
            pt = self.old_pt_ops(stream, pls)
            for j, cuts in enumerate(segmentations(r, len(stream), two_way=two_way, kway=kway, bytewise=bytewise)):
                self.add("old", "-", (list(pre) if j == 0 else []) + pt, stream, cuts, label)

        emit(good, "old-valid", two_way="all", kway=2, pre=eops)
        k = r.randrange(nfr)
        off = sum(len(f) for f in frames[:k])
        f = frames[k]
        size = len(f) - 4
        cov = f[4:-4]

        def with_victim(newframe):
            return good[:off] + newframe + good[off + len(f):]
        regions = {"length": (0, 4), "namelen": (4, 8), "typename": (8, 8 + N), "payload": (8 + N, len(f) - 4),
                   "checksum": (len(f) - 4, len(f))}
        for name, (a, b) in regions.items():
            if b <= a:
                continue
            for pos in (range(a, b) if not quick else [r.randrange(a, b) for _ in range(2)]):
                for bit in (range(8) if not quick else [r.randrange(8)]):
                    x = bytearray(good)
                    x[off + pos] ^= 1 << bit
                    emit(bytes(x), "old-bitflip-" + name, bytewise=(bit == 0))
        # nameLen values with the checksum recomputed (kInvalidNameLen is the class only this codec has)
        for nl in (-1, -(1 << 31), 0, 1, 2, N - 1, N + 1, size - 8, size - 8 + 1, size - 9, (1 << 31) - 1):
            emit(with_victim(old_frame(struct.pack(">i", nl) + cov[4:])), "old-namelen", two_way=2, bytewise=False)
        # type names, checksum recomputed: mutated byte, embedded NUL, terminator not NUL (the decoder does not look at it),
        # one character short, empty (nameLen = 1), upper case
        t2 = bytearray(OLD_TYPE)
        t2[r.randrange(len(t2))] ^= 1 << r.randrange(8)
        names = [bytes(t2) + b"\0", OLD_TYPE[:5] + b"\0" + OLD_TYPE[6:] + b"\0", OLD_TYPE + b"X", OLD_TYPE[:-1] + b"\0", b"\0",
                 OLD_TYPE.upper() + b"\0", OLD_TYPE + b"\0\0", b"muduo.net.Nope\0"]
        for nm in (names if not quick else r.sample(names, 4) + [OLD_TYPE + b"X"]):
            emit(with_victim(old_frame(struct.pack(">i", len(nm)) + nm + pls[k])), "old-typename", two_way=2, bytewise=False)
        # payload corrupted / emptied, checksum recomputed
        p = bytearray(pls[k])
        p[0 if r.random() < 0.5 else r.randrange(len(p))] ^= 1 << r.randrange(8)
        emit(with_victim(old_encode(OLD_TYPE, bytes(p))), "old-payload-rechecksummed")
        emit(with_victim(old_encode(OLD_TYPE, b"")), "old-empty-payload")
        # truncation
        for cut in (range(len(good)) if not quick else sorted(set([0, 1, 3, 4, 7, 8, 13, 14, len(good) - 1] +
                                                                [r.randrange(len(good)) for _ in range(4)]))):
            if 0 <= cut < len(good):
                x = good[:cut]
                pt = self.old_pt_ops(x, pls)
                self.add("old", "-", pt, x, (), "old-truncation")
                if cut > 1:
                    self.add("old", "-", pt, x, (r.randrange(1, cut),), "old-truncation")
        # adversarial length fields in front of the victim's body
        for L in (-1, -(1 << 31), 0, 9, 10, MAXLEN, MAXLEN + 1, (1 << 31) - 1, size - 1, size + 1):
            emit(with_victim(struct.pack(">i", L) + f[4:]), "old-length-field", two_way=2, bytewise=False)
        tail = bytes(r.randrange(256) for _ in range(r.choice([1, 3, 4, 13, 14, 30])))
        emit(good + tail, "old-garbage-tail")
        # random bytes, half of them with a plausible length so that the checksum stage is reached
        n = r.choice([0, 1, 4, 13, 14, 15, 40, 200])
        x = bytes(r.randrange(256) for _ in range(n))
        if r.random() < 0.5 and n >= 14:
            x = struct.pack(">i", r.randint(10, n)) + x[4:]
        emit(x, "old-random-bytes", two_way=2)

    def codec_random_bytes(self, kind, tag, tagspec):
        r = self.rng
        n = r.choice([0, 1, 4, 7, 8, 11, 12, 13, 40, 200])
        s = bytes(r.randrange(256) for _ in range(n))
        if r.random() < 0.5 and n >= 4:        # small plausible length so that the checksum stage is reached
            s = struct.pack(">i", r.randint(len(tag) + 4, max(len(tag) + 4, n))) + s[4:]
        pt = self.pt_ops(kind, tag, s, [])
        for cuts in segmentations(r, len(s), two_way=2, kway=1):
            self.add(kind, tagspec, pt, s, cuts, "random-bytes")

    def big_frame(self, kind, tag, tagspec, n):
        """a frame larger than Buffer's initial 1024 bytes, and long 0xff payloads"""
        r = self.rng
        m = b"\xff" * n if r.random() < 0.5 else xorshift(n, r.randrange(1 << 30))
        if kind == "raw":
            p = raw_ser(m)
        else:
            p = rpc_ser(1, 7, None, None, m, None, None)
        s = encode(tag, p) + encode(tag, p[:3] if kind == "raw" else rpc_ser(2, 8, None, None, None, b"", 0))
        pt = self.pt_ops(kind, tag, s, [])
        for cuts in [(), (1,), (4,), (len(s) - 1,), (1024,), (1023, 1025), tuple(range(100, len(s), 997))]:
            cuts = tuple(c for c in cuts if c < len(s))
            self.add(kind, tagspec, pt, s, cuts, "big-frame")

    # ---- http
    def http_request(self, valid=True):
        r = self.rng
        meth = r.choice(METHODS)
        target = r.choice([b"/", b"/index.html", b"/a/b/c", b"/x?q=1", b"/?", b"/s?a=b?c", b"*", b"/%20x", b"", b"/\tq", b"?x"])
        ver = r.choice([b"HTTP/1.1", b"HTTP/1.0"])
        if not valid:
            what = r.choice(["method", "version", "spaces", "missing", "mutate"])
            if what == "method":
                meth = r.choice([b"get", b"GETX", b"GE", b"", b"OPTIONS", b"PATCH", b"POSTER", b"PUTT", b"DELETED", b"HEA",
                                 b"Get", b"GET\x00", b"\x00GET", b"TRACE", b"CONNECT", b"G", b"POS", b"PU", b"DELET"])
            elif what == "version":
                ver = r.choice([b"HTTP/1.2", b"HTTP/2.0", b"HTTP/1.", b"HTTP/1.10", b"http/1.1", b"HTTP/1.1 ", b"HTTP/1.\x001",
                                b"HTTP/1.\x000", b"HTTP/0.9", b"HTTP/1,1", b"HTTP/1.1\n", b"XTTP/1.1", b"HTTP/1.11", b"", b"HTTP/1.1\r",
                                b"HTTP/11.1", b" HTTP/1.1", b"HTTP/1.9", b"HTTP/1.\x00", b"HTTP/1.\x0011", b"HTTP/1.01"])
            elif what == "spaces":
                return r.choice([meth + b"  " + target + b" " + ver, meth + b" " + target + b"  " + ver,
                                 b" " + meth + b" " + target + b" " + ver, meth + b" /a b " + ver,
                                 meth + b"\t" + target + b"\t" + ver])
            elif what == "missing":
                return r.choice([meth + b" " + target, meth, b"", meth + b" ", b" " + target + b" " + ver, target + b" " + ver,
                                 meth + b" " + ver, b" ", b"  "])
            else:
                ln = bytearray(meth + b" " + target + b" " + ver)
                j = r.randrange(len(ln))
                op = r.random()
                if op < 0.4:
                    ln[j] ^= 1 << r.randrange(8)
                elif op < 0.7:
                    ln.insert(j, r.choice([0, 32, 10, 13, 0x3f, 0x31, r.randrange(256)]))
                else:
                    del ln[j]
                return bytes(ln)
        return meth + b" " + target + b" " + ver

    def http_headers(self):
        r = self.rng
        pool = [b"Host: example.com", b"A:b", b"Key:   spaced value  ", b"Dup: 1", b"Dup: 2", b":novalue-field", b"NoValue:",
                b"Time: 12:30", b"Tab:\tv\t", b"Connection: close", b"X:\x0b\x0cv\x0b", b"Sp ace : v", b"K: \x00z", b"E:   ",
                b"Accept: */*", b"Content-Length: 5", b"X-\xff: \xfe", b"Nb: v\xa0", b"Nel:\x85v\x85", b"Cr: a\rb", b"Lf: a\nb \n"]
        return [r.choice(pool) for _ in range(r.choice([0, 0, 1, 2, 3, 5]))]

    def http_cases(self, quick):
        r = self.rng
        nreq = r.randint(1, 3)
        s = b""
        for i in range(nreq):
            bad = r.random() < 0.25
            s += self.http_request(valid=not bad) + b"\r\n"
            for h in self.http_headers():
                s += h + b"\r\n"
            if r.random() < 0.9:
                s += b"\r\n" if r.random() < 0.85 else b"end-of-headers-without-colon\r\n"
            if r.random() < 0.15:
                s += b"hello"                       # a body: this parser has no body state
        label = "http"
        v = r.random()
        if v < 0.08:
            s = s.replace(b"\r\n", b"\n")           # bare LF
            label = "http-bare-lf"
        elif v < 0.16:
            s = s.replace(b"\r\n", b"\r\r\n", 1)
            label = "http-crcrlf"
        elif v < 0.24:
            s = s.replace(b"\r\n", b"\n\r\n", 1)
            label = "http-lfcrlf"
        elif v < 0.30:
            s = s[:r.randrange(len(s) + 1)]
            label = "http-truncated"
        for cuts in segmentations(r, len(s), two_way=("all" if r.random() < (0.3 if quick else 1.0) else 3), kway=2):
            self.add("http", "-", [], s, cuts, label)

    def http_long_lines(self):
        """request lines and header lines far longer than any buffer-size or line-length constant one might add
        (9000-byte path, 12000-byte header value, 70000-byte query), delivered whole and in chunks of 1000, 4096,
        8191, 8192, 8193, 10000, 16384 bytes: segmentation invariance must not depend on how much of an
        unterminated line is sitting in the buffer"""
        r = self.rng
        streams = [b"GET /" + b"p" * 9000 + b" HTTP/1.1\r\nHost: a\r\n\r\n",
                   b"GET /x HTTP/1.1\r\nCookie: " + b"c" * 12000 + b"\r\nHost: a\r\n\r\n",
                   b"GET /q?" + bytes(97 + (i % 26) for i in range(70000)) + b" HTTP/1.0\r\nX: 1\r\n\r\nGET / HTTP/1.1\r\n\r\n"]
        for s in streams:
            n = len(s)
            self.add("http", "-", [], s, (), "http-long-line")
            for k in (1000, 4096, 8191, 8192, 8193, 10000, 16384):
                self.add("http", "-", [], s, tuple(range(k, n, k)), "http-long-line")
            self.add("http", "-", [], s, (r.randrange(1, n),), "http-long-line")

    def http_random(self):
        r = self.rng
        alphabet = [b"\r", b"\n", b"\r\n", b" ", b":", b"?", b"GET", b"HTTP/1.1", b"HTTP/1.", b"1", b"0", b"/", b"a", b"\x00"]
        s = b"".join(r.choice(alphabet) for _ in range(r.randint(0, 30)))
        for cuts in segmentations(r, len(s), two_way=2, kway=1):
            self.add("http", "-", [], s, cuts, "http-random")

    def nonempty_chunks(self, stream, cuts):
        return [c for c in chunks_of(stream, cuts) if c]

    def add_d(self, kind, tagspec, stream, cuts, label, tail=()):
        self.n += 1
        ops = ["D " + hx(c) for c in self.nonempty_chunks(stream, cuts)] + ["D " + hx(c) for c in tail if c]
        if not ops:
            return
        self.cases.append(vlib.Case("%s%d" % (kind[0], self.n), "%s %s" % (kind, tagspec), ops, label))
        self.hist[label] = self.hist.get(label, 0) + 1

    def conn_cases(self, tag, tagspec):
        """the raw codec with the DEFAULT error callback on a real TcpConnection: valid frames, then one of the
        reject classes, then more deliveries after the error (the stream is abandoned, the error sticks)"""
        r = self.rng
        M = len(tag)
        pls = [raw_ser(self.rand_msg()) for _ in range(r.randint(0, 3))]
        good = b"".join(encode(tag, p) for p in pls)
        victim = encode(tag, raw_ser(self.rand_msg()))
        what = r.choice(["none", "length-neg", "length-big", "length-small", "checksum", "tag", "payload", "garbage"])
        if what == "none":
            bad = b""
        elif what == "length-neg":
            bad = struct.pack(">i", r.choice([-1, -(1 << 31)])) + victim[4:]
        elif what == "length-big":
            bad = struct.pack(">i", r.choice([MAXLEN + 1, (1 << 31) - 1])) + victim[4:]
        elif what == "length-small":
            bad = struct.pack(">i", r.choice([0, M + 3])) + victim[4:]
        elif what == "checksum":
            bad = victim[:-1] + bytes([victim[-1] ^ (1 << r.randrange(8))])
        elif what == "tag" and M:
            t2 = bytearray(tag)
            t2[r.randrange(M)] ^= 1 << r.randrange(8)
            bad = encode(bytes(t2), raw_ser(b"x"))
        elif what == "payload":
            bad = encode(tag, b"not-starred")
        else:
            bad = bytes(r.randrange(256) for _ in range(r.choice([M + 8, M + 9, 30])))
        tail = [bytes(r.randrange(256) for _ in range(r.choice([1, 2, 17]))) for _ in range(r.randint(0, 3))]
        if r.random() < 0.3:
            tail.append(encode(tag, raw_ser(b"after")))           # a perfectly valid frame after the error: never delivered
        s = good + bad
        for cuts in segmentations(r, len(s), two_way=2, kway=1, bytewise=(len(s) <= 60)):
            self.add_d("conn", tagspec, s, cuts, "conn-" + what, tail)

    def hsrv_cases(self, quick):
        """the real HttpServer::onMessage on a real TcpConnection: pipelined requests, keep-alive / close /
        HTTP/1.0, bad request lines, bytes after a shutdown"""
        r = self.rng
        s = b""
        for i in range(r.randint(1, 4)):
            bad = r.random() < 0.15
            if bad:
                s += self.http_request(valid=False) + b"\r\n"
            else:
                meth = r.choice(METHODS)
                target = r.choice([b"/", b"/a", b"/a?x=1", b"/nf", b"/nfx", b"/close", b"/n", b"/close?q", b"/%20"])
                ver = r.choice([b"HTTP/1.1", b"HTTP/1.1", b"HTTP/1.0"])
                s += meth + b" " + target + b" " + ver + b"\r\n"
            for h in self.http_headers():
                s += h + b"\r\n"
            if r.random() < 0.5:
                s += r.choice([b"Connection: close", b"Connection: Keep-Alive", b"Connection:  close  ", b"Connection: keep-alive",
                               b"connection: close", b"Connection: x", b"Connection: close\r\nConnection: Keep-Alive"]) + b"\r\n"
            s += b"\r\n"
        if r.random() < 0.2:
            s = s[:r.randrange(len(s) + 1)]
        for cuts in segmentations(r, len(s), two_way=(3 if quick else "all"), kway=2, bytewise=(len(s) <= 80)):
            self.add_d("hsrv", "-", s, cuts, "hsrv", [b"\r\n"] if r.random() < 0.3 else [])

    def resp_cases(self, quick):
        r = self.rng
        ops = []
        for _ in range(20 if quick else 300):
            code = r.choice([200, 301, 400, 404, 0, 200, 200])
            msg = r.choice([b"OK", b"Not Found", b"", b"Moved Permanently", b"with  spaces ", b"x:y", b"\xff\x00"])
            close = r.choice(["0", "1"])
            body = bytes(r.randrange(256) for _ in range(r.choice([0, 0, 1, 5, 9, 10, 99, 100, 1000, 1500])))
            nh = r.choice([0, 0, 1, 2, 4])
            keys = r.sample([b"X", b"A", b"Content-Type", b"Server", b"a", b"Z-z", b"B", b"", b"X-1"], nh)
            hs = ",".join("%s=%s" % (hx(k), hx(r.choice([b"v", b"", b"text/html", b"a: b", b" lead", b"\x80"]))) for k in keys) or "-"
            ops.append("RESP %d %s %s %s %s" % (code, hx(msg), close, hx(body), hs))
        # ill-formed on purpose (no claim, marked x): LF in the reason phrase, a colon in a field name, a second Content-Length
        ops += ["RESP 200 4f0a4b 0 61 - x", "RESP 200 4f4b 0 61 583a59=31 x", "RESP 200 4f4b 1 61 436f6e74656e742d4c656e677468=39 x"]
        for i in range(0, len(ops), 8):
            self.n += 1
            self.cases.append(vlib.Case("rs%d" % self.n, "http -", ops[i:i + 8], "http-response"))
            self.hist["http-response"] = self.hist.get("http-response", 0) + 1

    def adler_cases(self, quick):
        r = self.rng
        ops = ["AD -", "AD 00", "AD ff", "AD 61", "AD 57696b697065646961", "AD #ff*5551", "AD #ff*5552", "AD #ff*5553",
               "AD #ff*11104", "AD #ff*65521", "AD #00*70000", "AD #ff*%d" % (70000 if quick else 400000),
               "AD #01*65520", "AD #01*65521"]
        for _ in range(20 if quick else 200):
            n = r.choice([1, 2, 15, 16, 17, 255, 256, 5551, 5552, 5553, r.randrange(1, 20000)])
            ops.append("AD @%d:%d" % (n, r.randrange(1, 1 << 30)))
        for i in range(0, len(ops), 8):
            self.n += 1
            self.cases.append(vlib.Case("ad%d" % self.n, "adler -", ops[i:i + 8], "adler"))
            self.hist["adler"] = self.hist.get("adler", 0) + 1


def generate(rng, tier):
    g = Gen(rng)
    quick = tier == "quick"
    tags = [(b"XYZ", "58595a"), (b"RPC0", "52504330"), (b"", "-"), (b"T", "54"), (b"LONGTAG8", "4c4f4e4754414738"), (b"\x00\xff", "00ff")]
    rounds = 6 if quick else 40
    for i in range(rounds):
        for kind in ("raw", "pb", "rpc"):
            if kind == "rpc":
                tag, ts = b"RPC0", "52504330"
            else:
                tag, ts = tags[(i + (0 if kind == "raw" else 1)) % len(tags)] if i < len(tags) else rng.choice(tags)
            g.codec_stream_cases(kind, tag, ts, quick)
            for _ in range(6):
                g.codec_random_bytes(kind, tag, ts)
    for kind, tag, ts in (("raw", b"XYZ", "58595a"), ("rpc", b"RPC0", "52504330")):
        g.big_frame(kind, tag, ts, 1500)
        g.big_frame(kind, tag, ts, 6000 if quick else 70000)
    for _ in range(12 if quick else 300):
        g.old_cases(quick)
    for _ in range(120 if quick else 1500):
        g.http_cases(quick)
    g.http_long_lines()
    for _ in range(150 if quick else 1500):
        g.http_random()
    for i in range(60 if quick else 1500):
        tag, ts = tags[i % len(tags)]
        g.conn_cases(tag, ts)
    for _ in range(80 if quick else 1500):
        g.hsrv_cases(quick)
    g.resp_cases(quick)
    g.adler_cases(quick)
    return g


# ------------------------------------------------------------------ running
def fill_pt(case, impl_lines):
    """model-side copy of a case: the '?' of every PT op replaced by what protobuf answered"""
    if impl_lines is None or not any(o.startswith("PT ") for o in case.ops):
        return case
    ops = []
    for i, o in enumerate(case.ops):
        if o.startswith("PT ") and i + 1 < len(impl_lines) and impl_lines[i + 1].startswith("PT "):
            t = o.split()
            ops.append("PT %s %s" % (t[1], impl_lines[i + 1][3:]))
        else:
            ops.append(o)
    return vlib.Case(case.cid, case.header, ops, case.tag)


def run_both(impl, model, cases, timeout=3000):
    impl_out, crashes = vlib.run_batch_parallel(impl, cases, timeout=timeout)
    mcases = cases          # the model parses RpcMessage payloads itself (C19_Wire.wire_parse): no verdict is handed over
    model_out, mcrashes = vlib.run_batch_parallel(model, mcases, timeout=timeout,
                                                  pre=["bash", "-c", 'ulimit -s unlimited 2>/dev/null; exec "$0"'])
    return impl_out, crashes, model_out, mcrashes


def load_case_file(path, prefix=""):
    cases, cid, header, ops = [], None, "", []
    for line in open(path):
        line = line.rstrip("\n")
        if not line or line.startswith("#"):
            continue
        if line.startswith("---"):
            break
        if line.startswith("case "):
            t = line.split()
            cid, header, ops = prefix + t[1], " ".join(t[2:]), []
        elif line == "end":
            cases.append(vlib.Case(cid, header, ops, "corpus" if prefix else "replay"))
        else:
            ops.append(line)
    return cases


def signature(case, lines):
    """non-trivial = the decoder reported at least one event (message / request / error);
    distinct by (kind+tag, crc of the stream, chunk lengths, events)"""
    stream, lens, evs = b"", [], []
    for op, ln in zip(case.ops, lines[1:]):
        if op.startswith(("F ", "D ")):
            b = bytes_of_spec(op[2:])
            stream += b
            lens.append(len(b))
            m = FLINE.match(ln) or DCONN.match(ln) or DSRV.match(ln)
            if m and m.group(1) != "-":
                evs.append(m.group(1))
        elif op.startswith(("E ", "AD ", "RESP ")):
            evs.append(ln)
    if not evs:
        return None
    return (case.header, zlib.crc32(stream), tuple(lens), zlib.crc32(";".join(evs).encode()))


def run(chk, replay=None):
    tier, rng = chk.tier, chk.rng
    pr = chk.prove()
    model = vlib.build_model("C18")
    # harness/C18_oldcodec.cc #includes examples/protobuf/codec/codec.{h,cc} of the tree under test, which is not part of
    # the muduo libraries: its content goes into the driver's cache key through a -D flag
    import hashlib
    oh = hashlib.sha1()
    for rel in ("examples/protobuf/codec/codec.h", "examples/protobuf/codec/codec.cc"):
        try:
            oh.update(open(os.path.join(vlib.REPO, rel), "rb").read())
        except OSError:
            oh.update(b"missing " + rel.encode())
    impl = vlib.build_driver("C18_driver", ["C18_driver.cc", "C18_oldcodec.cc"], variant="asan",
                             components=("base", "net", "protobuf", "protorpc", "http"), libs=["-lprotobuf", "-lz"],
                             wrap=["__assert_fail"], extra_flags=["-DC18_OLDCODEC_SRC_SHA=" + oh.hexdigest()[:16]])
    t0 = time.time()
    if replay:
        cases = load_case_file(replay)
        hist = {"replay": len(cases)}
    else:
        cases = []
        for f in sorted(glob.glob(os.path.join(vlib.ROOT, "corpus", "C18", "*.case"))):
            cases += load_case_file(f, prefix="corpus_%s_" % os.path.basename(f)[:-5])
        g = generate(rng, tier)
        cases += g.cases
        hist = g.hist
        hist["corpus"] = len(cases) - len(g.cases)
    chk.cov["generator_histogram"] = hist
    t1 = time.time()
    impl_out, crashes, model_out, mcrashes = run_both(impl, model, cases)
    t2 = time.time()

    corr_bad, oracle_bad, sigs = [], [], set()
    known = {k["key"]: k["text"] for k in vlib.known_findings() if k["property"] == "C18"}
    F_HTTP = "http-bytes-after-rejected-request-line"
    f_http_hits = f_http_dropped = 0
    for c in cases:
        chk.cov["evaluations"] += 1
        if c.cid in crashes:
            rc, se, partial = crashes[c.cid]
            partial = [l for l in partial if l != ""]
            key = [l.strip() for l in se.splitlines() if re.search(r"ERROR: AddressSanitizer|runtime error:|Assertion|SUMMARY:", l)]
            oracle_bad.append((c, len(partial), "implementation crashed (rc=%s) after %d output lines: %s"
                               % (rc, len(partial), " | ".join(key[:3]) or se[-600:])))
            continue
        li = impl_out.get(c.cid)
        lm = model_out.get(c.cid)
        if li is None:
            oracle_bad.append((c, 0, "no implementation output"))
            continue
        o = oracle(c, li)
        if o is not None and o[1].startswith("F22:") and lm == li:
            # finding F-22, matched by its signature: the assertion of HttpRequest::setMethod in an hsrv case, after the
            # independent reference server saw a rejected request line, at exactly the delivery where the faithful model
            # predicts it (the model's trace equals the implementation's on every line)
            f_http_hits += 1
            if "400 dropped" in o[1]:
                f_http_dropped += 1
            if F_HTTP not in known:
                oracle_bad.append((c, o[0], o[1][5:] + " (finding %s, see findings/C18.md)" % F_HTTP))
        elif o is not None:
            oracle_bad.append((c, o[0], o[1]))
        if lm is None or li != lm:
            idx = next((i for i in range(min(len(li), len(lm or []))) if li[i] != lm[i]), 0)
            corr_bad.append((c, idx, "impl %r vs model %r" % (li[idx] if idx < len(li) else None,
                                                             lm[idx] if lm and idx < len(lm) else None)))
        elif any(l.startswith(("F ", "D ", "RESP ")) and ("fault" in l or " OOF" in l or "FAULT" in l or "REF-GRAMMAR" in l) for l in lm):
            corr_bad.append((c, 0, "model reports an out-of-bounds read, ran out of fuel, or lacked a parser verdict"))
        s = signature(c, li)
        if s:
            sigs.add(s)
            if len(chk.cov["samples"]) < 6 and c.tag not in [x.get("label") for x in chk.cov["samples"]] and len(c.ops) <= 6:
                chk.sample({"label": c.tag, "case": c.text().split("\n")[:-1], "impl": li[1:-1]})
    if f_http_hits and F_HTTP in known:
        chk.known(F_HTTP, "key=%s %s (%d cases this run, %d of them with the 400 dropped because the connection had already been "
                          "shut down by an earlier close response)" % (F_HTTP, known[F_HTTP], f_http_hits, f_http_dropped))
    t3 = time.time()
    chk.cov["phase_s"] = {"generate": round(t1 - t0, 1), "run_both": round(t2 - t1, 1), "oracle": round(t3 - t2, 1)}
    chk.cov["distinct_nontrivial"] = len(sigs)
    chk.cov["rule"] = ("per round: 1-6 valid frames (3 codec instances of ProtobufCodecLite, 6 tags; + the OLD ProtobufCodec of examples/protobuf/codec/"
                       "codec.cc with re-checksummed nameLen / type-name variants) in every segmentation class (whole, byte-by-byte, EVERY "
                       "two-way split, random k-way with empty chunks), then single-bit flips in each of the 4 regions, multi-byte "
                       "corruptions, re-checksummed payload/tag corruptions, truncations, length fields {-1,-2^31,0,min-1,min,max,max+1,"
                       "2^31-1,len+-1}, garbage tails, random bytes, frames > 1 KiB; HTTP: 1-3 pipelined requests (25% invalid by method/"
                       "version/spaces/missing part/mutation), bare LF, CR CR LF, LF CR LF, truncation, token soup; Adler-32 on wrap-"
                       "provoking runs. Non-trivial = at least one message/request/error/encoding was produced; distinct by (instance+tag, "
                       "crc32 of the stream, chunk lengths, events)")
    chk.cov["traces_validated_against_impl"] = len(cases) - len(corr_bad)
    if corr_bad:
        chk.cov["correspondence_failures"] = [{"case": c.cid, "class": c.tag, "line": idx, "what": msg[:300]} for (c, idx, msg) in corr_bad[:8]]
    if oracle_bad:
        chk.cov["oracle_failures"] = [{"case": c.cid, "class": c.tag, "op": idx, "what": msg[:300]} for (c, idx, msg) in oracle_bad[:8]]
    chk.add_obligation("correspondence: extracted models (codec_feed with C19_Wire.wire_parse for RpcMessage payloads / http_feed / "
                       "fillEmptyBuffer over the C10 Buffer model / deliver = onMessage over the Buffer model + default error callback / "
                       "srv_deliver = HttpServer::onMessage / response_bytes / adler32 / ocodec_feed + oencode = the old ProtobufCodec) == real "
                       "ProtobufCodecLite, RpcCodec, ProtobufCodec (examples/protobuf/codec/codec.cc compiled from the tree), HttpContext, "
                       "TcpConnection + HttpServer on a socketpair, HttpResponse, zlib adler32 on every case, line by line", not corr_bad)
    chk.add_obligation("oracle: independent reference decoding of every delivered prefix == the implementation's events, unconsumed count, "
                       "abandoned flag; wire format of fillEmptyBuffer; RFC 1950 Adler-32", not oracle_bad)
    chk.trusted("extraction: ExtrOcamlBasic only; extract/util.ml + extract/C18_driver.ml (OCaml 4.13.1)",
                "harness/C18_driver.cc: kinds raw/pb/rpc/http: error callback = record + abandon, the HTTP caller loop (parseRequest; "
                "false => abandon; gotAll => deliver, reset, again); kinds conn/hsrv: a real TcpConnection on a socketpair whose handleRead is "
                "called after each chunk was written to the peer (default error callback; HttpServer::onMessage with demoCallback); "
                "#define private public for HttpContext::state_, TcpConnection::handleRead, HttpServer::onMessage; harness/C18_oldcodec.cc: "
                "#include of the tree's examples/protobuf/codec/codec.cc behind a narrow interface (kind old; createMessage finds the one linked "
                "type muduo.net.RpcMessage; the source's hash is part of the driver's cache key)",
                "translators lib/gen_consts.py and lib/gen_C18.py (every comparison / assertion / offset argument of onMessage, parse, "
                "validateChecksum, fillEmptyBuffer, serializeToBuffer, processRequestLine, parseRequest, HttpServer::onMessage/onRequest, "
                "appendToBuffer; ProtobufCodec::onMessage/parse/fillEmptyBuffer and the three constants of codec.h; the tag of RpcCodec.cc) "
                "over the clang 14 JSON AST",
                "coq/C19_Wire.v, C19_WireProofs.v (RpcMessage payload format and its round trip; owned by C19, imported read-only)",
                "translator lib/gen_consts.py (clang 14 JSON AST) for kHeaderLen/kChecksumLen/kMaxMessageLen",
                "environment: protobuf 3.21 ParseFromArray/serializer (Section variables parse/ser in the generic theorems; for the "
                "instances pb/rpc the model parses with C19_Wire.wire_parse and every payload that occurs is also compared with protobuf's "
                "own verdict, PT lines), zlib adler32 == RFC 1950 (checked on the AD cases), std::search/std::find/std::map, snprintf")

    def shrink(c, pred):
        fidx = [i for i, o in enumerate(c.ops) if o.startswith(("F ", "E ", "AD ", "D ", "RESP "))]
        keep_other = [i for i in range(len(c.ops)) if i not in fidx]

        def build(sel):
            s = set(sel) | set(keep_other)
            return vlib.Case("s", c.header, [o for i, o in enumerate(c.ops) if i in s])

        def fails(sel):
            cc = build(sel)
            io, cr, mo, _ = run_both(impl, model, [cc], timeout=120)
            if "s" in cr:
                return pred(cc, None, None)
            return pred(cc, io.get("s"), mo.get("s"))
        sel = vlib.ddmin(fidx, fails, max_tests=60) if len(fidx) > 1 else fidx
        cc = build(sel)
        return vlib.Case(c.cid, c.header, cc.ops)

    if oracle_bad:
        c, idx, msg = oracle_bad[0]

        def pred(cc, li, lm):
            return li is None or oracle(cc, li) is not None
        small = shrink(c, pred)
        io, cr, _, _ = run_both(impl, model, [vlib.Case("s", small.header, small.ops)], timeout=120)
        if "s" not in cr and oracle(small, io.get("s") or []) is None:
            small = c
        p = chk.write_replay("oracle_%s.case" % c.cid, "# %s\n# generator class: %s\n" % (msg.replace("\n", "\n# "), c.tag) + small.text())
        chk.violation(p, "C18 fails on the implementation: %s (%d failing cases; classes: %s)"
                      % (msg, len(oracle_bad), sorted(set(x[0].tag for x in oracle_bad))[:8]))
    elif corr_bad or not pr["ok"]:
        what = []
        body = ""
        if not pr["ok"]:
            what.append("proof obligation(s) no longer check: %s %s" % (pr["broken"], pr["problems"]))
        if corr_bad:
            c, idx, msg = corr_bad[0]

            def pred(cc, li, lm):
                return li != lm
            small = shrink(c, pred)
            what.append("correspondence C18_Model vs the real decoder broken at line %d of the case below (%s); the reference oracle holds "
                        "on all %d cases (%d correspondence failures)" % (idx, msg, len(cases), len(corr_bad)))
            body = small.text()
        p = chk.write_replay("broken_obligation.txt", "\n".join("# " + w for w in what) + "\n" + body +
                             ("\n--- coq log tail ---\n" + pr["log"][-3000:] if not pr["ok"] else ""))
        chk.violation(p, "; ".join(what), no_input=True)
    return chk.finish(level="proof", assumptions=[
        "protobuf's ParseFromArray / serializer are arbitrary functions parse/ser in the theorems (round trip needs parse (ser m) = Some m)",
        "zlib adler32(1, buf, len) is RFC 1950 Adler-32 (checked by the AD cases, not proved)",
        "kinds raw/pb/rpc/http: after the first error the driver stops calling the decoder (the abandoned-flag decoder of the theorems); "
        "kinds conn/hsrv: no such convention, the real TcpConnection keeps delivering (C18_error_abandons_stream, C18_http_server_requests_prefix)",
        "the models are tied to the code by regenerated constants and differential execution (testing), not by a verified C++ semantics"])
