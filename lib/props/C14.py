"""C14: blocking queues and latch - FIFO, bounded, nothing lost, nobody left waiting.
proof (Properties_C14.v over C14_Model.v / Conc_Model.v) + TRACE VALIDATION: the real
BlockingQueue<int>, BoundedBlockingQueue<int>, CountDownLatch run under the controlled scheduler
(harness/sched.cc, link-time interposition of the pthread calls), every recorded step must be
accepted by the extracted model; independently the property text is evaluated on the
implementation's event log (FIFO / exactly once / bound / no stuck waiter / holder_)."""
import os, re, sys, glob, time
import vlib, schedlib

PROP = "C14"
SAMPLE_MAX = 60      # longest trace shown as a sample in the evidence


# ---------------------------------------------------------------------------------- cases
def mkcase(cid, kind, progs, source, cap=1, count=1, spur=0, thr="spawn", pre=0, tag=""):
    hdr = "kind=%s cap=%d count=%d thr=%s spur=%d pre=%d sched=%s" % (kind, cap, count, thr, spur, pre, source)
    ops = [" ; ".join(p) if p else "-" for p in progs]
    return vlib.Case(cid, hdr, ops, tag)


def hdr_get(header, key, default=None):
    for t in header.split():
        if t.startswith(key + "="):
            return t[len(key) + 1:]
    return default


def progs_of(case):
    res = []
    for line in case.ops:
        if line.strip() == "-":
            res.append([])
        else:
            res.append([o.split() for o in line.split(";")])
    return res


# ---------------------------------------------------------------------------------- oracle
def oracle(case, run):
    """The property text on the implementation's own output.  Returns None or a message.
    Independent of the Coq model."""
    kind = hdr_get(case.header, "kind")
    cap = int(hdr_get(case.header, "cap", "1"))
    count0 = int(hdr_get(case.header, "count", "1"))
    progs = progs_of(case)
    if run.crash:
        return "implementation crashed / sanitizer report (%s)" % run.crash
    if run.steplimit:
        return "step limit reached (livelock)"
    if not run.complete:
        return "incomplete output"
    done = {}          # thread -> number of completed ops
    puts, returned = [], []
    producer_seq = {}  # producer -> values in its put order
    for ti, p in enumerate(progs, 1):
        producer_seq[ti] = [int(o[1]) for o in p if o[0] == "put"]
    ncd = 0
    for ev in run.events:
        # e T<i> r <k> <op> <result>
        if len(ev) < 6 or ev[2] != "r":
            continue
        ti, k, op, res = int(ev[1][1:]), int(ev[3]), ev[4], ev[5]
        if done.get(ti, 0) != k or k >= len(progs[ti - 1]) or progs[ti - 1][k][0] != op:
            return "T%d: event %r does not follow its program" % (ti, " ".join(ev))
        done[ti] = k + 1
        if op == "put":
            puts.append(int(res))
        elif op == "take":
            returned.append(int(res))
        elif op == "drain":
            if res != "-":
                returned += [int(x) for x in res.split(",")]
        elif op == "size":
            if int(res) != len(puts) - len(returned):
                return "size() returned %s with %d put and %d taken" % (res, len(puts), len(returned))
            if kind == "bbq" and int(res) > cap:
                return "size() returned %s > capacity %d" % (res, cap)
        elif op == "empty":
            if (int(res) == 1) != (len(puts) - len(returned) == 0):
                return "empty() returned %s with %d elements queued" % (res, len(puts) - len(returned))
        elif op == "full":
            if (int(res) == 1) != (len(puts) - len(returned) == cap):
                return "full() returned %s with %d elements queued, capacity %d" % (res, len(puts) - len(returned), cap)
        elif op == "capacity":
            if int(res) != cap:
                return "capacity() returned %s, constructed with %d" % (res, cap)
        elif op == "cd":
            ncd += 1
        elif op == "wait":
            if count0 - ncd > 0:
                return "CountDownLatch::wait() returned with count %d > 0" % (count0 - ncd)
        elif op == "count":
            if int(res) != count0 - ncd:
                return "getCount() returned %s after %d countDown() from %d" % (res, ncd, count0)
        else:
            return "unknown op in event log: " + " ".join(ev)
        if len(returned) > len(puts):
            return "more elements returned (%d) than put (%d)" % (len(returned), len(puts))
        if kind == "bbq" and len(puts) - len(returned) > cap:
            return "bounded queue holds %d > capacity %d" % (len(puts) - len(returned), cap)
    # exactly once / FIFO
    if len(set(returned)) != len(returned):
        return "an element was returned twice: %s" % returned
    if any(v not in puts for v in returned):
        return "an element was returned that nobody put: %s" % returned
    for ti, seq in producer_seq.items():
        got = [v for v in returned if v in set(seq)]
        if got != seq[:len(got)]:
            return "producer T%d put %s but consumers saw %s" % (ti, seq, got)
    final_q = None
    for f in run.final:
        if f.startswith("final queue="):
            s = f[len("final queue="):]
            final_q = [] if s == "-" else [int(x) for x in s.split(",")]
        elif f.startswith("final count="):
            if int(f[len("final count="):]) != count0 - ncd:
                return "final count %s after %d countDown() from %d" % (f, ncd, count0)
    if kind in ("bq", "bbq"):
        if final_q is None:
            return "no final queue line"
        if returned + final_q != puts:
            return "returned %s ++ queued %s is not the FIFO order of the puts %s" % (returned, final_q, puts)
    # observers on every trace line: size bound, holder_
    inside = {}    # thread -> True while between lock/wake and unlock/wait on m0
    moncond = {"bq": ("c0",), "bbq": ("c0", "c1"), "latch": ("c0",)}[kind]
    prev_n = prev_t = None
    for t in run.trace:
        ti, k, obj, res = int(t[2][1:]), t[3], t[4], t[5]
        h = n = None
        for x in t[6:]:
            if x.startswith("h="):
                h = x[2:]
            elif x.startswith("n="):
                n = int(x[2:])
        # "mutate under the lock": between two consecutive trace lines only the thread of the
        # earlier line has run (a thread gives up the turn only inside a wrapped call, and every
        # wrapped call prints its line after it got the turn back)
        if n is not None and prev_n is not None and n != prev_n and not inside.get(prev_t):
            return "the %s changed from %d to %d while T%d was outside the critical section (before step %s)" % (
                "count" if kind == "latch" else "queue size", prev_n, n, prev_t, t[1])
        prev_n, prev_t = n, ti
        if kind == "bbq" and n is not None and n > cap:
            return "queue size %d > capacity %d observed at step %s" % (n, cap, t[1])
        if (k == "lock" and obj == "m0") or (k == "wake" and obj in moncond):
            if any(inside.values()):
                return "two threads inside the critical section at step %s" % t[1]
            inside[ti] = True
        elif (k == "unlock" and obj == "m0") or (k == "wait" and res.startswith("m0")):
            if not inside.get(ti):
                return "T%d releases the mutex it does not hold at step %s" % (ti, t[1])
            inside[ti] = False
            if h != "-":
                return "holder_ = %s after the mutex was released at step %s" % (h, t[1])
        elif k in ("sig", "bcast") and obj in moncond:
            if inside.get(ti) and h != "T%d" % ti:
                return "holder_ = %s while T%d is inside the critical section (step %s)" % (h, ti, t[1])
        if h is not None and h != "-":
            if h == "?" or not inside.get(int(h[1:])):
                return "holder_ names %s which does not hold the mutex (step %s)" % (h, t[1])
        if "ERROR" in res:
            return "pthread misuse reported by the scheduler: " + " ".join(t)
    # nobody left waiting while its condition holds
    if run.deadlock:
        for ti, pend in sorted(run.pending.items()):
            if not pend or pend[0] in ("done", "join"):
                continue
            if ti == 0 or ti > len(progs):
                return "unexpected stuck thread T%d: %s" % (ti, " ".join(pend))
            k = done.get(ti, 0)
            op = progs[ti - 1][k][0] if k < len(progs[ti - 1]) else "?"
            if pend[0] != "wait":
                return "T%d stuck in %s (not a condition wait)" % (ti, " ".join(pend))
            if op == "take" and final_q:
                return "LOST WAKE-UP: T%d blocked in take() although the queue holds %s" % (ti, final_q)
            if op == "put" and (kind != "bbq" or len(final_q) < cap):
                return "LOST WAKE-UP: T%d blocked in put() although the queue holds %d < capacity %d" % (ti, len(final_q), cap)
            if op == "wait" and count0 - ncd <= 0:
                return "LOST WAKE-UP: T%d blocked in CountDownLatch::wait() although count = %d" % (ti, count0 - ncd)
            if op not in ("take", "put", "wait"):
                return "T%d blocked in %s()" % (ti, op)
    else:
        for ti, p in enumerate(progs, 1):
            if done.get(ti, 0) != len(p):
                return "T%d finished %d of %d ops without a deadlock report" % (ti, done.get(ti, 0), len(p))
    return None


# ---------------------------------------------------------------------------------- generators
def small_configs(tier):
    """(name, kind, cap, count, spur, thr, progs, pre) explored systematically; pre = extra park before the
    named wrapped calls (`wait`: between the while-test under the mutex and the parking in pthread_cond_wait)."""
    P, T, D, S = (lambda v: "put %d" % v), "take", "drain", "size"
    cfgs = [
        ("bq_1p1c", "bq", 1, 1, 1, "spawn", [[P(101), P(102)], [T, T]], 0),
        ("bq_2p2c", "bq", 1, 1, 1, "spawn", [[P(101)], [P(201)], [T], [T]], 0),
        ("bq_1p2c", "bq", 1, 1, 0, "spawn", [[P(101), P(102)], [T], [T]], 0),
        ("bq_2p1c", "bq", 1, 1, 1, "spawn", [[P(101)], [P(201), P(202)], [T, T, T]], 0),
        ("bq_drain", "bq", 1, 1, 0, "spawn", [[P(101), P(102)], [T], [D, S]], 0),
        ("bbq1_1p1c", "bbq", 1, 1, 1, "spawn", [[P(101), P(102)], [T, T]], 0),
        ("bbq1_2p2c", "bbq", 1, 1, 0, "spawn", [[P(101)], [P(201)], [T], [T]], 0),
        ("bbq1_2p1c", "bbq", 1, 1, 1, "spawn", [[P(101), P(102)], [P(201)], [T, T, T]], 0),
        ("bbq2_1p2c", "bbq", 2, 1, 0, "spawn", [[P(101), P(102), P(103)], [T, S], [T, T]], 0),
        # two producers parked on a full queue, two takes in a row: one notification per take is needed
        ("bbq2_2p_tt", "bbq", 2, 1, 0, "spawn", [[P(101), P(102), P(103)], [P(201)], [T, T]], 0),
        ("bbq1_obs", "bbq", 1, 1, 0, "spawn", [[P(101), "full", P(102)], [T, "empty", T, "capacity", S]], 0),
        ("bq_prewait", "bq", 1, 1, 0, "spawn", [[P(101)], [T], [T, S]], schedlib.mask("wait")),
        ("latch1_prewait", "latch", 1, 1, 0, "spawn", [["wait"], ["wait"], ["cd"]], schedlib.mask("wait")),
        ("latch1_2w", "latch", 1, 1, 1, "spawn", [["wait"], ["wait"], ["cd"]], 0),
        ("latch2_2w", "latch", 1, 2, 0, "spawn", [["cd", "wait"], ["wait", "count"], ["cd"]], 0),
        ("latch1_muduo", "latch", 1, 1, 0, "muduo", [["wait"], ["cd", "count"]], 0),
    ]
    if tier != "quick":
        cfgs += [
            ("bq_2p2c_b", "bq", 1, 1, 2, "spawn", [[P(101), P(102)], [P(201)], [T, T], [T]], 0),
            ("bbq2_2p2c", "bbq", 2, 1, 1, "spawn", [[P(101), P(102)], [P(201), P(202)], [T, T], [T, T]], 0),
            ("bbq1_muduo", "bbq", 1, 1, 0, "muduo", [[P(101), P(102)], [T, T]], 0),
            ("latch2_3w", "latch", 1, 2, 1, "spawn", [["wait"], ["wait", "count"], ["cd", "wait"], ["cd"]], 0),
        ]
    return cfgs


def gen_random_case(rng, cid):
    kind = rng.choice(["bq", "bq", "bbq", "bbq", "bbq", "latch"])
    spur = rng.choice([0, 0, 1, 2, 3])
    thr = "muduo" if rng.random() < 0.1 else "spawn"
    src = schedlib.random_source(rng)
    pre = rng.choice([0, 0, 0, schedlib.mask("wait")])
    if kind == "latch":
        count = rng.randint(0, 3)
        nthr = rng.randint(2, 5)
        progs = [[] for _ in range(nthr)]
        ncd = count + rng.choice([0, 0, 0, 1, -1]) if count > 0 else rng.choice([0, 1])
        for _ in range(max(0, ncd)):
            progs[rng.randrange(nthr)].append("cd")
        for _ in range(rng.randint(1, 5)):
            progs[rng.randrange(nthr)].append(rng.choice(["wait", "wait", "count"]))
        for p in progs:
            rng.shuffle(p)
        progs = [p[:10] for p in progs]
        return mkcase(cid, kind, progs, src, count=count, spur=spur, thr=thr, pre=pre, tag="random")
    nprod, ncons = rng.randint(1, 4), rng.randint(1, 4)
    cap = rng.randint(1, 3)
    total = rng.randint(1, 12)
    prods = [[] for _ in range(nprod)]
    for i in range(total):
        p = rng.randrange(nprod)
        if len(prods[p]) < 10:
            prods[p].append("put %d" % ((p + 1) * 100 + len(prods[p]) + 1))
    nput = sum(len(p) for p in prods)
    cons = [[] for _ in range(ncons)]
    ntake = nput + rng.choice([0, 0, 0, 0, -1, 1])
    for i in range(max(0, ntake)):
        c = rng.randrange(ncons)
        if len(cons[c]) < 10:
            cons[c].append("take")
    extra = ["size"] + (["drain", "drain"] if kind == "bq" else ["empty", "full", "capacity"])
    for _ in range(rng.choice([0, 0, 1, 2])):
        lst = rng.choice(prods + cons)
        if len(lst) < 10:
            lst.insert(rng.randint(0, len(lst)), rng.choice(extra))
    if rng.random() < 0.15 and nprod + ncons > 2:
        # a thread that both produces and consumes
        a = prods.pop()
        cons[0] = (cons[0] + a)[:10]
        rng.shuffle(cons[0])
        # keep the per-producer numbering consistent: renumber the moved puts in their new order
        k = 0
        for i, o in enumerate(cons[0]):
            if o.startswith("put"):
                k += 1
                cons[0][i] = "put %d" % (9000 + k)
    progs = prods + cons
    return mkcase(cid, kind, progs, src, cap=cap, spur=spur, thr=thr, pre=pre, tag="random")


# ---------------------------------------------------------------------------------- running
class Runner:
    def __init__(self, impl, model):
        self.impl, self.model = impl, model
        self.nimpl = 0

    def run_impl(self, cases, jobs=None):
        outs, crashes = vlib.run_batch_parallel(self.impl, cases, jobs=jobs, timeout=1200)
        self.nimpl += len(cases)
        res = {}
        for c in cases:
            if c.cid in outs:
                res[c.cid] = schedlib.Run(outs[c.cid][1:])
            else:
                r = schedlib.Run([])
                r.crash = "CRASH driver died: %s" % (crashes.get(c.cid, ("?", "", []))[1][-300:],)
                res[c.cid] = r
        return res

    def run_model(self, cases, runs):
        """Feed each case + the implementation's lines to the extracted model."""
        mcases = []
        for c in cases:
            r = runs[c.cid]
            body = [l for l in r.lines if l and l != "end" and not l.startswith("case ")]
            mcases.append(vlib.Case(c.cid, c.header, c.ops + ["trace"] + body))
        outs, crashes = vlib.run_batch_parallel(self.model, mcases, timeout=1200,
                                                pre=["bash", "-c", 'ulimit -s unlimited 2>/dev/null; exec "$0"'])
        res = {}
        for c in cases:
            lines = outs.get(c.cid)
            if lines is None or len(lines) < 2:
                res[c.cid] = "REJECT model runner failed: %r" % (crashes.get(c.cid),)
            else:
                res[c.cid] = lines[1]
        return res


def nontrivial(run):
    """A run is non-trivial when some thread really waited on a condition of the monitor or the
    schedule contains a preemption / injected wake-up."""
    waited = any(t[3] == "wait" and t[5].startswith("m0") for t in run.trace)
    return waited or run.preemptions() > 0 or run.spurious() > 0


def run(chk, replay=None):
    tier, rng = chk.tier, chk.rng
    pr = chk.prove()
    model = vlib.build_model(PROP)
    impl = vlib.build_driver("C14_driver", ["C14_driver.cc"] + schedlib.SOURCES, variant="asan",
                             components=("base",), wrap=schedlib.WRAP)
    R = Runner(impl, model)
    t_start = time.time()
    all_runs = {}          # only the runs that fail the oracle or the trace validation are kept (memory)
    ncases = [0]
    stats = {"systematic_runs": 0, "random_runs": 0, "deadlock_reports": 0, "configs": {}}
    oracle_bad, corr_bad, sigs = [], [], set()
    steps = [0]
    nvalidated = [0]
    phase = {"impl": 0.0, "oracle": 0.0, "model": 0.0}
    nbad = [0]
    ENOUGH = 40           # failing runs after which further exploration adds nothing

    def run_and_absorb(cases):
        """implementation -> oracle -> trace validation by the extracted model, batch by batch"""
        t0 = time.time()
        runs = R.run_impl(cases)
        t1 = time.time()
        msgs = {c.cid: oracle(c, runs[c.cid]) for c in cases}
        t2 = time.time()
        tv = [c for c in cases if not runs[c.cid].steplimit]
        mv = R.run_model(tv, runs)
        t3 = time.time()
        phase["impl"] += t1 - t0
        phase["oracle"] += t2 - t1
        phase["model"] += t3 - t2
        for c in cases:
            r = runs[c.cid]
            ncases[0] += 1
            chk.cov["evaluations"] += 1
            if r.deadlock:
                stats["deadlock_reports"] += 1
            nt = nontrivial(r)
            if nt:
                sigs.add((c.header.split(" sched=")[0], tuple(c.ops), tuple(r.schedule or ())))
            if len(chk.cov["samples"]) < 4 and c.tag == "random" and nt and len(r.trace) < SAMPLE_MAX:
                chk.sample({"case": c.text().split("\n")[:-1], "events": [" ".join(e) for e in r.events][:14],
                            "schedule": r.schedule, "deadlock": r.deadlock})
            keep = False
            if msgs[c.cid] is not None:
                oracle_bad.append((c, msgs[c.cid]))
                nbad[0] += 1
                keep = True
            v = mv.get(c.cid)
            if v is not None:
                nvalidated[0] += 1
                if v.startswith("accepted"):
                    steps[0] += int(v.split()[1])
                else:
                    corr_bad.append((c, v))
                    keep = True
            if keep:
                if r.steplimit and len(r.lines) > 400:      # a livelock trace is long and says nothing more
                    r.lines = r.lines[:100] + ["# ... %d lines omitted ..." % (len(r.lines) - 300)] + r.lines[-200:]
                    r.trace = r.trace[:100] + r.trace[-200:]
                all_runs[c.cid] = r
        return runs

    if replay:
        cases = schedlib.load_cases(replay)
        run_and_absorb(cases)
    else:
        corpus = []
        for f in sorted(glob.glob(os.path.join(vlib.ROOT, "corpus", PROP, "*.case"))):
            for c in schedlib.load_cases(f):
                c.cid = "corpus_" + os.path.basename(f)[:-5] + "_" + c.cid
                corpus.append(c)
        if corpus:
            run_and_absorb(corpus)
        # systematic enumeration under a preemption bound
        bound = 2 if tier == "quick" else 3
        per_cfg = 2500 if tier == "quick" else 40000
        cfgs = small_configs(tier)
        enums = {c[0]: schedlib.Enumerator(bound, per_cfg) for c in cfgs}
        counter = 0
        while any(e.active() for e in enums.values()) and nbad[0] < ENOUGH:
            # one round over all configurations, then up to 7 more over those whose batch was small, so that
            # small configurations reach their deeper levels (more preemptions) as quickly as the large ones
            small = None
            for rep in range(8):
                cases, owners = [], []
                for (name, kind, cap, count, spur, thr, progs, pre) in cfgs:
                    e = enums[name]
                    if not e.active() or (small is not None and name not in small):
                        continue
                    b = e.next_batch(512)
                    cs = []
                    for (p, _) in b:
                        counter += 1
                        cs.append(mkcase("%s_%d" % (name, counter), kind, progs, schedlib.list_source(p),
                                         cap=cap, count=count, spur=spur, thr=thr, pre=pre, tag="systematic"))
                    cases += cs
                    owners.append((e, b, cs, name))
                if not cases:
                    break
                runs = run_and_absorb(cases)
                small = set()
                for (e, b, cs, name) in owners:
                    e.feed(b, [runs[c.cid] for c in cs])
                    if len(b) < 128:
                        small.add(name)
                if not small or nbad[0] >= ENOUGH:
                    break
        for (name, kind, cap, count, spur, thr, progs, pre) in cfgs:
            e = enums[name]
            stats["systematic_runs"] += e.nruns
            stats["configs"][name] = {"runs": e.nruns, "exhaustive_within_bound": e.exhaustive(), "preemption_bound": bound,
                                      "spurious_budget": spur}
        # random programs x random schedules
        nrand = 4000 if tier == "quick" else 100000
        cases = [gen_random_case(rng, "r%d" % i) for i in range(nrand)]
        ndone = 0
        for i in range(0, len(cases), 2000):
            if nbad[0] >= ENOUGH:
                break
            chunk = cases[i:i + 2000]
            run_and_absorb(chunk)
            ndone += len(chunk)
        stats["random_runs"] = ndone
        stats["stopped_early_after_failures"] = nbad[0] >= ENOUGH
    chk.cov["distinct_nontrivial"] = len(sigs)
    chk.cov["rule"] = ("corpus + systematic schedule enumeration (iterative context bounding, every schedule with <= N preemptions "
                       "of each small configuration, within a per-configuration budget) + random programs (1-4 producers/consumers, "
                       "capacity 1-3, <= 10 ops, latch counts 0-3) under seeded random schedules with injected spurious wake-ups; "
                       "non-trivial = a thread really waited on the monitor's condition, or the schedule has a preemption / "
                       "spurious wake-up; distinct by (configuration, programs, realised choice list)")
    chk.cov["schedule_stats"] = stats
    chk.cov["model_steps_validated"] = steps[0]
    chk.cov["traces_validated_against_impl"] = nvalidated[0] - len(corr_bad)
    chk.cov["phase_s"] = {k: round(v, 1) for k, v in phase.items()}
    chk.add_obligation("trace validation: every step of BlockingQueue/BoundedBlockingQueue/CountDownLatch under the controlled "
                       "scheduler is accepted by the extracted Conc_Model.step with the same results and observers", not corr_bad)
    chk.add_obligation("oracle: exactly-once/FIFO/per-producer order/bound/holder_/no stuck waiter on the implementation's event log",
                       not oracle_bad)
    chk.trusted("extraction: ExtrOcamlBasic only; extract/util.ml + extract/C14_driver.ml (maps trace lines to model labels)",
                "harness/sched.cc (cooperative scheduler; -Wl,--wrap interposition of pthread_mutex_*/pthread_cond_*/pthread_create/"
                "pthread_join; virtual mutex ownership and wait sets), harness/C14_driver.cc (#define private public for observers)",
                "sequential consistency; code between two wrapped calls is atomic; exactly one waiter per pthread_cond_signal "
                "(+ injected spurious wake-ups), all per broadcast",
                "std::deque, boost::circular_buffer, fairness of the real pthread implementation (not modelled)")

    def fails_with(c, pred):
        def f(sched):
            cc = vlib.Case("s", schedlib.set_source(c.header, schedlib.list_source(sched)), c.ops)
            rr = R.run_impl([cc], jobs=1)["s"]
            return pred(cc, rr)
        return f

    if oracle_bad:
        c, msg = oracle_bad[0]
        # prefer the failing case with the shortest realised schedule
        c, msg = min(oracle_bad, key=lambda cm: (len(all_runs[cm[0].cid].trace), cm[0].cid))
        r = all_runs[c.cid]
        realised = r.schedule if r.schedule is not None else [ch[1] for ch in r.choices]
        f = fails_with(c, lambda cc, rr: oracle(cc, rr) is not None)
        small, rr = c, r
        if f(realised):
            sched = schedlib.shrink_schedule(realised, f)
            cand = vlib.Case(c.cid, schedlib.set_source(c.header, schedlib.list_source(sched)), c.ops)
            rr2 = R.run_impl([cand], jobs=1)[cand.cid]
            if oracle(cand, rr2) is not None:
                small, rr = cand, rr2
        msg2 = oracle(small, rr) or msg
        p = schedlib.write_replay(chk, "oracle_%s.case" % c.cid, "C14 violated on the implementation: %s\n%s" % (
            msg2, "\n".join(rr.lines[-40:])), small.text())
        chk.violation(p, "C14 fails on the implementation: %s (%d of %d runs fail)" % (msg2, len(oracle_bad), ncases[0]))
    elif corr_bad or not pr["ok"]:
        what = []
        body = ""
        if not pr["ok"]:
            what.append("proof obligation(s) no longer check: %s %s" % (pr["broken"], pr["problems"]))
        if corr_bad:
            c, v = min(corr_bad, key=lambda cv: (len(all_runs[cv[0].cid].trace), cv[0].cid))
            r = all_runs[c.cid]

            def pred(cc, rr):
                return not R.run_model([cc], {cc.cid: rr})[cc.cid].startswith("accepted")
            realised = r.schedule if r.schedule is not None else [ch[1] for ch in r.choices]
            f = fails_with(c, pred)
            small, rr = c, r
            if f(realised):
                sched = schedlib.shrink_schedule(realised, f, max_tests=80)
                cand = vlib.Case(c.cid, schedlib.set_source(c.header, schedlib.list_source(sched)), c.ops)
                rr2 = R.run_impl([cand], jobs=1)[cand.cid]
                if pred(cand, rr2):
                    small, rr = cand, rr2
            v2 = R.run_model([small], {small.cid: rr})[small.cid]
            what.append("trace validation C14_Model vs the real class broken: %s (%d of %d traces rejected); the oracle holds on all runs"
                        % (v2 if not v2.startswith("accepted") else v, len(corr_bad), ncases[0]))
            body = small.text() + "".join("# " + l + "\n" for l in rr.lines[-40:])
        p = chk.write_replay("broken_obligation.txt", "\n".join("# " + w for w in what) + "\n" + body +
                             ("\n--- coq log tail ---\n" + pr["log"][-3000:] if not pr["ok"] else ""))
        chk.violation(p, "; ".join(what), no_input=True)
    return chk.finish(level="proof", assumptions=[
        "pthread_cond_signal releases at least one waiter if any, broadcast all, spurious wake-ups allowed (3.4)",
        "the model is tied to the code by trace validation under a controlled scheduler (testing), not by a verified C++ semantics",
        "liveness under the real OS scheduler (fairness) is not claimed"])
