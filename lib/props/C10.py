"""C10: Buffer is an unbounded FIFO byte queue with a prepend area.
proof (Properties_C10.v over C10_Model.v) + correspondence of the extracted model with the real
muduo::net::Buffer (ASan/UBSan, asserts on) + an independent FIFO oracle on the implementation."""
import os, re, sys, glob
import vlib

import zlib


def fnv(b):
    return "%08x" % (zlib.crc32(b) & 0xffffffff)


_spec_cache = {}


def bytes_of_spec(s):
    if s in _spec_cache:
        return _spec_cache[s]
    r = _bytes_of_spec(s)
    if len(_spec_cache) < 20000:
        _spec_cache[s] = r
    return r


def _bytes_of_spec(s):
    if s == "-":
        return b""
    if s.startswith("@"):
        ln, seed = s[1:].split(":")
        x = (int(seed) & 0xffffffff) | 1
        out = bytearray()
        for _ in range(int(ln)):
            x ^= (x << 13) & 0xffffffff
            x ^= x >> 17
            x ^= (x << 5) & 0xffffffff
            out.append(x & 255)
        return bytes(out)
    return bytes.fromhex(s)


LINE = re.compile(r"^(ok|rejected) (\S+) r=(\d+) w=(\d+) p=(\d+) h=(\w+)$")
CASE = re.compile(r"^case (\S+) r=(\d+) w=(\d+) p=(\d+) h=(\w+)$")


def precondition(op, r, w, p):
    """The documented precondition of an op (the asserts on its arguments, Buffer.h), from the
    public size observers before the op."""
    t = op.split()
    k = t[0]
    if k == "P":
        return len(bytes_of_spec(t[1])) <= p
    if k == "PI":
        return int(t[1]) <= p
    if k in ("R", "RS", "UW", "KI", "RI", "RN"):
        return int(t[1]) <= r
    if k == "HW":
        return len(bytes_of_spec(t[1])) <= w
    if k in ("RU", "FC", "FE"):
        return 0 <= int(t[1]) <= r
    return True


def oracle(case, lines, extrabuf=65536, cheap=8):
    """The property itself, evaluated on the implementation's output: returns None or
    (op index, message).  Independent of the Coq model (plain Python byte strings)."""
    m = CASE.match(lines[0])
    if not m:
        return (0, "bad case line " + lines[0])
    content, other = b"", b""
    r_prev, w_prev, p_prev = int(m.group(2)), int(m.group(3)), int(m.group(4))
    prep = [False, False]      # has the caller used the prepend area of (first, second) buffer
    if r_prev != 0 or p_prev < cheap:
        return (0, "fresh buffer: readable!=0 or prependable<%d" % cheap)
    if w_prev != int(case.header.split()[0]) or p_prev != cheap:
        return (0, "fresh buffer: writable != initial size or prependable != kCheapPrepend")
    for i, op in enumerate(case.ops):
        if i + 1 >= len(lines):
            return (i, "missing output")
        mm = LINE.match(lines[i + 1])
        if not mm:
            return (i, "unparsable output %r" % lines[i + 1])
        status, out, r, w, p, h = mm.group(1), mm.group(2), int(mm.group(3)), int(mm.group(4)), int(mm.group(5)), mm.group(6)
        t = op.split()
        k = t[0]
        exp_out = "-"
        pre = precondition(op, r_prev, w_prev, p_prev)
        if (status == "ok") != pre:
            how = {"noassert": "accepted by the real class (no assert fired on the violating call)",
                   "-": "rejected"}.get(out, "rejected (%s)" % out if status == "rejected" else "ok")
            return (i, "op %r was %s although its documented precondition %s (r=%d w=%d p=%d before)"
                    % (op, how, "holds" if pre else "fails", r_prev, w_prev, p_prev))
        if status == "rejected":
            # a rejected op must leave everything unchanged
            if (r, w, p) != (r_prev, w_prev, p_prev) or h != fnv(content):
                return (i, "rejected op changed the buffer")
            continue
        unchanged = False
        if k == "A":
            content += bytes_of_spec(t[1])
        elif k == "P":
            content = bytes_of_spec(t[1]) + content
            prep[0] = True
        elif k == "R":
            content = content[int(t[1]):]
        elif k == "RU":
            content = content[int(t[1]):]
        elif k == "RN":
            content = content[int(t[1]):]
        elif k == "RA":
            content = b""
        elif k == "RS":
            n = int(t[1])
            exp_out = "b:%s:%d" % (fnv(content[:n]), n)
            content = content[n:]
        elif k == "RAS":
            exp_out = "b:%s:%d" % (fnv(content), len(content))
            content = b""
        elif k == "TS":
            exp_out = "b:%s:%d" % (fnv(content), len(content))
            unchanged = True
        elif k == "IC":
            exp_out = str(p + r + w)       # capacity() >= size() = prependable + readable + writable
            unchanged = True
        elif k in ("EW", "SH"):
            pass
        elif k == "HW":
            content += bytes_of_spec(t[1])
        elif k == "UW":
            content = content[:len(content) - int(t[1])]
        elif k == "SW":
            content, other = other, content
            prep.reverse()
        elif k == "AS":
            other = content
            prep[1] = prep[0]
            unchanged = True
        elif k == "RF":
            avail = bytes_of_spec(t[1])
            cnt = 2 if w_prev < extrabuf else 1
            cap = w_prev + extrabuf if cnt == 2 else w_prev
            n = min(len(avail), cap)
            exp_out = "rd:%d:%d:%d:-:cap=%d" % (n, cnt, w_prev, cap)
            content += avail[:n]
        elif k == "RF2":
            # both buffers read their own descriptor at the same time (two threads): each gets exactly ITS bytes
            a2, b2 = bytes_of_spec(t[1]), bytes_of_spec(t[2])
            cap1 = w_prev + extrabuf if w_prev < extrabuf else w_prev
            n1 = min(len(a2), cap1)
            content += a2[:n1]
            f = out.split(":")
            if f[0] != "rd2" or len(f) != 5:
                return (i, "unparsable RF2 result %r" % out)
            n2 = int(f[2])
            if int(f[1]) != n1:
                return (i, "concurrent readFd on two buffers: buffer 1 returned %s, its descriptor delivered %d bytes" % (f[1], n1))
            if n2 > len(b2) or n2 < 0:
                return (i, "concurrent readFd on two buffers: buffer 2 returned %d, its descriptor had %d bytes" % (n2, len(b2)))
            other += b2[:n2]
            if int(f[3]) != len(other) or f[4] != fnv(other):
                return (i, "two buffers read their own descriptors at the same time (two threads, both reads spill into extrabuf): the "
                           "readable content of buffer 2 is not the bytes delivered by ITS descriptor (%d bytes expected, %s readable, "
                           "content differs: %s) -- readFd must append exactly the bytes the descriptor delivered" %
                        (len(other), f[3], f[4] != fnv(other)))
            exp_out = out
            if h != fnv(content):
                return (i, "two buffers read their own descriptors at the same time (two threads, both reads spill into extrabuf): the "
                           "readable content of buffer 1 is not the bytes delivered by ITS descriptor (%d bytes) -- readFd must append "
                           "exactly the bytes the descriptor delivered" % len(content))
        elif k == "RFE":
            cnt = 2 if w_prev < extrabuf else 1
            cap = w_prev + extrabuf if cnt == 2 else w_prev
            exp_out = "rd:-1:%d:%d:%d:cap=%d" % (cnt, w_prev, int(t[1]), cap)
            unchanged = True
        elif k in ("AI", "PI"):
            kk, x = int(t[1]), int(t[2])
            enc = (x % (1 << (8 * kk))).to_bytes(kk, "big")
            if k == "AI":
                content += enc
            else:
                content = enc + content
                prep[0] = True
        elif k in ("KI", "RI"):
            kk = int(t[1])
            exp_out = "i:%d" % int.from_bytes(content[:kk], "big", signed=True)
            if k == "RI":
                content = content[kk:]
            else:
                unchanged = True
        elif k in ("FC", "FE", "FC0", "FE0"):
            fr = int(t[1]) if len(t) > 1 else 0
            pos = content.find(b"\r\n" if k.startswith("FC") else b"\n", fr)
            exp_out = "none" if pos < 0 else "at:%d" % pos
            unchanged = True
        else:
            return (i, "oracle does not know op %r" % op)
        if out != exp_out:
            return (i, "op %r returned %s, FIFO semantics require %s" % (op, out, exp_out))
        if r != len(content):
            return (i, "after %r readableBytes=%d, FIFO content has %d bytes" % (op, r, len(content)))
        if h != fnv(content):
            return (i, "after %r the readable content differs from the FIFO content (%d bytes)" % (op, r))
        if unchanged and (r, w, p) != (r_prev, w_prev, p_prev):
            return (i, "observer / failed read %r changed the sizes: r,w,p %s -> %s" % (op, (r_prev, w_prev, p_prev), (r, w, p)))
        if k == "SH" and (w < int(t[1]) or p != cheap):
            return (i, "shrink(%s) left writableBytes=%d prependableBytes=%d" % (t[1], w, p))
        if k == "EW" and w < int(t[1]):
            return (i, "ensureWritableBytes(%s) left writableBytes=%d" % (t[1], w))
        if not prep[0] and p < cheap:
            return (i, "prependableBytes=%d < %d although the caller never prepended" % (p, cheap))
        r_prev, w_prev, p_prev = r, w, p
    return None


# ---------------------------------------------------------------- generators
SIZES_SMALL = [0, 1, 2, 7, 8, 9, 15, 16, 17, 24, 25, 33]


def alphabet():
    ops = []
    for n in [0, 1, 8, 9, 17, 33]:
        ops.append("A @%d:%d" % (n, n + 3))
    for n in [1, 4, 8, 9]:
        ops.append("P @%d:%d" % (n, n + 11))
    for n in [0, 1, 7, 9, 17]:
        ops.append("R %d" % n)
    ops += ["RA", "RS 3", "RS 16", "EW 0", "EW 9", "EW 25", "EW 64", "HW @5:9", "HW @24:2", "UW 1", "UW 8",
            "SH 0", "SH 7", "SW", "RF -", "RF @7:5", "RF @40:6", "AI 4 -2", "AI 8 1311768467294899695",
            "PI 2 -32768", "PI 8 -1", "KI 4", "RI 2", "RI 8", "FC 0", "FC 3", "FE 0", "FE 2", "A 0d0a", "A 0a0d0a",
            "RU 0", "RU 3", "RU -1", "RN 4", "RN 1", "RAS", "TS", "IC", "AS", "RFE 11", "RFE 9", "FC0", "FE0", "FC -1", "KI 1", "AI 1 -128"]
    return ops


def gen_boundary():
    """Deterministic cases at the case-split boundaries of the proofs that the small alphabet cannot reach:
    readFd's iovec choice (writable = sizeof extrabuf - 1, =, + 1) with amounts at / around the writable space and the
    offered capacity, a failed read in both iovec configurations, makeSpace's grow-vs-compact test at equality,
    ensureWritableBytes / hasWritten / retrieve / retrieveUntil / the pointer asserts at equality."""
    cases = []
    n = 0
    for init in (65535, 65536, 65537):
        cap = init + 65536 if init < 65536 else init
        for amount in (0, 1, init - 1, init, init + 1, cap - 1, cap, cap + 1):
            n += 1
            cases.append(vlib.Case("b%d" % n, "%d 0" % init, ["RF @%d:%d" % (amount, 7 + n), "IC", "TS", "RFE 11", "RF @3:5"], "boundary-readfd"))
    # makeSpace: writable + prependable == len + kCheapPrepend exactly (compact), one more (grow), one less
    for k in (-1, 0, 1):
        n += 1
        cases.append(vlib.Case("b%d" % n, "16 0", ["A @12:3", "R 8", "EW %d" % (12 + 8 + k), "A @5:9", "TS"], "boundary-makespace"))
        n += 1
        cases.append(vlib.Case("b%d" % n, "16 0", ["A @12:3", "RN 8", "A @%d:4" % (12 + 8 + k), "RAS"], "boundary-makespace"))
    # exact preconditions: equality accepted, one beyond rejected
    for r in (0, 1, 8):
        n += 1
        ops = ["A @%d:6" % r] if r else []
        cases.append(vlib.Case("b%d" % n, "8 0", ops + ["RU %d" % r, "RU 0", "RU 1", "FC %d" % 0, "FE 0", "FC 1", "FE -1", "UW 0", "UW 1",
                                                         "HW @8:1", "HW @1:2", "PI 8 -1", "PI 1 5", "P @1:1", "KI 1", "RI 1", "RN 1"], "boundary-preconditions"))
    # two buffers on two threads, both reads spill into readFd's extrabuf at the same time (rendezvous in the readv wrapper);
    # different byte patterns; then the contents are looked at again, swapped, retrieved
    for (i1, i2, n1, n2) in ((0, 0, 100, 100), (8, 16, 300, 70000), (16, 8, 65536 + 16, 65536 + 8), (1024, 0, 5000, 1), (0, 1024, 66000, 3000),
                             (24, 24, 24, 200)):
        n += 1
        cases.append(vlib.Case("b%d" % n, "%d %d" % (i1, i2), ["A @5:77", "RF2 @%d:%d @%d:%d" % (n1, 1000 + n, n2, 2000 + n), "TS", "SW", "TS",
                                                               "RF2 @%d:%d @%d:%d" % (n2 // 2 + 40, 3000 + n, n1 // 2 + 40, 4000 + n), "RAS", "SW", "RAS"],
                               "boundary-two-thread-spill"))
    n += 1
    cases.append(vlib.Case("b%d" % n, "8 0", ["A 0d", "FC0", "A 0a", "FC0", "FC 1", "FC 2", "FC 3", "FE0", "FE 1", "FE 2", "RU 2", "FC0", "FE0"], "boundary-find"))
    return cases


def gen_exhaustive(depth, inits, limit=None, rng=None):
    import itertools
    al = alphabet()
    n = 0
    for (i1, i2) in inits:
        prod = itertools.product(al, repeat=depth)
        for ops in prod:
            if limit is not None and rng.random() > limit:
                continue
            n += 1
            yield vlib.Case("x%d_%d_%d" % (depth, i1, n), "%d %d" % (i1, i2), ops, "exhaustive-depth-%d" % depth)


BOUNDARY = [0, 1, 7, 8, 9, 1015, 1016, 1017, 1023, 1024, 1025, 1031, 1032, 1033] * 6 + [65535, 65536, 65537]


def gen_random(rng, count, maxlen, model, prefix="r"):
    """Adaptive random sequences: sizes are chosen relative to the *current* readable /
    writable / prependable sizes (obtained from the model coprocess), which is where the
    case splits of the proofs are (makeSpace grow vs compact, retrieve all vs part,
    readFd spill, prepend exactly the available space)."""
    stats = {}
    for ci in range(count):
        # 65535/65536/65537: the iovcnt test of readFd (writable < sizeof extrabuf) on a fresh buffer
        i1 = rng.choice([0, 1, 8, 16, 24, 40, 64, 100] * 10 + [1024] * 10 + [70000] * 2 + [65535, 65536, 65537])
        i2 = rng.choice([0, 16, 1024])
        model.send("case %s%d %d %d" % (prefix, ci, i1, i2))
        st = model.state()
        ops = []
        mlines = [model.last]
        ln = rng.randint(1, maxlen)
        for _ in range(ln):
            r, w, p = st
            def near(x):
                c = [x, x, x + 1, max(0, x - 1), x // 2, 0, 1, rng.choice(BOUNDARY), rng.randint(0, max(1, 2 * x + 8))]
                return max(0, rng.choice(c))
            kind = rng.choice(["A", "A", "A", "P", "R", "R", "RA", "RS", "EW", "HW", "UW", "SH", "SW", "RF", "RF",
                               "AI", "PI", "KI", "RI", "FC", "FE", "CRLF", "RU", "RN", "RAS", "TS", "IC", "AS", "RFE",
                               "FC0", "FE0"])
            if kind == "A":
                n = rng.choice([near(w), near(w + p - 8), rng.choice(BOUNDARY), rng.randint(0, 64)])
                op = "A @%d:%d" % (n, rng.randint(1, 1 << 30))
            elif kind == "P":
                op = "P @%d:%d" % (near(p), rng.randint(1, 1 << 30))
            elif kind in ("R", "RS", "UW"):
                op = "%s %d" % (kind, near(r))
            elif kind == "RU":
                op = "RU %d" % rng.choice([near(r), near(r), -1, 0, r, r + 1])
            elif kind == "RN":
                op = "RN %d" % rng.choice([1, 2, 4, 8])
            elif kind in ("RA", "RAS", "TS", "IC", "AS", "FC0", "FE0"):
                op = kind
            elif kind == "RFE":
                op = "RFE %d" % rng.choice([11, 9, 4, 104])
            elif kind == "EW":
                # w + p - 8 is exactly the grow-vs-compact boundary of makeSpace; w the boundary of ensureWritableBytes
                op = "EW %d" % rng.choice([near(w), w + 1, w + p - 8 if w + p >= 8 else 0, w + p - 7 if w + p >= 7 else 0,
                                           near(w + p - 8), near(w + p), rng.choice(BOUNDARY)])
            elif kind == "HW":
                op = "HW @%d:%d" % (near(w), rng.randint(1, 1 << 30))
            elif kind == "SH":
                op = "SH %d" % rng.choice([0, 1, 8, near(1024 - r), rng.randint(0, 3000)])
            elif kind == "SW":
                op = "SW"
            elif kind == "RF":
                cap = w + 65536 if w < 65536 else w
                n = rng.choice([0, 1, near(w), near(w), w, w + 1, cap, cap + 1, max(0, cap - 1), near(w + 65535), rng.randint(0, 200)])
                n = min(n, 300000)
                op = "RF @%d:%d" % (n, rng.randint(1, 1 << 30))
            elif kind in ("AI", "PI"):
                k = rng.choice([1, 2, 4, 8])
                lim = 1 << (8 * k - 1)
                x = rng.choice([0, 1, -1, lim - 1, -lim, lim // 2, rng.randint(-lim, lim - 1)])
                op = "%s %d %d" % (kind, k, x)
            elif kind in ("KI", "RI"):
                op = "%s %d" % (kind, rng.choice([1, 2, 4, 8]))
            elif kind in ("FC", "FE"):
                op = "%s %d" % (kind, rng.choice([near(r), near(r), 0, 0, -1, r, r + 1, max(0, r - 1)]))
            else:
                op = "A " + rng.choice(["0d0a", "0a", "0d", "410d0a42", "0d0d0a", "0a0d"])
            ops.append(op)
            model.send(op)
            ln_out = model.readline()
            mlines.append(ln_out)
            mm = LINE.match(ln_out)
            if mm:
                st = (int(mm.group(3)), int(mm.group(4)), int(mm.group(5)))
            stats[kind] = stats.get(kind, 0) + 1
        model.send("end")
        mlines.append(model.readline())
        MODEL_LINES["%s%d" % (prefix, ci)] = mlines     # the model's own trace of this case: not run a second time
        yield vlib.Case("%s%d" % (prefix, ci), "%d %d" % (i1, i2), ops, "random-adaptive")
    st0 = getattr(gen_random, "stats", {})
    for k, v in stats.items():
        st0[k] = st0.get(k, 0) + v
    gen_random.stats = st0


MODEL_LINES = {}


class ModelProc:
    def __init__(self, exe):
        import subprocess
        self.p = subprocess.Popen(["bash", "-c", "ulimit -s unlimited 2>/dev/null; exec " + exe], stdin=subprocess.PIPE,
                                  stdout=subprocess.PIPE, bufsize=0)
        self.last = None

    def send(self, line):
        self.p.stdin.write((line + "\n").encode())
        self.p.stdin.flush()
        if line.startswith("case "):
            self.last = self.readline()

    def readline(self):
        return self.p.stdout.readline().decode().rstrip("\n")

    def state(self):
        m = CASE.match(self.last)
        return (int(m.group(2)), int(m.group(3)), int(m.group(4)))

    def close(self):
        try:
            self.p.stdin.close()
            self.p.wait(timeout=10)
        except Exception:
            self.p.kill()


def load_corpus(prop):
    cases = []
    for f in sorted(glob.glob(os.path.join(vlib.ROOT, "corpus", prop, "*.case"))):
        cid, header, ops = None, "", []
        for line in open(f):
            line = line.rstrip("\n")
            if not line or line.startswith("#"):
                continue
            if line.startswith("case "):
                t = line.split()
                cid, header, ops = "corpus_" + os.path.basename(f)[:-5], " ".join(t[2:]), []
            elif line == "end":
                cases.append(vlib.Case(cid, header, ops, "corpus"))
            else:
                ops.append(line)
    return cases


def nontrivial_signature(case, lines):
    """A case is non-trivial when it reaches at least one of: compaction or growth (writable
    changes on A/EW/HW while content kept), readFd spill (RF returning more than the writable
    space before it), a prepend, retrieve-all reset via partial ops.  Signature = op kinds + events."""
    ev = set()
    prev_w = None
    m = CASE.match(lines[0])
    if m:
        prev_w = int(m.group(3))
    for op, ln in zip(case.ops, lines[1:]):
        mm = LINE.match(ln)
        if not mm:
            continue
        w = int(mm.group(4))
        k = op.split()[0]
        if k in ("A", "EW", "HW", "AI") and prev_w is not None and w > prev_w:
            ev.add("space-made")
        if k in ("RF", "RFE") and mm.group(2).startswith("rd:"):
            f = mm.group(2).split(":")
            if prev_w is not None and int(f[1]) > prev_w:
                ev.add("spill")
            if f[2] == "1":
                ev.add("single-iovec")
            if k == "RFE":
                ev.add("read-error")
        if k in ("P", "PI") and mm.group(1) == "ok":
            ev.add("prepend")
        if mm.group(1) == "rejected":
            ev.add("rejected")
        prev_w = w
    return ev


def run(chk, replay=None):
    tier, rng = chk.tier, chk.rng
    pr = chk.prove()
    model = vlib.build_model("C10")
    impl = vlib.build_driver("C10_driver", ["C10_driver.cc"], variant="asan", wrap=["readv", "__assert_fail"])
    consts = open(os.path.join(vlib.COQ, "Gen_Consts.v")).read()
    def cget(n, d):
        m = re.search(r"Definition %s : Z := \((-?\d+)\)" % n, consts)
        return int(m.group(1)) if m else d
    extrabuf, cheap = cget("Buffer_extrabuf_size", 65536), cget("Buffer_kCheapPrepend", 8)

    cases = []
    if replay:
        cases = load_corpus_file(replay)
    else:
        cases += load_corpus("C10")
        cases += gen_boundary()
        if tier == "quick":
            cases += list(gen_exhaustive(2, [(16, 0), (0, 0)]))
            cases += list(gen_exhaustive(3, [(16, 8)], limit=0.015, rng=rng))
            nrand, maxlen = 1080, 30
        else:
            cases += list(gen_exhaustive(2, [(16, 0), (0, 0), (1, 1), (1024, 16)]))
            cases += list(gen_exhaustive(3, [(16, 8)]))
            cases += list(gen_exhaustive(3, [(0, 0)], limit=0.25, rng=rng))
            nrand, maxlen = 12000, 80
        import random as _r
        from concurrent.futures import ThreadPoolExecutor
        nw = 12
        seeds = [rng.randrange(1 << 30) for _ in range(nw)]
        def work(i):
            mp = ModelProc(model)
            try:
                return list(gen_random(_r.Random(seeds[i]), nrand // nw, maxlen, mp, prefix="r%d_" % i))
            finally:
                mp.close()
        with ThreadPoolExecutor(max_workers=nw) as ex:
            for lst in ex.map(work, range(nw)):
                cases += lst
    chk.cov["generator_histogram"] = getattr(gen_random, "stats", {})

    import time
    t1 = time.time()
    impl_out, crashes = vlib.run_batch_parallel(impl, cases, timeout=3000)
    t2 = time.time()
    model_out, mcrashes = vlib.run_batch_parallel(model, [c for c in cases if c.cid not in MODEL_LINES], timeout=3000,
                                                  pre=["bash", "-c", 'ulimit -s unlimited 2>/dev/null; exec "$0"'])
    model_out.update(MODEL_LINES)

    t3 = time.time()
    chk.cov["phase_s"] = {"generate": round(t1 - chk.t0 - pr["wall_s"], 1), "impl": round(t2 - t1, 1), "model": round(t3 - t2, 1)}
    corr_bad, oracle_bad = [], []
    sigs = set()
    for c in cases:
        chk.cov["evaluations"] += 1
        if c.cid in crashes:
            rc, se, partial = crashes[c.cid]
            oracle_bad.append((c, len(partial), "implementation crashed (rc=%s): %s" % (rc, se[-800:])))
            continue
        li = impl_out.get(c.cid)
        lm = model_out.get(c.cid)
        if li is None:
            oracle_bad.append((c, 0, "no implementation output"))
            continue
        o = oracle(c, li, extrabuf, cheap)
        if o is not None:
            oracle_bad.append((c, o[0], o[1]))
        if lm is None or li != lm:
            idx = next((i for i in range(min(len(li), len(lm or []))) if li[i] != lm[i]), 0)
            corr_bad.append((c, idx, "impl %r vs model %r" % (li[idx] if idx < len(li) else None, (lm or [None])[idx] if lm and idx < len(lm) else None)))
        if lm and any(l == "FAULT" for l in lm):
            corr_bad.append((c, 0, "model reports FAULT (out-of-bounds access in the model)"))
        ev = nontrivial_signature(c, li)
        if ev:
            sigs.add((tuple(op.split()[0] for op in c.ops), tuple(sorted(ev)), tuple(li[-2:-1])))
        if len(chk.cov["samples"]) < 4 and ev and c.tag.startswith("random") and len(c.ops) <= 12:
            chk.sample({"case": c.text().split("\n")[:-1], "impl_last": li[-2] if len(li) > 1 else "", "events": sorted(ev)})
    chk.cov["distinct_nontrivial"] = len(sigs)
    chk.cov["rule"] = ("corpus + exhaustive op sequences over a %d-op boundary alphabet + adaptive random sequences (sizes relative to "
                       "current readable/writable/prependable); non-trivial = reaches makeSpace (grow or compact), the readFd spill, the "
                       "single-iovec readFd, a failed readv, a prepend or a rejected precondition; distinct by (op-kind sequence, events, final observer line)" % len(alphabet()))
    chk.cov["traces_validated_against_impl"] = len(cases) - len(corr_bad)
    chk.add_obligation("correspondence: extracted C10_Model.step_c == muduo::net::Buffer on every case (all observers after every op; "
                       "the real class asserts exactly when the model rejects, violating calls included)", not corr_bad)
    chk.add_obligation("oracle: FIFO semantics + precondition equivalence (an op is refused by the real class's assert iff its documented "
                       "precondition fails) on the implementation's own outputs", not oracle_bad)
    nviol = sum(1 for c in cases for l in (impl_out.get(c.cid) or []) if l.startswith("rejected "))
    chk.cov["violating_calls_issued_on_the_real_class"] = nviol
    chk.trusted("extraction: ExtrOcamlBasic only; extract/util.ml + extract/C10_driver.ml (OCaml 4.13.1)",
                "harness/C10_driver.cc (__assert_fail interposed with -Wl,--wrap: precondition-violating calls are issued on a heap copy "
                "of the buffer and the REAL class's assert decides 'rejected' / 'ok noassert'; the driver's own test of the precondition "
                "only chooses between the buffer and the copy), pipe(2)+readv for readFd, "
                "readv interposed with -Wl,--wrap to record the offered iovecs and to inject errno",
                "translators lib/gen_consts.py (kCheapPrepend/kInitialSize/extrabuf size) and lib/gen_C10.py (if / assert conditions, "
                "assignments to readerIndex_/writerIndex_/iov_len, integer returns of the size observers, integer arguments of member "
                "calls, memchr/memcpy/string lengths, constructor initialisers, narrowing integer casts -- as functions over a record of "
                "NAMED observables; not generated: std::copy/std::search ranges, the ?: of findCRLF, iov_base, swaps) over the clang 14 "
                "JSON AST; lib/cxxast.py",
                "std::vector growth, memcpy/std::copy/std::search/memchr themselves (ASan watches their ranges)")

    def shrink(c, pred):
        def fails(ops):
            cc = vlib.Case("s", c.header, ops)
            io, cr = vlib.run_batch(impl, [cc], timeout=120)
            if "s" in cr:
                return pred(cc, None, cr["s"])
            mo, _ = vlib.run_batch(model, [cc], timeout=120)
            return pred(cc, io.get("s"), mo.get("s"))
        ops = vlib.ddmin(c.ops, fails, max_tests=150)
        return vlib.Case(c.cid, c.header, ops)

    if oracle_bad:
        c, idx, msg = oracle_bad[0]
        def pred(cc, li, lm):
            if li is None:
                return True
            return oracle(cc, li, extrabuf, cheap) is not None
        small = shrink(c, pred)
        p = chk.write_replay("oracle_%s.case" % c.cid, "# %s\n" % msg.replace("\n", "\n# ") + small.text())
        also = ""
        if not pr["ok"]:
            also = "; ALSO proof obligation(s) no longer check: %s %s" % (pr["broken"], pr["problems"])
        if corr_bad:
            also += "; ALSO model != implementation on %d cases" % len(corr_bad)
        chk.violation(p, "C10 fails on the implementation: %s (%d failing cases)%s" % (msg, len(oracle_bad), also))
    elif corr_bad or not pr["ok"]:
        what = []
        if not pr["ok"]:
            what.append("proof obligation(s) no longer check: %s %s" % (pr["broken"], pr["problems"]))
        if corr_bad:
            c, idx, msg = corr_bad[0]
            def pred(cc, li, lm):
                return li != lm
            small = shrink(c, pred)
            what.append("correspondence C10_Model vs Buffer broken at op %d of case below (%s); the FIFO oracle holds on all %d cases"
                        % (idx, msg, len(cases)))
            body = small.text()
        else:
            body = ""
        p = chk.write_replay("broken_obligation.txt", "\n".join("# " + w for w in what) + "\n" + body +
                             ("\n--- coq log tail ---\n" + pr["log"][-3000:] if not pr["ok"] else ""))
        chk.violation(p, "; ".join(what), no_input=True)
    return chk.finish(level="proof", assumptions=[
        "pipe/readv delivers min(available, iovec capacity) bytes in iovec order (3.4)",
        "the model is tied to the code by differential execution (testing), not by a verified C++ semantics"])


def load_corpus_file(path):
    cases, cid, header, ops = [], None, "", []
    for line in open(path):
        line = line.rstrip("\n")
        if not line or line.startswith("#"):
            continue
        if line.startswith("case "):
            t = line.split()
            cid, header, ops = t[1], " ".join(t[2:]), []
        elif line == "end":
            cases.append(vlib.Case(cid, header, ops, "replay"))
        elif line.startswith("---"):
            break
        else:
            ops.append(line)
    return cases
