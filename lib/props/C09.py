"""C09: the loop calls exactly the ready, subscribed channels -- same under epoll and poll.
proof (Properties_C09.v over C09_Model.v: both back-ends of the current tree refine the interest map for
all histories meeting the Channel API preconditions, dispatch / tie guard / growth guard as functions
translated from the AST, one EventLoop::loop() iteration, wake-up drain) + correspondence of the extracted
model with the real EPollPoller / PollPoller / Channel / EventLoop::loop() on real descriptors (ASan/UBSan,
asserts on) + an independent oracle (the property text) evaluated on the implementation's output + a
free-running loop scenario (blocks instead of spinning).  F-1 and F-14 are fixed in /repo.  Deviations from the
property TEXT that the faithful model also has are findings matched by signature: F-23 (key
removeChannel-assert-address-reuse) and the dispatch from the poll-time snapshot (key stale-dispatch-within-batch:
a callback that runs although an earlier callback of the SAME iteration disabled / removed its channel or the
condition it is for; review B-1).  A channel called in an iteration whose poll did not legitimately report it is
a VIOLATION whatever KNOWN_FINDINGS.txt says."""
import os, re, sys, glob, itertools, math
import vlib

IN, PRI, OUT, ERR, HUP, NVAL, RDHUP = 1, 2, 4, 8, 16, 32, 8192
EHN = ERR | HUP | NVAL
KREAD, KWRITE = IN | PRI, OUT
UPD = {"ER": lambda e: e | KREAD, "DR": lambda e: e & ~KREAD, "EW": lambda e: e | KWRITE,
       "DW": lambda e: e & ~KWRITE, "DA": lambda e: 0}
ENVOPS = ("open", "wr", "drain", "hc", "pc", "fill", "unfill", "close")

KEY_F1 = "F1.poll-update-after-remove"
KEY_F14 = "F14.empty-interest-registered"
KEY_REUSE = "removeChannel-assert-address-reuse"
KEY_STALE = "stale-dispatch-within-batch"


def gen_defined(name):
    try:
        txt = open(os.path.join(vlib.COQ, "Gen_C09.v")).read()
    except OSError:
        return False
    return re.search(r"^Definition %s\b" % name, txt, re.M) is not None


def gen_fact(name, default=None):
    try:
        txt = open(os.path.join(vlib.COQ, "Gen_C09.v")).read()
    except OSError:
        return default
    m = re.search(r"Definition %s : \w+ := \(?(\w+)\)?" % name, txt)
    return m.group(1) if m else default


# ------------------------------------------------------------------ descriptor (kernel) predictor
class Descs:
    """What poll(2) asked for everything would say about each open descriptor, as a function of the
    environment ops.  Only used to give the *model* its `ready` argument; the driver prints what the
    kernel really says (env=...) and a difference shows up as a differing line."""

    def __init__(self):
        self.d = {}

    def apply(self, w):
        k = w[0]
        try:
            a = int(w[1])
        except (IndexError, ValueError):
            return False
        if k == "open":
            if a in self.d or len(w) < 3 or w[2] not in "ESPQ":
                return False
            self.d[a] = {"kind": w[2], "data": False, "full": False, "hc": False, "pc": False, "err": False}
            return True
        s = self.d.get(a)
        if s is None:
            return False
        kind = s["kind"]
        if k == "wr":
            if kind == "E":
                if not s["full"]:
                    s["data"] = True
                return True
            if kind in "SP" and not s["pc"]:
                if kind == "S" and s["hc"]:
                    return True      # peer's write fails with EPIPE, nothing changes
                s["data"] = True
                return True
            return False
        if k == "drain":
            if kind == "Q":
                return False
            s["data"] = False
            s["err"] = False         # read() returns the pending ECONNRESET and clears it
            if kind == "E":
                s["full"] = False
            return True
        if k == "hc":
            if kind != "S" or s["pc"]:
                return False
            s["hc"] = True
            return True
        if k == "pc":
            if kind == "E" or s["pc"]:
                return False
            s["pc"] = True
            if kind == "S":
                if s["full"]:
                    s["err"] = True  # peer closed with our data unread: ECONNRESET pending
                s["full"] = False
            return True
        if k == "fill":
            if kind == "E":
                s["data"] = True
                s["full"] = True
                return True
            if kind in "SQ" and not s["pc"]:
                s["full"] = True
                return True
            return False
        if k == "unfill":
            if kind in "SQ" and not s["pc"]:
                s["full"] = False
                return True
            return False
        if k == "close":
            del self.d[a]
            return True
        return False

    def ready(self, a):
        s = self.d[a]
        kind = s["kind"]
        r = 0
        if kind == "E":
            r |= IN if s["data"] else 0
            r |= OUT if not s["full"] else 0
        elif kind == "S":
            if s["data"] or s["hc"] or s["pc"]:
                r |= IN
            if s["hc"] or s["pc"]:
                r |= RDHUP
            if s["pc"]:
                r |= HUP
            if not s["full"]:
                r |= OUT
            if s["err"]:
                r |= ERR
        elif kind == "P":
            r |= IN if s["data"] else 0
            r |= HUP if s["pc"] else 0
        elif kind == "Q":
            r |= OUT if not s["full"] else 0
            r |= ERR if s["pc"] else 0
        return r


def annotate(raw_ops):
    """Fill every POLL with the predicted readiness of the open descriptors."""
    ds = Descs()
    out = []
    for op in raw_ops:
        w = op.split()
        if not w:
            continue
        if w[0] in ENVOPS:
            ds.apply(w)
            out.append(op)
        elif w[0] in ("POLL", "LOOP"):
            out.append(" ".join([w[0]] + ["%d:%d" % (k, ds.ready(k)) for k in sorted(ds.d) if ds.ready(k)]))
        else:
            out.append(op)
    return out


def strip_poll(ops):
    return ["POLL" if op.startswith("POLL") else "LOOP" if op.startswith("LOOP") else op for op in ops]


def mkcase(cid, raw_ops, tag, header="ops"):
    return vlib.Case(cid, header, annotate(strip_poll(raw_ops)), tag)


# ------------------------------------------------------------------ the property oracle
def py_dispatch(r):
    cbs = []
    if (r & HUP) and not (r & IN):
        cbs.append("close")
    if r & (ERR | NVAL):
        cbs.append("error")
    if r & (IN | PRI | RDHUP):
        cbs.append("read")
    if r & OUT:
        cbs.append("write")
    return cbs


POLL_RE = re.compile(r"^poll env=(\S*) E (?:n=(\d+) cap=(\d+)|dead) \[(\S*)\] cb=(\S*) \| P (?:n=(\d+)|dead) \[(\S*)\] cb=(\S*)$")
LOOP_SIDE_RE = re.compile(r"^(?:E|P) (dead|FAULT|(ok|rejected) n=(\d+)(?: cap=(\d+))? \[(\S*)\](?: cb=(\S*) fn=(\S*?)(?: w=(\d+) t=(\d) tf=(\d+))?)?)$")
LOOPLINE_RE = re.compile(r"^loop env=(\S*) (E .*?) \| (P .*?) \|\| (.*)$")
SCRIPT_OPS = ("ER", "DR", "EW", "DW", "DA", "RM", "NEW", "DEL")


def parse_pairs(s):
    res = []
    if s:
        for x in s.split(","):
            a, b = x.split(":")
            res.append((int(a), int(b)))
    return res


def parse_cbs(s):
    res = []
    if s:
        for x in s.split(","):
            a, b = x.split(":")
            res.append((int(a), b))
    return res


def parse_loop_side(txt):
    """'E ok n=2 cap=16 [0:1,1:1] cb=0:read' -> dict(status, n, cap, act (in dispatch order), cbs)"""
    m = LOOP_SIDE_RE.match(txt)
    if not m:
        return None
    if m.group(1) in ("dead", "FAULT"):
        return {"status": m.group(1)}
    return {"status": m.group(2), "n": int(m.group(3)), "cap": int(m.group(4)) if m.group(4) else None,
            "act": parse_pairs(m.group(5)), "cbs": parse_cbs(m.group(6)) if m.group(6) is not None else None,
            "fn": [int(x) for x in m.group(7).split(",") if x] if m.group(7) is not None else None,
            "w": int(m.group(8)) if m.group(8) is not None else None, "t": int(m.group(9)) if m.group(9) is not None else None,
            "tf": int(m.group(10)) if m.group(10) is not None else None}


def parse_script(w):
    """ON c kind [Q] op c2 [k] -> (c, kind, queued, op, c2, arg)"""
    i = 3
    queued = 0
    if w[i] in ("Q", "QQ"):
        queued = 1 if w[i] == "Q" else 2
        i += 1
    return (int(w[1]), w[2], queued, w[i], int(w[i + 1]), int(w[i + 2]) if len(w) > i + 2 else -1)


def script_op(sc):
    return [sc[3], str(sc[4])] + ([str(sc[5])] if sc[3] == "NEW" else [])


class Spec:
    """The interest map of the property text: Channel object -> subscribed conditions (one per back-end:
    after a batch whose callbacks are order dependent the two sides may legitimately differ)."""

    def __init__(self, side="E"):
        self.side = side
        self.o = {}       # c -> dict(fd, ev, reg, rm)
        # channels that WOULD be registered with an empty interest by the code before a5a0563 (the exact state
        # machine of the old shape: epoll re-ADDs on every second redundant disable, poll only adds a fresh one)
        self.anom = set()

    def taken(self, fd, exc):
        return any(v["reg"] and v["fd"] == fd for c, v in self.o.items() if c != exc)

    def guard(self, w):
        k = w[0]
        c = int(w[1])
        v = self.o.get(c)
        if k == "NEW":
            return v is None
        if k == "DEL":
            return v is not None and not v["reg"]
        if k in UPD:
            return v is not None and (v["reg"] or not self.taken(v["fd"], c))
        if k == "RM":
            return v is not None and v["reg"] and v["ev"] == 0
        return True

    def finding_flags(self, w, ri=True):
        """Signature of the documented finding this (guard-satisfying) op is an instance of.
        F-14: an update that leaves the interest empty, applied to a fresh / unregistered channel or
        to one whose interest is already empty."""
        k = w[0]
        c = int(w[1])
        v = self.o.get(c)
        fl = set()
        if k in UPD and v is not None:
            if UPD[k](v["ev"]) == 0 and (not v["reg"] or v["ev"] == 0):
                fl.add(KEY_F14)
            if v["rm"] and not ri:
                fl.add(KEY_F1)
        return fl

    def step(self, w):
        k = w[0]
        c = int(w[1])
        if k == "NEW":
            self.o[c] = {"fd": int(w[2]), "ev": 0, "reg": False, "rm": False}
            self.anom.discard(c)
        elif k == "DEL":
            del self.o[c]
            self.anom.discard(c)
        elif k in UPD:
            v = self.o[c]
            empty = UPD[k](v["ev"]) == 0
            if empty and not v["reg"]:
                self.anom.add(c)                       # fresh channel disabled: old code registered it with no interest
            elif empty and v["ev"] == 0:
                if self.side == "E" and c not in self.anom:
                    self.anom.add(c)                   # old epoll: kDeleted re-ADDed with events 0
                else:
                    self.anom.discard(c)               # old epoll: kAdded/0 -> DEL; old poll: update branch negates the entry
            else:
                self.anom.discard(c)
            v["ev"] = UPD[k](v["ev"])
            v["reg"] = True
        elif k == "RM":
            self.o[c]["reg"] = False
            self.o[c]["rm"] = True
            self.anom.discard(c)

    def expected(self, ready):
        res = {}
        for c, v in self.o.items():
            if v["reg"] and v["ev"] != 0:
                r = ready.get(v["fd"], 0) & (v["ev"] | EHN)
                if r:
                    res[c] = r
        return res


LOOP_RE = re.compile(r"^loop backend=(\w+) poller=(\w+) (.*)$")


KERN_RE = re.compile(r"E\{idx=\S* map=\S* kern=(\S*) cap=\d+ kerr=\d+\}")
PFDS_RE = re.compile(r"P\{idx=\S* map=\S* pfds=(\S*)\}")


def check_registered(i, bad, sides, dead, state):
    """What each back-end asks the kernel to watch must be exactly the interest map: descriptor -> events() of
    the registered channel on it, for every channel with some interest enabled and for no other descriptor."""
    for x, name, rx in (("E", "epoll (kernel interest list of the epoll instance, /proc)", KERN_RE), ("P", "poll (non-negated pollfds_ entries)", PFDS_RE)):
        if dead[x]:
            continue
        m = rx.search(state)
        if not m:
            continue
        got = {}
        for fd, ev in parse_pairs(m.group(1)):
            if fd >= 0:
                got[fd] = ev
        want = {v["fd"]: v["ev"] for v in sides[x].o.values() if v["reg"] and v["ev"] != 0}
        if got != want:
            diff = sorted(set(got.items()) ^ set(want.items()))
            anom_fds = set(sides[x].o[c]["fd"] for c in sides[x].anom if c in sides[x].o)
            fl = f14(bool(diff) and all(fd in anom_fds and ev == 0 for fd, ev in diff))
            bad.append((i, "%s: watches %s, the channels subscribe to %s (descriptor:conditions)" %
                        (name, sorted(got.items()), sorted(want.items())), fl))


def expected_status(guards):
    """guards: list of booleans, one per live side"""
    if not guards or all(guards):
        return "ok"
    if not any(guards):
        return "rejected"
    return "MIXED"


F14_REPAIRED = [True]    # set by run() from the generated facts: the label of the fixed finding F-14 is only used when the
                         # source really lacks the repair (otherwise an unrelated change tripping the same assert is mislabelled)


def f14(cond=True):
    return {KEY_F14} if cond and not F14_REPAIRED[0] else set()


def oracle(case, lines, crash=None, ri=True, events=None):
    """The property text evaluated on the implementation's output.  Returns a list of
    (op index, message, set of finding keys whose SIGNATURE the failing observation matches);
    empty list = the property holds on this case.  [events]: set collecting what the history reached."""
    bad = []
    ev = events if events is not None else set()
    if case.header.startswith("loop"):
        backend = case.header.split()[1]
        m = LOOP_RE.match(lines[1]) if len(lines) > 1 else None
        if not m:
            return [(0, "loop scenario produced no result line", set())]
        want = "PollPoller" if backend == "poll" else "EPollPoller"
        if m.group(2) != want:
            bad.append((0, "back-end selection: MUDUO_USE_POLL %s gave %s" % ("set" if backend == "poll" else "unset", m.group(2)), set()))
        for kv in m.group(3).split():
            k, v = kv.split("=")
            if v not in ("blocked", "ok"):
                bad.append((0, "free-running loop (%s): %s=%s (a loop with nothing ready must block, each wake-up/task/timer is "
                               "consumed once)" % (backend, k, v), set()))
        return bad
    sides = {"E": Spec("E"), "P": Spec("P")}
    dead = {"E": "only=P" in case.header.split(), "P": "only=E" in case.header.split()}
    tied, owner = {"E": {}, "P": {}}, {"E": {}, "P": {}}
    scripts = []              # never shrinks: OFF only deactivates (functors still queued keep their index)
    active = []
    pend = {"E": [], "P": []}  # functors (1000 + script index) queued by a running functor: they run in the next iteration
    wdesc = tdesc = None       # descriptors that are dups of the loop's own eventfd / timerfd
    kw, due, armed = 0, False, 0
    trunc_run = None          # consecutive truncated epoll polls: (first index, N, polls so far)

    def live():
        return [x for x in ("E", "P") if not dead[x]]

    def runs(c, x="E"):
        return (not tied[x].get(c, False)) or owner[x].get(c, False)

    def check_side(i, name, sp, ready, act, cbs, ordered):
        x = sp.side
        """reported set and callbacks of one back-end against its interest map at poll time"""
        exp = sp.expected(ready)
        got = dict(act)
        if any(c < 0 for c, _ in act):
            bad.append((i, "%s: the active list holds %d channel(s) that are not channels of this poller (left over from an earlier "
                           "iteration / another poller: activeChannels_ was not emptied before the poll) and they are dispatched again"
                        % (name, sum(1 for c, _ in act if c < 0)), set()))
        elif len(got) != len(act):
            bad.append((i, "%s: a channel is reported twice in one poll" % name, set()))
        for c, r in act:
            v = sp.o.get(c)
            if v is None or not v["reg"]:
                bad.append((i, "%s: removed/unregistered channel %d reported (revents %d)" % (name, c, r), set()))
            elif v["ev"] == 0:
                bad.append((i, "%s: channel %d has no interest enabled but is reported (revents %d) and called" % (name, c, r),
                            f14(c in sp.anom)))
            elif c not in exp or exp[c] != r:
                bad.append((i, "%s: channel %d reported with revents %d, descriptor condition %d & (events %d | ERR|HUP|NVAL) = %d"
                            % (name, c, r, ready.get(v["fd"], 0), v["ev"], exp.get(c, 0)), set()))
            if r & (HUP | ERR):
                ev.add("hup-or-err")
        want = []
        for c, r in (act if ordered else sorted(act)):
            if runs(c, x):
                want += [(c, kd) for kd in py_dispatch(r)]
            else:
                ev.add("tied-owner-gone")
        if cbs is not None and not ordered and cbs != want:
            bad.append((i, "%s: callbacks %s, the reported conditions require %s" % (name, cbs, want), set()))
        return exp, want

    def entitled(sp, c, kd):
        """the property text at the moment of the call: the channel exists, is registered, has some interest enabled and
        -- for the read / write callback -- currently subscribes to that condition"""
        v = sp.o.get(c)
        if v is None or not v["reg"] or v["ev"] == 0:
            return False
        if kd == "read":
            return bool(v["ev"] & KREAD)
        if kd == "write":
            return bool(v["ev"] & KWRITE)
        return True

    for i, op in enumerate(case.ops):
        w = op.split()
        li = i + 1
        if li >= len(lines) or lines[li] == "end":
            if crash is not None and w[0] == "FOREIGN" and "abortNotInLoopThread" in crash[1]:
                ev.add("foreign-thread-refused")
                return bad      # the expected outcome: the process aborted in EventLoop::abortNotInLoopThread
            if crash is not None:
                summ = crash_summary(crash)
                msg = "implementation crashed at op %d %r: %s" % (i, op, summ)
                fl = set()
                spP = sides["P"]
                # F-14 (b): PollPoller::removeChannel's assert on a channel registered with an empty interest
                if "removeChannel" in summ and "pfd.fd == -channel->fd()-1" in summ and not dead["P"]:
                    if w[0] == "RM" and int(w[1]) in spP.anom:
                        fl |= f14()
                    if w[0] == "LOOP" and any(sc[3] == "RM" and (sc[4] in spP.anom or any(s2[4] == sc[4] and s2[3] in ("DA", "DR", "DW") and
                                                                               (spP.o.get(sc[4]) is None or not spP.o[sc[4]]["reg"]) for s2 in scripts))
                                              for sc in scripts):
                        fl |= f14()
                bad.append((i, msg, fl))
            else:
                bad.append((i, "missing output line", set()))
            return bad
        ln = lines[li]
        if ln.startswith("invalid") or ln == "skipped":
            return bad          # not a history of the property's domain (environment misuse / both sides ended): nothing to check
        k = w[0]
        if k == "open" and len(w) > 2 and w[2] in "WT":
            if w[2] == "W":
                wdesc = int(w[1])
            else:
                tdesc = int(w[1])
            continue
        if k in ENVOPS:
            continue
        if k == "WAKE":
            kw += 1
            continue
        if k == "TIMER":
            if ln != "timer":
                bad.append((i, "a timer armed with runAfter(~0) did not make the timerfd due: %r" % ln, set()))
            due = True
            armed += 1
            continue
        if k == "HAS":
            want = "has E=%s P=%s" % tuple("-" if dead[x] else ("1" if (int(w[1]) in sides[x].o and sides[x].o[int(w[1])]["reg"]) else "0") for x in ("E", "P"))
            if ln != want:
                bad.append((i, "Poller::hasChannel: %r, registered channels say %r" % (ln, want), set()))
            continue
        if k == "FOREIGN":
            bad.append((i, "a Channel update from a thread other than the loop's was not refused (%r): Poller::assertInLoopThread must abort" % ln, set()))
            return bad
        if k == "INJ":
            c = int(w[1])
            cbs = py_dispatch(int(w[2])) if runs(c) else []
            if not runs(c):
                ev.add("tied-owner-gone")
            want = ",".join("%s:%s" % (w[1], x) for x in cbs)
            if ln != "inj cb=" + want:
                bad.append((i, "handleEvent with revents=%s on a channel that is %s ran [%s], the property requires [%s]"
                            % (w[2], "tied to a destroyed owner" if not runs(c) else "live", ln[7:], want), set()))
            continue
        if k == "TIE":
            for x in ("E", "P"):
                if int(w[1]) in sides[x].o:
                    tied[x][int(w[1])] = True
                    owner[x][int(w[1])] = True
            continue
        if k == "DROP":
            for x in ("E", "P"):
                owner[x][int(w[1])] = False
            continue
        if k == "ON":
            scripts.append(parse_script(w))
            active.append(True)
            continue
        if k == "OFF":
            active = [False] * len(active)
            continue
        if k in ("NEW", "DEL", "RM") or k in UPD:
            gs = [sides[x].guard(w) for x in live()]
            want = expected_status(gs)
            status = ln.split()[0]
            if status != want:
                bad.append((i, "op %r: the Channel API preconditions say %s, the implementation %s" % (op, want, status), set()))
                return bad
            if want == "rejected":
                ev.add("rejected")
            if want == "MIXED":
                return bad       # the two sides went apart (order-dependent callbacks): the case ends here
            if want == "ok":
                for x in live():
                    sp = sides[x]
                    if k in UPD and sp.o[int(w[1])]["rm"]:
                        ev.add("re-register-same-object")
                    sp.step(w)
                if k == "NEW":
                    for x in live():
                        tied[x].pop(int(w[1]), None)
                        owner[x].pop(int(w[1]), None)
                if k == "RM":
                    ev.add("remove")
                check_registered(i, bad, sides, dead, ln)
            trunc_run = None
            continue
        if k == "POLL":
            m = POLL_RE.match(ln)
            if not m:
                bad.append((i, "unparsable poll line %r" % ln, set()))
                return bad
            env = dict(parse_pairs(m.group(1)))
            res = {}
            if not dead["E"]:
                if m.group(2) is None:
                    bad.append((i, "epoll side printed as dead", set()))
                    return bad
                res["E"] = (int(m.group(2)), int(m.group(3)), parse_pairs(m.group(4)), parse_cbs(m.group(5)))
            if not dead["P"]:
                if m.group(6) is None:
                    bad.append((i, "poll side printed as dead", set()))
                    return bad
                res["P"] = (int(m.group(6)), None, parse_pairs(m.group(7)), parse_cbs(m.group(8)))
            exps = {}
            pre = snapshot_maps(sides)
            for x, name in (("E", "epoll"), ("P", "poll")):
                if x in res:
                    exps[x], _ = check_side(i, name, sides[x], env, res[x][2], res[x][3], False)
                    if res[x][2]:
                        ev.add("active")
            trunc_run = completeness(i, bad, pre, exps, res, trunc_run, ev)
            continue
        if k == "LOOP":
            m = LOOPLINE_RE.match(ln)
            if not m:
                bad.append((i, "unparsable loop line %r" % ln, set()))
                return bad
            env = dict(parse_pairs(m.group(1)))
            parsed = {"E": parse_loop_side(m.group(2)), "P": parse_loop_side(m.group(3))}
            res, exps = {}, {}
            pre = snapshot_maps(sides)
            # the harness queues quit() before loop() is entered: queueInLoop outside the loop wakes it (one more wake-up pending)
            kw_poll = kw + 1
            if wdesc is not None and ((env.get(wdesc, 0) & IN) != 0) != (kw_poll > 0):
                bad.append((i, "the wake-up eventfd is %sreadable with %d wake-up(s) pending" % ("" if env.get(wdesc, 0) & IN else "not ", kw_poll), set()))
            for x, name in (("E", "epoll"), ("P", "poll")):
                if dead[x]:
                    continue
                pr = parsed[x]
                if pr is None or pr["status"] in ("dead", "FAULT"):
                    bad.append((i, "%s: unparsable or dead side in %r" % (name, ln), set()))
                    return bad
                sp = sides[x]
                snapshot = [c for c, _ in pr["act"]]
                exps[x], want_cbs = check_side(i, name, sp, env, pr["act"], pr["cbs"], True)
                res[x] = (pr["n"], pr["cap"], pr["act"], pr["cbs"])
                if pr["act"]:
                    ev.add("active")
                # the callbacks' own calls, in the order the callbacks ran; functors they queue run afterwards
                # (doPendingFunctors), in the order they were queued, without the batch asserts
                rejected = False
                queued = []

                def apply(w2, cur):
                    g = sp.guard(w2)
                    if g and cur is not None:
                        if w2[0] == "RM" and int(w2[1]) != cur and int(w2[1]) in snapshot:
                            g = False     # EventLoop::removeChannel: not the current channel and still in activeChannels_
                        if w2[0] == "DEL" and int(w2[1]) == cur:
                            g = False     # ~Channel: assert(!eventHandling_)
                    if not g:
                        return False
                    sp.step(w2)
                    if w2[0] == "NEW":
                        tied[x].pop(int(w2[1]), None)
                        owner[x].pop(int(w2[1]), None)
                        ev.add("channel-constructed-in-batch")
                    if w2[0] == "DEL":
                        ev.add("channel-destroyed-in-batch")
                        # the assert of EventLoop::removeChannel compares objects: a destroyed one is out of the snapshot,
                        # a fresh object constructed under the same id is not "in activeChannels_"
                        while int(w2[1]) in snapshot:
                            snapshot.remove(int(w2[1]))
                    ev.add("callback-op")
                    return True
                # The callbacks, in dispatch order.  Property text: a callback runs only when the channel CURRENTLY subscribes
                # to the condition; a disabled or removed channel is never called.  So, walking the snapshot:
                #  * a callback the channel is still entitled to when its turn comes MUST be the next one observed;
                #  * one it is no longer entitled to (an earlier callback of this batch disabled / removed the channel or that
                #    condition) may be absent -- that is what the text asks for -- and when it is observed all the same it is an
                #    instance of the finding stale-dispatch-within-batch (the code dispatches from the poll-time snapshot);
                #  * anything observed beyond that was not reported by this iteration's poll: a hard violation.
                # (a rejected batch prints no callback list: then the snapshot semantics drive the scripts, nothing is judged)
                obs = pr["cbs"]
                pos = 0
                ran = []
                mismatch = False
                for (c, r) in pr["act"]:
                    if not runs(c, x):
                        continue
                    for kind in py_dispatch(r):
                        ent = entitled(sp, c, kind)
                        if obs is None:
                            called = True
                        elif pos < len(obs) and obs[pos] == (c, kind):
                            called = True
                            pos += 1
                        elif ent:
                            bad.append((i, "%s: callbacks %s; channel %d (reported with revents %d, subscribed at this moment) must get its %s "
                                           "callback next (after %s)" % (name, obs, c, r, kind, ran), set()))
                            mismatch = True
                            break
                        else:
                            called = False
                            ev.add("stale-call-skipped")
                        if not called:
                            continue
                        if not ent and c not in sp.anom:
                            ev.add("stale-call-within-batch")
                            if obs is not None and c in exps[x]:
                                v = sp.o.get(c)
                                why = ("destroyed" if v is None else "removed from the loop" if not v["reg"] else
                                       "fully disabled" if v["ev"] == 0 else "no longer subscribed to %s" % kind)
                                bad.append((i, "%s: the %s callback of channel %d ran although the channel was %s at that moment (by an earlier "
                                               "callback of the same iteration; it was subscribed and ready when this iteration polled): "
                                               "EventLoop::loop / Channel::handleEventWithGuard dispatch from the activeChannels_ / revents_ "
                                               "snapshot of poll time" % (name, kind, c, why), {KEY_STALE}))
                        ran.append((c, kind))
                        for si, sc in enumerate(scripts):
                            if not active[si] or sc[0] != c or sc[1] != kind:
                                continue
                            if sc[2]:
                                queued.append(si)
                                continue
                            if not apply(script_op(sc), c):
                                rejected = True
                                break
                        if rejected:
                            break
                    if rejected or mismatch:
                        break
                if mismatch:
                    return bad
                if obs is not None and not rejected and pos < len(obs):
                    bad.append((i, "%s: callbacks %s; %s ran without being reported by this iteration's poll (reported: %s)"
                                % (name, obs, obs[pos:], pr["act"]), set()))
                    return bad
                want_cbs = ran
                # doPendingFunctors: what was left pending by the previous iteration (queued by a running functor), then what
                # the callbacks of this batch queued; a QQ functor only queues its second stage, which stays pending
                run_now = list(pend[x]) + queued
                new_pend = []
                if not rejected:
                    for fid in run_now:
                        if fid >= 1000:
                            ev.add("functor-queued-by-functor-ran")
                            if not apply(script_op(scripts[fid - 1000]), None):
                                rejected = True
                                break
                        elif scripts[fid][2] == 2:
                            new_pend.append(1000 + fid)
                        else:
                            ev.add("functor-queued-by-callback")
                            if not apply(script_op(scripts[fid]), None):
                                rejected = True
                                break
                if not rejected and pr["status"] == "ok" and pr["fn"] != run_now:
                    bad.append((i, "%s: functors run by doPendingFunctors %s; pending from the previous iteration + queued by the callbacks of "
                                   "this batch = %s (each must run once, in order, in this iteration)" % (name, pr["fn"], run_now), set()))
                if not rejected:
                    pend[x] = new_pend
                # the loop's own descriptors: every wake-up is consumed by the wake-up channel's read callback, wake-ups issued by
                # running functors (queueInLoop while callingPendingFunctors_) survive it; a due timer fires exactly once
                if not rejected and pr["status"] == "ok" and pr.get("w") is not None:
                    wread = any(sp.o.get(c, {}).get("fd") == wdesc and kd == "read" for c, kd in want_cbs) if wdesc is not None else False
                    tread = any(sp.o.get(c, {}).get("fd") == tdesc and kd == "read" for c, kd in want_cbs) if tdesc is not None else False
                    kw_after = (0 if wread else kw_poll) + len(new_pend)
                    if pr["w"] != kw_after:
                        bad.append((i, "%s: wake-up counter %d after the iteration; %d wake-up(s) were pending at poll time, the wake-up channel's read "
                                       "callback %s, running functors queued %d functor(s): it must be %d" %
                                    (name, pr["w"], kw_poll, "ran" if wread else "did not run", len(new_pend), kw_after), set()))
                    want_t = 0 if (tread or not due) else 1
                    want_tf = armed if tread else 0
                    if pr["t"] != want_t or pr["tf"] != want_tf:
                        bad.append((i, "%s: after the iteration the timerfd is %sdue and %d timer callback(s) ran; %d timer(s) were due and the timer "
                                       "channel's read callback %s: expected %sdue, %d" %
                                    (name, "" if pr["t"] else "not ", pr["tf"], armed if due else 0, "ran" if tread else "did not run",
                                     "" if want_t else "not ", want_tf), set()))
                    kw = kw_after
                    if tread:
                        due, armed = False, 0
                    if wread:
                        ev.add("wakeup-consumed")
                    if tread and want_tf:
                        ev.add("timer-fired")
                if rejected != (pr["status"] == "rejected"):
                    bad.append((i, "%s: the callbacks' calls %s a precondition (Channel API / EventLoop::removeChannel), the implementation's "
                                   "batch was %s" % (name, "violate" if rejected else "respect", pr["status"]), set()))
                    return bad
                if rejected:
                    dead[x] = True
                    ev.add("batch-rejected")
            trunc_run = completeness(i, bad, pre, exps, res, trunc_run, ev)
            check_registered(i, bad, sides, dead, m.group(4))
            continue
        bad.append((i, "unknown op %r" % op, set()))
        return bad
    return bad


def snapshot_maps(sides):
    """interest maps and F-14 anomaly sets of both sides at poll time"""
    return {x: ({c: (v["fd"], v["ev"], v["reg"]) for c, v in sides[x].o.items()}, set(sides[x].anom)) for x in sides}


def completeness(i, bad, pre, exps, res, trunc_run, ev):
    """every ready subscribed channel is reported (epoll: unless the result array was filled, then within
    the bound); both back-ends report the same set when their interest maps are the same"""
    missP = []
    if "P" in res:
        missP = sorted(set(exps["P"]) - set(dict(res["P"][2])))
        if missP:
            bad.append((i, "poll: ready subscribed channel(s) %s not reported" % missP[:8], set()))
    missE = []
    if "E" in res:
        nE, cap, actE = res["E"][0], res["E"][1], res["E"][2]
        missE = sorted(set(exps["E"]) - set(dict(actE)))
        if missE:
            N = len(exps["E"])
            if trunc_run is None:
                trunc_run = [i, N, 0]
            trunc_run[2] += 1
            bound = (max(0, math.ceil(math.log2(N / 16.0))) if N > 16 else 0) + 1
            if nE != len(actE) or cap != 2 * nE:
                bad.append((i, "epoll: ready subscribed channel(s) %s not reported although the result array was not filled (n=%d)"
                            % (missE[:8], nE), set()))
            elif trunc_run[2] >= bound:
                bad.append((i, "epoll: %d channels ready, still not all reported after %d consecutive polls (bound %d)"
                            % (N, trunc_run[2], bound), set()))
        else:
            trunc_run = None
        if nE >= 16:
            ev.add("array-filled")
    if "E" in res and "P" in res and not missE and not missP and pre["E"][0] == pre["P"][0]:
        aE, aP = sorted(res["E"][2]), sorted(res["P"][2])
        if aE != aP:
            diff = set(c for c, _ in set(aE) ^ set(aP))
            anom = pre["E"][1] | pre["P"][1]
            mapE = pre["E"][0]
            fl = f14(bool(diff) and all(c in anom and c in mapE and mapE[c][1] == 0 for c in diff))
            bad.append((i, "back-ends differ: epoll %s poll %s" % (aE, aP), fl))
    return trunc_run


def crash_summary(crash):
    rc, se, partial = crash
    m = re.search(r"Assertion `([^']*)' failed", se)
    if m:
        fn = re.search(r"(\w+::\w+)\([^)]*\): Assertion", se)
        return "assertion `%s' failed in %s" % (m.group(1), fn.group(1) if fn else "?")
    m = re.search(r"ERROR: AddressSanitizer: (\S+)", se)
    if m:
        return "AddressSanitizer " + m.group(1)
    m = re.search(r"runtime error: (.*)", se)
    if m:
        return "UBSan " + m.group(1)[:120]
    return "rc=%s %s" % (rc, se.strip().split("\n")[-1][:160] if se.strip() else "")


# ------------------------------------------------------------------ model vs implementation
def compare(case, li, lm, crash):
    """None if the implementation's lines and the model's lines agree (truncated epoll polls are
    compared as sets: which min(n,cap) entries epoll_wait returns is the kernel's choice)."""
    n = len(li)
    if crash is not None:
        # the implementation died while executing op len(li)-1 (0-based; line 0 is the case line)
        idx = len(li)
        if lm is None or idx >= len(lm):
            return (idx - 1, "implementation crashed, model has no line")
        if li != lm[:idx]:
            j = next(j for j in range(idx) if li[j] != lm[j])
            return (j - 1, "before the crash: impl %r vs model %r" % (li[j], lm[j]))
        if not lm[idx].startswith("FAULT") and "FAULT" not in lm[idx]:
            return (idx - 1, "implementation crashed (%s) where the model says %r" % (crash_summary(crash), lm[idx]))
        return None
    if lm is None:
        return (0, "no model output")
    for j in range(max(len(li), len(lm))):
        a = li[j] if j < len(li) else None
        b = lm[j] if j < len(lm) else None
        if a is not None and a.startswith("invalid"):
            return None     # the driver refused an environment op (e.g. close of a descriptor a channel lives on): the case ends here
        if a == b:
            continue
        if a and b and a.startswith("poll ") and b.startswith("poll "):
            ma, mb = POLL_RE.match(a), POLL_RE.match(b)
            if ma and mb and ma.group(2) is not None and ma.group(1) == mb.group(1) and ma.group(2) == mb.group(2) \
               and ma.group(3) == mb.group(3) and ma.group(6, 7, 8) == mb.group(6, 7, 8):
                full = parse_pairs(mb.group(4))
                got = parse_pairs(ma.group(4))
                nE = int(ma.group(2))
                if len(full) > nE and len(got) == nE and set(got) <= set(full):
                    chosen = set(c for c, _ in got)
                    if [x for x in parse_cbs(mb.group(5)) if x[0] in chosen] == parse_cbs(ma.group(5)):
                        continue
        return (j - 1, "impl %r vs model %r" % (a, b))
    return None


def with_order(case, li):
    """The model's copy of a case: every LOOP gets the epoll dispatch order the implementation
    produced (the kernel's choice), which the model runner validates and replays."""
    if not li or not any(op.startswith("LOOP") for op in case.ops):
        return case
    ops = []
    for i, op in enumerate(case.ops):
        if op.startswith("LOOP") and i + 1 < len(li):
            m = LOOPLINE_RE.match(li[i + 1])
            pr = parse_loop_side(m.group(2)) if m else None
            if pr and "act" in pr:
                op = op + " order=" + ",".join(str(c) for c, _ in pr["act"])
        ops.append(op)
    return vlib.Case(case.cid, case.header, ops, case.tag)


# ------------------------------------------------------------------ generators
def case_dispatch_table():
    ops = ["open 0 E", "NEW 0 0"]
    bits = [IN, PRI, OUT, ERR, HUP, NVAL, RDHUP]
    for m in range(128):
        r = sum(b for j, b in enumerate(bits) if m >> j & 1)
        ops.append("INJ 0 %d" % r)
    return mkcase("dispatch", ops, "dispatch-table")


def case_dispatch_tied():
    """the tie_ guard: owner alive -> as untied; owner destroyed -> no callback at all"""
    ops = ["open 0 E", "NEW 0 0", "TIE 0"]
    bits = [IN, PRI, OUT, ERR, HUP, NVAL, RDHUP]
    for m in range(0, 128, 5):
        ops.append("INJ 0 %d" % sum(b for j, b in enumerate(bits) if m >> j & 1))
    ops.append("DROP 0")
    for m in range(128):
        ops.append("INJ 0 %d" % sum(b for j, b in enumerate(bits) if m >> j & 1))
    ops += ["DEL 0", "NEW 0 0", "INJ 0 1", "INJ 0 24"]      # a fresh Channel object is untied
    return mkcase("dispatch_tied", ops, "dispatch-table")


def case_growth(n, extra_polls=2):
    ops = []
    for k in range(n):
        ops += ["open %d E" % k, "NEW %d %d" % (k, k), "ER %d" % k]
    ops.append("POLL")
    for k in range(n):
        ops.append("wr %d" % k)
    bound = (max(0, math.ceil(math.log2(n / 16.0))) if n > 16 else 0) + 1
    ops += ["POLL"] * (bound + extra_polls)
    # half of them drained, one removed: the array stays large, the sets shrink
    for k in range(0, n, 2):
        ops.append("drain %d" % k)
    ops.append("POLL")
    return mkcase("grow%d" % n, ops, "growth")


def case_loop(backend):
    return vlib.Case("loop_" + backend, "loop " + backend, [], "loop")


HANDMADE = {
    # remove a middle entry, then update the moved one
    "swap_middle": ["open 0 E", "open 1 E", "open 2 E", "NEW 0 0", "NEW 1 1", "NEW 2 2", "ER 0", "ER 1", "ER 2", "wr 0", "wr 1", "wr 2",
                    "POLL", "DA 1", "RM 1", "POLL", "EW 2", "POLL", "DR 2", "POLL", "DA 0", "RM 0", "POLL", "DA 2", "RM 2", "POLL"],
    "remove_last": ["open 0 E", "open 1 E", "NEW 0 0", "NEW 1 1", "ER 0", "EW 1", "POLL", "DA 1", "RM 1", "POLL", "DEL 1", "wr 0", "POLL"],
    "moved_is_disabled": ["open 0 E", "open 1 E", "open 2 E", "NEW 0 0", "NEW 1 1", "NEW 2 2", "ER 0", "ER 1", "ER 2", "DA 2", "DA 0", "RM 0",
                          "wr 2", "POLL", "ER 2", "POLL", "DA 2", "RM 2", "POLL"],
    # a fresh Channel object on a re-used descriptor number
    "reuse_fd": ["open 0 S", "open 1 E", "NEW 0 0", "NEW 1 1", "ER 0", "ER 1", "wr 0", "POLL", "DA 0", "RM 0", "DEL 0", "close 0", "open 0 P",
                 "NEW 2 0", "ER 2", "POLL", "wr 0", "POLL", "pc 0", "POLL", "drain 0", "POLL"],
    "second_channel_same_fd": ["open 0 E", "NEW 0 0", "NEW 1 0", "ER 0", "ER 1", "RM 1", "DEL 0", "DA 0", "RM 0", "ER 1", "wr 0", "POLL", "DEL 0"],
    # one loop iteration dispatches the SNAPSHOT: 0's read callback disables 1 (and vice versa) -- the other one is
    # still called in this iteration, and not in the next one
    # an iteration that handles channels, then iterations whose poll call reports NOTHING (descriptors drained, zero time-out):
    # the second one must run no callback (the active list is emptied by loop() itself, not only when the poller fills it)
    "loop_then_idle": ["open 0 E", "open 1 P", "open 2 S", "NEW 0 0", "NEW 1 1", "NEW 2 2", "ER 0", "ER 1", "ER 2", "wr 0", "wr 1", "wr 2",
                       "LOOP", "drain 0", "drain 1", "drain 2", "LOOP", "LOOP", "wr 1", "LOOP", "drain 1", "LOOP", "POLL"],
    "loop_then_idle_removed": ["open 0 E", "open 1 E", "NEW 0 0", "NEW 1 1", "ER 0", "ER 1", "wr 0", "wr 1", "ON 0 read DA 0", "ON 0 read RM 0",
                               "LOOP", "drain 0", "drain 1", "LOOP", "OFF", "DEL 0", "LOOP", "POLL"],
    "stale_batch": ["open 0 E", "open 1 E", "open 2 S", "NEW 0 0", "NEW 1 1", "NEW 2 2", "ER 0", "ER 1", "ER 2", "EW 2", "wr 0", "wr 1",
                    "ON 0 read DA 1", "ON 1 read DA 0", "ON 2 write DW 2", "LOOP", "LOOP", "OFF", "ER 0", "ER 1", "LOOP", "POLL"],
    # a callback removes its own channel (allowed) and re-registers it; another one removes a channel that is still in
    # the snapshot (EventLoop::removeChannel's assert: rejected)
    "batch_remove_self": ["open 0 E", "open 1 P", "NEW 0 0", "NEW 1 1", "ER 0", "ER 1", "wr 0", "wr 1", "ON 0 read DA 0", "ON 0 read RM 0",
                          "ON 0 read ER 0", "LOOP", "LOOP", "OFF", "ON 1 read DA 1", "ON 1 read RM 1", "LOOP", "LOOP", "ER 1", "LOOP", "POLL"],
    "batch_remove_ahead": ["open 0 E", "open 1 E", "NEW 0 0", "NEW 1 1", "ER 0", "ER 1", "DA 1", "wr 0", "wr 1", "ER 1", "DA 1",
                           "ON 0 read RM 1", "LOOP", "ER 1", "LOOP", "POLL"],
    "batch_remove_in_snapshot": ["open 0 E", "open 1 E", "NEW 0 0", "NEW 1 1", "ER 0", "ER 1", "wr 0", "wr 1",
                                 "ON 0 read DA 1", "ON 0 read RM 1", "ON 1 read DA 0", "ON 1 read RM 0", "LOOP", "POLL"],
    "tied_in_batch": ["open 0 E", "open 1 S", "NEW 0 0", "NEW 1 1", "ER 0", "ER 1", "EW 1", "TIE 1", "wr 0", "wr 1", "LOOP", "DROP 1", "LOOP",
                      "POLL", "ON 0 read DA 1", "LOOP", "LOOP", "DEL 1", "RM 1", "DEL 1", "NEW 1 1", "ER 1", "LOOP"],
    # a callback constructs and registers a new channel; another one's callback queues functors (queueInLoop) that disable,
    # remove and destroy a channel of the snapshot -- allowed there (doPendingFunctors runs after the dispatch loop)
    "batch_construct_destroy": ["open 0 E", "open 1 E", "open 2 E", "NEW 0 0", "NEW 1 1", "ER 0", "ER 1", "wr 0", "wr 1", "wr 2",
                                "ON 0 read NEW 5 2", "ON 0 read ER 5", "ON 1 read Q DA 0", "ON 1 read Q RM 0", "ON 1 read Q DEL 0",
                                "LOOP", "OFF", "ON 5 read DA 5", "ON 5 read RM 5", "ON 1 read Q DEL 5", "ON 1 read Q NEW 5 0", "ON 1 read Q EW 5",
                                "TIE 5", "LOOP", "LOOP", "POLL"],
    # destroying the channel whose callback is running (~Channel: assert(!eventHandling_)) is rejected; destroying one that
    # removed itself earlier in the batch is fine
    "batch_destroy_current": ["open 0 E", "open 1 E", "NEW 0 0", "NEW 1 1", "ER 0", "ER 1", "wr 0", "wr 1",
                              "ON 0 read DA 0", "ON 0 read RM 0", "ON 0 read DEL 0", "LOOP", "POLL"],
    "batch_destroy_earlier": ["open 0 P", "open 1 P", "NEW 0 0", "NEW 1 1", "ER 0", "ER 1", "wr 0", "wr 1",
                              "ON 0 read DA 0", "ON 0 read RM 0", "ON 1 read DEL 0", "ON 1 read NEW 0 0", "ON 1 read ER 0", "LOOP", "LOOP", "POLL"],
    # a channel with WRITE interest only, send buffer full, the peer half-closes: nothing it subscribes to holds, so neither
    # back-end may report it (no read callback for RDHUP/IN it never asked for, no spinning); after unfill it is writable
    "write_only_half_close": ["open 0 S", "NEW 0 0", "EW 0", "fill 0", "POLL", "hc 0", "POLL", "LOOP", "LOOP", "unfill 0", "POLL", "LOOP",
                              "ER 0", "POLL", "DR 0", "fill 0", "LOOP", "POLL"],
    "conditions": ["open 0 S", "open 1 P", "open 2 Q", "open 3 E", "NEW 0 0", "NEW 1 1", "NEW 2 2", "NEW 3 3", "ER 0", "EW 0", "ER 1", "EW 2",
                   "ER 3", "EW 3", "POLL", "wr 0", "wr 1", "fill 2", "fill 3", "POLL", "fill 0", "POLL", "unfill 0", "unfill 2", "drain 3", "POLL",
                   "hc 0", "POLL", "drain 0", "POLL", "pc 0", "pc 1", "pc 2", "POLL", "drain 1", "POLL", "DR 0", "POLL", "DW 0", "RM 0", "POLL"],
}


# histories that use the loop's OWN wake-up eventfd (W) and timerfd (T): run once per back-end (only=E / only=P)
ONESIDED = {
    # every wake-up is consumed once; a due timer fires once; with the wake-up channel disabled the counter accumulates;
    # a functor queued by a running functor (QQ) wakes the loop and runs in the next iteration
    "wake_timer": ["open 0 W", "open 1 T", "open 2 E", "NEW 0 0", "NEW 1 1", "NEW 2 2", "ER 0", "ER 1", "ER 2", "HAS 0", "HAS 5", "LOOP", "LOOP",
                   "WAKE", "WAKE", "LOOP", "LOOP", "TIMER", "LOOP", "LOOP", "wr 2", "ON 2 read QQ DA 2", "LOOP", "LOOP", "LOOP", "DA 0", "LOOP", "LOOP",
                   "ER 0", "LOOP", "LOOP", "HAS 0", "DA 0", "RM 0", "HAS 0"],
    "timer_not_watched": ["open 0 W", "open 1 T", "NEW 0 0", "NEW 1 1", "ER 0", "TIMER", "LOOP", "LOOP", "ER 1", "TIMER", "LOOP", "LOOP", "DA 1", "TIMER",
                          "LOOP", "ER 1", "LOOP", "LOOP"],
    "nested_functors": ["open 0 W", "open 1 E", "open 2 E", "NEW 0 0", "NEW 1 1", "NEW 2 2", "ER 0", "ER 1", "ER 2", "wr 1", "wr 2",
                        "ON 1 read QQ DA 2", "ON 2 read QQ NEW 7 1", "ON 1 read Q DR 1", "LOOP", "OFF", "LOOP", "LOOP", "LOOP"],
    # a Channel update from another thread must abort the process (Poller::assertInLoopThread)
    "foreign_thread_update": ["open 0 E", "NEW 0 0", "ER 0", "LOOP", "FOREIGN EW 0"],
}


def gen_onesided():
    for name, ops in sorted(ONESIDED.items()):
        for side in "EP":
            yield mkcase("one_%s_%s" % (name, side), ops, "handmade-one-sided", "ops only=%s" % side)


def gen_wake(rng, count, prefix="k"):
    """one-sided random histories over the loop's own wake-up / timer descriptors, a few ordinary channels, wake-ups, timers,
    functors queued by callbacks (Q) and by running functors (QQ), interest changes of the two internal channels"""
    for ci in range(count):
        side = "EP"[ci % 2]
        n = rng.randint(1, 3)
        ops = ["open 0 W", "open 1 T", "NEW 0 0", "NEW 1 1"]
        for k in range(n):
            ops += ["open %d E" % (2 + k), "NEW %d %d" % (2 + k, 2 + k)]
            if rng.random() < 0.8:
                ops.append("ER %d" % (2 + k))
            if rng.random() < 0.5:
                ops.append("wr %d" % (2 + k))
        if rng.random() < 0.9:
            ops.append("ER 0")
        if rng.random() < 0.85:
            ops.append("ER 1")
        for _ in range(rng.randint(4, 14)):
            y = rng.random()
            if y < 0.30:
                ops.append("LOOP")
            elif y < 0.42:
                ops.append("WAKE")
            elif y < 0.52:
                ops.append("TIMER")
            elif y < 0.72:
                c = rng.randrange(2 + n)
                kind = "read" if c < 2 or rng.random() < 0.8 else "write"
                q = rng.choice(["", "Q ", "QQ ", "QQ "])
                c2 = rng.randrange(2 + n)
                ops.append("ON %d %s %s%s %d" % (c, kind, q, rng.choice(["DA", "ER", "EW", "DR", "DW"]), c2))
            elif y < 0.77:
                ops.append("OFF")
            elif y < 0.90:
                ops.append("%s %d" % (rng.choice(["DA", "ER", "ER", "DR"]), rng.randrange(2 + n)))
            elif y < 0.95:
                ops.append("HAS %d" % rng.randrange(3 + n))
            else:
                ops.append("%s %d" % (rng.choice(["wr", "drain"]), 2 + rng.randrange(n)))
        ops += ["LOOP", "LOOP"]
        yield mkcase("%s%d" % (prefix, ci), ops, "wake-timer", "ops only=%s" % side)


def gen_enumerated(depth, sample=None, rng=None):
    """All op sequences of the given depth over two Channel objects behind a third registered one
    (so that removing either exercises swap-and-pop); re-registration and redundant disables (the
    patterns of the two fixed findings) are ordinary histories."""
    prefix = ["open 0 P", "open 1 P", "open 2 E", "NEW 2 2", "NEW 0 0", "NEW 1 1", "ER 2", "ER 0", "EW 1", "pc 0", "pc 1", "wr 2", "NEW 3 2"]
    al = [k + " " + str(c) for k in ("ER", "DR", "EW", "DW", "DA", "RM") for c in (0, 1)] + ["ER 3", "POLL"]
    n = 0
    for seq in itertools.product(al, repeat=depth):
        if sample is not None and rng.random() > sample:
            continue
        n += 1
        yield mkcase("e%d_%d" % (depth, n), prefix + list(seq) + ["POLL"], "enumerated-depth-%d" % depth)


def gen_random(rng, count, ri, wild, prefix="r", maxops=40, loopy=0.3):
    kinds = "ESPQ"
    hist = {}
    for ci in range(count):
        ds = Descs()
        sp = Spec()
        ops = []
        nfd = rng.randint(2, 6)
        nch = rng.randint(2, 8)
        # a "loopy" history dispatches through real EventLoop::loop() iterations with scripted callbacks
        # (the generator's own interest map does not follow the callbacks' effects: later ops may then be rejected)
        is_loopy = rng.random() < loopy
        script_fds = set()
        for k in range(nfd):
            op = "open %d %s" % (k, rng.choice(kinds))
            ds.apply(op.split())
            ops.append(op)
        ln = rng.randint(8, maxops)

        def emit(op):
            w = op.split()
            if w[0] in ENVOPS:
                if not ds.apply(w):
                    return False
            elif w[0] in ("NEW", "DEL", "RM") or w[0] in UPD:
                if sp.guard(w):
                    # F-1 and F-14 are fixed: re-registration and redundant disables are ordinary histories;
                    # "wild" histories only differ by being generated after the ordinary ones
                    sp.step(w)
            ops.append(op)
            hist[w[0]] = hist.get(w[0], 0) + 1
            return True

        tries = 0
        while len(ops) < ln and tries < 400:
            tries += 1
            x = rng.random()
            alive = sorted(sp.o)
            if is_loopy and alive and rng.random() < 0.3:
                y = rng.random()
                if y < 0.55:
                    c = rng.choice(alive)
                    c2 = rng.choice(alive) if rng.random() < 0.8 else c
                    kind = rng.choice(["read", "read", "write", "write", "close", "error"])
                    q = "Q " if rng.random() < 0.25 else ""
                    sop = rng.choice(["DA", "DR", "DW", "ER", "EW", "RM", "DA", "DEL", "NEW"])
                    if sop == "NEW":
                        if not ds.d:
                            continue
                        kfd = rng.choice(sorted(ds.d))
                        script_fds.add(kfd)
                        emit("ON %d %s %sNEW %d %d" % (c, kind, q, rng.randrange(nch), kfd))
                    else:
                        emit("ON %d %s %s%s %d" % (c, kind, q, sop, c2))
                    if sop == "DA" and rng.random() < 0.4:
                        emit("ON %d %s %sRM %d" % (c, kind, q, c2))
                        if rng.random() < 0.4:
                            emit("ON %d %s %sDEL %d" % (rng.choice(alive), kind, q, c2))
                elif y < 0.62:
                    emit("OFF")
                elif y < 0.72:
                    emit("TIE %d" % rng.choice(alive))
                elif y < 0.8:
                    emit("DROP %d" % rng.choice(alive))
                else:
                    emit("LOOP")
                continue
            if x < 0.14:
                c = rng.randrange(nch)
                if c in sp.o or not ds.d:
                    continue
                free = [k for k in ds.d if not any(v["fd"] == k for v in sp.o.values())]
                k = rng.choice(free) if free and rng.random() < 0.9 else rng.choice(sorted(ds.d))
                emit("NEW %d %d" % (c, k))
            elif x < 0.50 and alive:
                c = rng.choice(alive)
                v = sp.o[c]
                if v["ev"] == 0 or not v["reg"]:
                    k = rng.choice(["ER", "EW", "ER", "EW", "DA", "DR"])
                else:
                    k = rng.choice(["ER", "DR", "EW", "DW", "DA", "DA"])
                emit("%s %d" % (k, c))
            elif x < 0.64 and alive:
                # removal, biased to valid ones and to entries that are not last
                cand = [c for c in alive if sp.o[c]["reg"] and sp.o[c]["ev"] == 0]
                if cand and rng.random() < 0.9:
                    c = rng.choice(cand)
                else:
                    c = rng.choice(alive)
                    if sp.o[c]["reg"] and sp.o[c]["ev"] != 0 and rng.random() < 0.7:
                        emit("DA %d" % c)
                emit("RM %d" % c)
                if rng.random() < 0.35 and c in sp.o and not sp.o[c]["reg"]:
                    k = sp.o[c]["fd"]
                    emit("DEL %d" % c)
                    if rng.random() < 0.6 and k not in script_fds and not any(v["fd"] == k for v in sp.o.values()):
                        emit("close %d" % k)
                        emit("open %d %s" % (k, rng.choice(kinds)))
                        emit("NEW %d %d" % (rng.choice([c, rng.randrange(nch)]), k))
            elif x < 0.68 and alive:
                emit("DEL %d" % rng.choice(alive))
            elif x < 0.86 and ds.d:
                k = rng.choice(sorted(ds.d))
                kind = ds.d[k]["kind"]
                e = rng.choice({"E": ["wr", "drain", "fill", "wr", "drain"], "S": ["wr", "drain", "hc", "pc", "fill", "unfill", "wr"],
                                "P": ["wr", "drain", "pc", "wr"], "Q": ["fill", "unfill", "pc", "fill"]}[kind])
                emit("%s %d" % (e, k))
            else:
                emit("LOOP" if is_loopy and rng.random() < 0.7 else "POLL")
        emit("LOOP" if is_loopy else "POLL")
        emit("POLL")
        yield mkcase("%s%d" % (prefix, ci), ops, ("random-wild" if wild else "random") + ("-loop" if is_loopy else ""))
    st0 = getattr(gen_random, "stats", {})
    for k, v in hist.items():
        st0[k] = st0.get(k, 0) + v
    gen_random.stats = st0


def gen_batches(rng, count, prefix="b"):
    """Histories aimed at the snapshot dispatch: 2..5 channels that are all ready in the same batch, callbacks that
    disable / re-enable / remove each other or themselves, several real loop iterations, ties."""
    for ci in range(count):
        n = rng.randint(2, 5)
        ops = []
        kinds = [rng.choice("EEESP") for _ in range(n)]
        for k in range(n):
            ops += ["open %d %s" % (k, kinds[k]), "NEW %d %d" % (k, k)]
        for k in range(n):
            if kinds[k] == "P" or rng.random() < 0.75:
                ops.append("ER %d" % k)
                if rng.random() < 0.9:
                    ops.append("wr %d" % k)
            if kinds[k] != "P" and rng.random() < 0.5:
                ops.append("EW %d" % k)
        if rng.random() < 0.25:
            c = rng.randrange(n)
            ops.append("TIE %d" % c)
            if rng.random() < 0.6:
                ops.append("DROP %d" % c)
        spare = n            # an extra descriptor for channels constructed inside a batch
        ops.append("open %d E" % spare)
        if rng.random() < 0.5:
            ops.append("wr %d" % spare)
        for _ in range(rng.randint(1, 5)):
            c, c2 = rng.randrange(n), rng.randrange(n)
            kind = rng.choice(["read", "read", "write"])
            q = "Q " if rng.random() < 0.3 else ""
            sop = rng.choice(["DA", "DA", "DR", "DW", "ER", "EW"])
            ops.append("ON %d %s %s%s %d" % (c, kind, q, sop, c2))
            if sop == "DA" and rng.random() < 0.45:
                ops.append("ON %d %s %sRM %d" % (c, kind, q, c2))
                y = rng.random()
                if y < 0.4:
                    ops.append("ON %d %s %s%s %d" % (c, kind, q, rng.choice(["ER", "EW"]), c2))
                elif y < 0.75:
                    # destroy it (possibly from another channel's callback), perhaps construct a fresh one on the same id
                    who = c if rng.random() < 0.4 else rng.randrange(n)
                    ops.append("ON %d %s %sDEL %d" % (who, rng.choice(["read", "write"]) if who != c else kind, q, c2))
                    if rng.random() < 0.5:
                        ops.append("ON %d %s %sNEW %d %d" % (who, kind, q, c2, rng.choice([c2, spare])))
                        ops.append("ON %d %s %s%s %d" % (who, kind, q, rng.choice(["ER", "EW"]), c2))
            if rng.random() < 0.15:
                cn = n + 1 + rng.randrange(2)
                ops.append("ON %d %s %sNEW %d %d" % (c, kind, q, cn, spare))
                ops.append("ON %d %s %s%s %d" % (c, kind, q, rng.choice(["ER", "EW", "DA"]), cn))
        ops.append("LOOP")
        for _ in range(rng.randint(0, 3)):
            y = rng.random()
            if y < 0.3:
                ops.append("OFF")
            elif y < 0.6:
                ops.append("%s %d" % (rng.choice(["ER", "EW", "DA", "RM", "DR"]), rng.randrange(n)))
            elif y < 0.75:
                ops.append("%s %d" % (rng.choice(["wr", "drain"]), rng.randrange(n)))
            ops.append("LOOP")
        # always: an iteration with events, then -- every descriptor drained -- an iteration whose poll call reports nothing
        # unless a channel still subscribes to writing (then that one only): no callback of the previous batch may run again
        ops.append("OFF")
        for k in range(n + 1):
            ops.append("drain %d" % k)
        ops.append("LOOP")
        if rng.random() < 0.5:
            ops.append("LOOP")
        ops.append("POLL")
        yield mkcase("%s%d" % (prefix, ci), ops, "batches")


def load_case_file(path, prefix=""):
    cases, cid, header, ops = [], None, "", []
    for line in open(path):
        line = line.rstrip("\n")
        if not line or line.startswith("#"):
            continue
        if line.startswith("---"):
            break
        if line.startswith("case "):
            t = line.split()
            cid, header, ops = prefix + t[1], " ".join(t[2:]), []
        elif line == "end":
            if header.startswith("loop"):
                cases.append(vlib.Case(cid, header, [], "corpus"))
            else:
                cases.append(mkcase(cid, ops, "corpus", header))
        else:
            ops.append(line)
    return cases


def nontrivial_events(case, lines):
    """Non-trivial = the history reaches at least one of: a removal, a re-registration (same object or fresh
    object on a used descriptor), a reported HUP/ERR, a filled epoll result array, a rejected precondition, a
    disabled (negated) pollfd being polled, a callback issuing Channel API calls, a stale call within a batch,
    a rejected batch, a tied channel whose owner is gone.  (The events the oracle meets on the way are added
    by the caller.)"""
    ev = set()
    removed_fds = set()
    for op, ln in zip(case.ops, lines[1:]):
        w = op.split()
        if w[0] == "close":
            removed_fds.add(w[1])
        if w[0] == "NEW" and len(w) > 2 and w[2] in removed_fds:
            ev.add("fresh-channel-on-reused-fd")
        if "pfds=" in ln and re.search(r"pfds=\S*-\d+:", ln):
            ev.add("negated-entry")
    return ev


# ------------------------------------------------------------------ the check
def run(chk, replay=None):
    import time
    tier, rng = chk.tier, chk.rng
    pr = chk.prove()
    ri = gen_fact("PollPoller_remove_resets_index", "false") == "true"
    grow = gen_fact("EPollPoller_grow_factor", "?")
    F14_REPAIRED[0] = (gen_fact("EPollPoller_add_skips_empty_interest", "false") == "true" and
                       gen_fact("PollPoller_new_entry_negates_empty", "false") == "true")
    facts = {}
    for name in ("EPollPoller_poll_grow_guard", "EPollPoller_poll_new_size", "Channel_handleEventWithGuard_calls", "Channel_handleEvent_runs",
                 "Channel_handleEvent_guard_is_tie_lock", "EventLoop_loop_dispatches_snapshot", "EventLoop_handleRead_reads_wakeupfd",
                 "EventLoop_eventfd_semaphore", "TimerQueue_handleRead_reads_timerfd", "EventLoop_handleRead_read_size",
                 "TimerQueue_readTimerfd_read_size"):
        facts[name] = gen_defined(name)
    chk.cov["generated_facts"] = {"PollPoller_remove_resets_index": ri, "EPollPoller_grow_factor": grow,
                                  "translated": sorted(k for k, v in facts.items() if v), "missing": sorted(k for k, v in facts.items() if not v)}
    model = vlib.build_model("C09")
    impl = vlib.build_driver("C09_driver", ["C09_driver.cc"], variant="asan", wrap=["epoll_wait", "poll"])

    cases = []
    if replay:
        cases = load_case_file(replay)
    else:
        for f in sorted(glob.glob(os.path.join(vlib.ROOT, "corpus", "C09", "*.case"))):
            cases += load_case_file(f, prefix="corpus_")
        cases.append(case_dispatch_table())
        cases.append(case_dispatch_tied())
        for name, ops in sorted(HANDMADE.items()):
            cases.append(mkcase("hand_" + name, ops, "handmade"))
        cases += list(gen_onesided())
        cases += [case_loop("epoll"), case_loop("poll")]
        if tier == "quick":
            sizes = [1, 15, 16, 17, 33, 100, 300]
            cases += list(gen_enumerated(2))
            cases += list(gen_enumerated(3, sample=0.25, rng=rng))
            nrand, nwild = 1500, 60
        else:
            # every array boundary (16 * 2^k and its neighbours) and a sweep of 1..300 simultaneously ready descriptors
            sizes = sorted(set([1, 2, 15, 16, 17, 31, 32, 33, 63, 64, 65, 100, 127, 128, 129, 200, 255, 256, 257, 299, 300] + list(range(3, 300, 9))))
            cases += list(gen_enumerated(2)) + list(gen_enumerated(3))
            cases += list(gen_enumerated(4, sample=0.25, rng=rng))
            nrand, nwild = 120000, 3000
        cases += [case_growth(n) for n in sizes]
        cases += list(gen_batches(rng, 300 if tier == "quick" else 25000))
        cases += list(gen_wake(rng, 200 if tier == "quick" else 12000))
        cases += list(gen_random(rng, nrand, ri, wild=False, prefix="r"))
        cases += list(gen_random(rng, nwild, ri, wild=True, prefix="w"))
    chk.cov["generator_histogram"] = getattr(gen_random, "stats", {})

    t1 = time.time()
    # the loop scenarios sleep: run them apart so that they overlap with the batch
    loops = [c for c in cases if c.header.startswith("loop")]
    others = [c for c in cases if not c.header.startswith("loop")]
    from concurrent.futures import ThreadPoolExecutor
    with ThreadPoolExecutor(max_workers=4) as ex:
        futs = [ex.submit(vlib.run_batch, impl, [c], 400) for c in loops]
        impl_out, crashes = vlib.run_batch_parallel(impl, others, timeout=1200)
        for f in futs:
            o, c = f.result()
            impl_out.update(o)
            crashes.update(c)
    t2 = time.time()
    # the model's copy of each case carries the epoll dispatch order the implementation produced in every LOOP
    mcases = [with_order(c, impl_out.get(c.cid) if c.cid not in crashes else [l for l in crashes[c.cid][2] if l]) for c in cases]
    model_out, mcrashes = vlib.run_batch_parallel(model, mcases, timeout=1200)
    t3 = time.time()
    chk.cov["phase_s"] = {"generate": round(t1 - chk.t0 - pr["wall_s"], 1), "impl": round(t2 - t1, 1), "model": round(t3 - t2, 1)}

    known = {k["key"]: k["text"] for k in vlib.known_findings() if k["property"] == "C09"}
    # cases marked "plain" are also replayed on a non-ASan build (asserts on): ASan's quarantine hides allocator address
    # reuse, which EventLoop::removeChannel's pointer-comparing assert is sensitive to
    plain_cases = [c for c in cases if "plain" in c.header.split()]
    plain_bad = []
    if plain_cases:
        plain = vlib.build_driver("C09_driver_plain", ["C09_driver.cc"], variant="plain", wrap=["epoll_wait", "poll"])
        pout, pcrash = vlib.run_batch(plain, plain_cases, timeout=300)
        for c in plain_cases:
            chk.cov["evaluations"] += 1
            crash = pcrash.get(c.cid)
            li = pout.get(c.cid) if crash is None else ([l for l in crash[2] if l] or ["case ?"])
            if li is None:
                plain_bad.append((c, 0, "no output on the non-ASan build", set()))
                continue
            for (idx, msg, flags) in oracle(c, li, crash, ri):
                fl = set(flags)
                if crash is not None and "currentActiveChannel_ == channel" in crash[1] and idx < len(c.ops) and c.ops[idx].startswith("LOOP") \
                   and any(sc.startswith("ON") and " DEL " in sc for sc in c.ops) and any(sc.startswith("ON") and " NEW " in sc for sc in c.ops) \
                   and any(sc.startswith("ON") and " RM " in sc for sc in c.ops):
                    fl.add(KEY_REUSE)
                plain_bad.append((c, idx, "[non-ASan build] " + msg, fl))
        # F-23 needs the allocator to hand the address of the destroyed Channel out again: where it does not (other glibc
        # tunables, a hardened allocator) the witness simply passes -- "not reproduced", nothing is printed, no obligation fails
        chk.cov["F23_address_reuse_reproduced"] = any(KEY_REUSE in b[3] for b in plain_bad)
        chk.cov["plain_build_cases"] = len(plain_cases)
    corr_bad, oracle_bad, known_hits = [], [], {}
    for (c, idx, msg, fl) in plain_bad:
        if fl and all(k in known for k in fl):
            for k in fl:
                known_hits.setdefault(k, (c, msg))
        else:
            oracle_bad.append((c, idx, msg, fl))
    sigs = set()
    hist = {}
    for c in cases:
        chk.cov["evaluations"] += 1
        crash = crashes.get(c.cid)
        li = impl_out.get(c.cid) if crash is None else ([l for l in crash[2] if l] or ["case ?"])
        lm = model_out.get(c.cid)
        if li is None:
            oracle_bad.append((c, 0, "no implementation output", set()))
            continue
        ev = nontrivial_events(c, li)
        fails = oracle(c, li, crash, ri, events=ev)
        if fails:
            # a failing observation is known when it carries finding flags and every one of them is listed; a case counts
            # as a known-finding instance only if EVERY failing observation of it is known; otherwise the violation is
            # reported from the observations that are NOT known (so a recorded finding never labels another failure)
            unknown = [f for f in fails if not (f[2] and all(k in known for k in f[2]))]
            if not unknown:
                for f in fails:
                    for k in f[2]:
                        known_hits.setdefault(k, (c, f[1]))
            else:
                allf = set()
                for f in unknown:
                    allf |= f[2]
                oracle_bad.append((c, unknown[0][0], unknown[0][1], allf))
        d = compare(c, li, lm, crash)
        if d is not None:
            corr_bad.append((c, d[0], d[1]))
        for e in ev:
            hist[e] = hist.get(e, 0) + 1
        if ev:
            sigs.add((tuple(op.split()[0] for op in c.ops), tuple(sorted(ev)), li[-2] if len(li) > 1 else ""))
        if len(chk.cov["samples"]) < 5 and c.tag == "random-loop" and len(c.ops) <= 22 and {"stale-call-within-batch"} <= ev \
           and not any(s.get("events") and "stale-call-within-batch" in s["events"] for s in chk.cov["samples"]):
            chk.sample({"case": c.text().split("\n")[:-1], "impl_last": li[-2] if len(li) > 1 else "", "events": sorted(ev)})
        if len(chk.cov["samples"]) < 4 and c.tag == "random" and len(c.ops) <= 16 and {"remove", "active"} <= ev:
            chk.sample({"case": c.text().split("\n")[:-1], "impl_last": li[-2] if len(li) > 1 else "", "events": sorted(ev)})
    chk.cov["distinct_nontrivial"] = len(sigs)
    chk.cov["event_histogram"] = hist
    chk.cov["rule"] = ("corpus (finding witnesses) + dispatch table (all 128 revents combinations; tied with live / destroyed owner) + hand-made "
                       "swap-and-pop / fd-reuse / condition / stale-batch / remove-in-batch / tie histories + all depth-2/3(/4) suffixes over two "
                       "channels behind a third (re-registration included) + epoll growth with 1..300 ready descriptors + random histories "
                       "(<=40 ops, <=8 Channel objects, <=6 descriptors of 4 kinds; ~30% dispatch through real EventLoop::loop() iterations with "
                       "scripted callbacks) + free-running loop scenario per back-end; non-trivial = reaches a removal, a re-registration, a "
                       "HUP/ERR report, a filled result array, a rejected precondition, a negated pollfd, a callback issuing Channel API calls, "
                       "a stale call within a batch, a rejected batch or a tied channel without owner; distinct by (op-kind sequence, events, last line)")
    chk.cov["traces_validated_against_impl"] = len(cases) - len(corr_bad)
    chk.add_obligation("correspondence: extracted C09_Model (ep_step_current, pp_step_current = the models at the generated facts; loop_iter; "
                       "handle_event) == real EPollPoller/PollPoller/Channel after every op (index_, channels_, pollfds_, kernel interest list from "
                       "/proc, events_ size, active lists, callbacks) and == one real EventLoop::loop() iteration with scripted callbacks on LOOP",
                       not corr_bad)
    chk.add_obligation("oracle: exactly the ready subscribed channels are reported and called (inside a LOOP the observed callback sequence is "
                       "walked against the snapshot: entitled callbacks required, stale ones = recorded finding stale-dispatch-within-batch when "
                       "listed, anything not reported by this iteration's poll a violation; tie guard), both back-ends the same, bounded epoll "
                       "growth, loop blocks when idle (on the implementation's own outputs)", not oracle_bad)
    chk.add_obligation("cases marked 'plain' replayed on a non-ASan build of the same driver (allocator address reuse visible): property oracle",
                       not [b for b in plain_bad if not (b[3] and all(k in known for k in b[3]))])
    chk.add_obligation("generated facts: PollPoller_remove_resets_index / EPollPoller_add_skips_empty_interest / PollPoller_new_entry_negates_empty / "
                       "EPollPoller_grow_factor regenerated from the AST", grow != "?" and gen_defined("EPollPoller_add_skips_empty_interest")
                       and gen_defined("PollPoller_new_entry_negates_empty"))
    chk.add_obligation("generated functions and facts translated from the AST (growth guard + resize argument, handleEventWithGuard tests, tie_ guard, "
                       "snapshot dispatch, wake-up/timer descriptor reads): none missing", all(facts.values()))
    chk.trusted("extraction: ExtrOcamlBasic only; extract/util.ml + extract/C09_driver.ml (OCaml 4.13.1)",
                "harness/C09_driver.cc (#define private/protected public; real eventfd/pipe/socketpair descriptors; kernel interest list read "
                "from /proc/self/fdinfo; Channel API preconditions tested on the driver's own bookkeeping; --wrap=epoll_wait,poll forces a zero "
                "time-out inside LOOP; the epoll dispatch order of a LOOP is handed to the model runner, which validates and replays it)",
                "translator lib/gen_consts.py + lib/gen_C09.py (clang 14 JSON AST): kInitEventListSize, kNew/kAdded/kDeleted, "
                "kNone/kRead/kWriteEvent, removeChannel resets index?, ADD skipped for an empty interest?, new pollfd negated for an empty interest?, "
                "growth factor + growth guard/new size, handleEventWithGuard tests, tie_ guard, snapshot dispatch, eventfd/timerfd reads",
                "Linux poll(2)/epoll(7) semantics (level-triggered, revents within events|ERR|HUP|NVAL): observed, not proved; "
                "python readiness predictor for eventfd/pipe/unix socketpair (checked against raw poll(2) on every POLL)",
                "std::vector / std::map themselves")

    def run_one(cc):
        io, cr = vlib.run_batch(impl, [cc], timeout=120)
        crash = cr.get(cc.cid)
        li = io.get(cc.cid) if crash is None else ([l for l in crash[2] if l] or ["case ?"])
        mo, _ = vlib.run_batch(model, [with_order(cc, li)], timeout=120)
        return li, mo.get(cc.cid), crash

    def shrink(c, pred):
        if c.header.startswith("loop") or "plain" in c.header.split():
            return c
        raw = strip_poll(c.ops)

        def fails(ops):
            cc = mkcase("s", ops, "shrink", c.header)
            li, lm, crash = run_one(cc)
            if li is None or any(l.startswith("invalid") for l in li):
                return False
            return pred(cc, li, lm, crash)
        ops = vlib.ddmin(raw, fails, max_tests=120)
        return mkcase(c.cid, ops, c.tag, c.header)

    for k, (c, msg) in sorted(known_hits.items()):
        chk.known(k, "key=%s %s [e.g. case %s: %s]" % (k, known[k], c.cid, msg[:200]))
    chk.cov["known_findings_hit"] = sorted(known_hits)

    if oracle_bad:
        # one violation per distinct finding-flag set (at most 3), smallest case first
        groups = {}
        for (c, idx, msg, flags) in oracle_bad:
            groups.setdefault(tuple(sorted(flags)), []).append((c, idx, msg))
        for flags, lst in sorted(groups.items())[:3]:
            lst.sort(key=lambda t: len(t[0].ops))
            c, idx, msg = lst[0]

            def pred(cc, li, lm, crash, flags=flags):
                fs = [f for f in oracle(cc, li, crash, ri) if not (f[2] and all(k in known for k in f[2]))]
                return any(tuple(sorted(f[2])) == flags for f in fs)
            small = shrink(c, pred)
            li, lm, crash = run_one(small)
            fs = [f for f in (oracle(small, li, crash, ri) if li else []) if not (f[2] and all(k in known for k in f[2]))]
            msg2 = fs[0][1] if fs else msg
            if flags and set(flags) <= {KEY_F14, KEY_F1}:
                tag = "matches the signature of the FIXED finding %s, and the generated facts say its repair is missing from this tree" % ",".join(flags)
            elif flags:
                tag = "instance of the documented finding %s (findings/C09.md), which is not listed in KNOWN_FINDINGS.txt" % ",".join(flags)
            else:
                tag = "no documented finding pattern"
            p = chk.write_replay("oracle_%s.case" % c.cid, "# %s\n# %s\n" % (msg2.replace("\n", " "), tag) + small.text())
            chk.violation(p, "C09 fails on the implementation: %s [%s; %d failing cases in this group]" % (msg2, tag, len(lst)))
    if corr_bad or not pr["ok"]:
        what = []
        body = ""
        if not pr["ok"]:
            what.append("proof obligation(s) no longer check: %s %s" % (pr["broken"], pr["problems"]))
        if corr_bad:
            corr_bad.sort(key=lambda t: len(t[0].ops))
            c, idx, msg = corr_bad[0]

            def pred(cc, li, lm, crash):
                return compare(cc, li, lm, crash) is not None
            small = shrink(c, pred)
            what.append("correspondence C09_Model vs EPollPoller/PollPoller/Channel broken at op %d of the case below (%s); %d of %d "
                        "cases differ%s" % (idx, msg, len(corr_bad), len(cases),
                                            "" if oracle_bad else "; the property oracle holds on every case"))
            body = small.text()
        if not body and oracle_bad:
            # the oracle already found an input on which the property fails: name it next to the broken obligation
            c0 = sorted(oracle_bad, key=lambda t: len(t[0].ops))[0][0]
            what.append("a failing input exists (see the oracle violation above); smallest failing case repeated below")
            body = c0.text()
        p = chk.write_replay("broken_obligation.txt", "\n".join("# " + w for w in what) + "\n" + body +
                             ("\n--- coq log tail ---\n" + pr["log"][-3000:] if not pr["ok"] else ""))
        chk.violation(p, "; ".join(what), no_input=not oracle_bad)
    return chk.finish(level="proof", assumptions=[
        "kernel contract (3.4): epoll_wait/poll report a registered descriptor iff its condition intersects events|ERR|HUP|NVAL, "
        "level-triggered; epoll_wait returns min(ready, maxevents) entries (which ones is unconstrained)",
        "interest changes are applied at quiescent points (between polls), descriptors stay open while a Channel on them is registered",
        "the model is tied to the code by differential execution (testing), not by a verified C++ semantics"])
