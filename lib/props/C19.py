"""C19: every RPC completes exactly once with the response that carries its own id.
proof (Properties_C19.v over C19_Model.v, all histories / all schedules) + facts regenerated from the
clang AST of RpcChannel.cc / Atomic.h / rpc.proto (lib/gen_C19.py -> coq/Gen_C19.v, link lemmas in
coq/C19_GenLink.v) + correspondence of the extracted model with the real muduo::net::RpcChannel /
RpcServer::onConnection bound to a real TcpConnection whose peer is a scripted raw socket (ASan/UBSan,
asserts on; helper threads parked at every micro-step boundary of CallMethod, including between two
atomic accesses to id_) + the property text as a Python oracle on the implementation's own trace.
A CallMethod with response == NULL is outside the contract of google::protobuf::RpcChannel::CallMethod:
model and driver reject it; it is only made in `obs=1` cases, where what the code does is compared with
C19_Model.step_code and counted as an observation, never reported."""
import os, re, sys, glob, itertools, time
import vlib

SVC = "c19.TestService"
# observation, outside the property (coordinator's decision): a call made with response == NULL violates the
# contract of google::protobuf::RpcChannel::CallMethod; it is only made in cases whose header says obs=1, and
# what the code then does (entry erased, closure neither run nor deleted) is counted, never reported
OBS_KEY_NULLRESP = "obs-null-response-closure-dropped"
# finding F-21 (findings/C19.md, recorded in KNOWN_FINDINGS.txt): a service completes a deferred request after the connection went down;
# RpcServer::onConnection destroyed the channel, the done callback holds the raw `this`
UAF_KEY = "done-after-down-use-after-free"

LINE = re.compile(r"^(ok|rejected) ev=(\S+) next=(-?\d+) outs=(\S+) pend=(\S+)(?: b:next=(-?\d+) outs=(\S+) pend=(\S+))?$")
FINAL = re.compile(r"^final dtor=(\S+) leaked=(\S+) respleak=(\S+)$")
I64MAX = (1 << 63) - 1


# --------------------------------------------------------------------------- build
def build():
    gen = os.path.join(vlib.WORK, "C19gen")
    os.makedirs(gen, exist_ok=True)
    proto = os.path.join(vlib.ROOT, "harness", "C19_test.proto")
    stamp = os.path.join(gen, "stamp")
    key = vlib.sha_files([proto])
    with vlib.Lock("C19gen"):
        if not (os.path.exists(stamp) and open(stamp).read() == key and os.path.exists(os.path.join(gen, "C19_test.pb.cc"))):
            rc, out = vlib.sh(["protoc", "--cpp_out=" + gen, "-I" + os.path.join(vlib.ROOT, "harness"), proto])
            if rc != 0:
                raise RuntimeError("protoc C19_test.proto failed: " + out)
            open(stamp, "w").write(key)
    impl = vlib.build_driver("C19_driver", ["C19_driver.cc", "C19_rpcchannel.cc", os.path.join(gen, "C19_test.pb.cc")], variant="asan",
                             components=("base", "net", "protobuf", "protorpc"), extra_flags=["-I" + gen],
                             libs=["-lprotobuf", "-lz"], wrap=["write", "pthread_mutex_lock"])
    # C19_rpcchannel.cc = the tree's RpcChannel.cc compiled with the atomic hook (harness/C19_atomic_hook.h)
    model = vlib.build_model("C19")
    return model, impl


# --------------------------------------------------------------------------- oracle (property text)
def _lst(s):
    return [] if s == "-" else s.split(",")


def _outs(s):
    """'1:r1d1,2:r0d1' -> {1: (True, True), 2: (False, True)}"""
    d = {}
    for e in _lst(s):
        i, f = e.rsplit(":", 1)
        d[int(i)] = (f[1] == "1", f[3] == "1")
    return d


def _body(tokens):
    """-> (payload kind 'V'/'X'/None, hex data or None, has error)"""
    kind, data, err = None, None, False
    for t in tokens:
        if t.startswith("p=") and t != "p=-":
            kind = t[2]
            data = t[3:]
        elif t.startswith("e="):
            err = True
    return kind, data, err


def _expected_seen(kind, data):
    if kind is None:
        return "untouched"
    if kind == "X":
        return "garbage"
    return "parsed:" + (data if data and data != "-" else "-")


def oracle(case, lines):
    """The property text evaluated on the implementation's trace.  Returns a list of
    (op index, key, message); empty = the property holds on this history."""
    bad = []
    hdr = case.header.split()
    if "sys=1" in hdr or "sys=2" in hdr:
        return sys_oracle(case, lines)
    svc_on = "svc=1" in hdr or "svc=2" in hdr      # the channel has the service table
    server_owned = "svc=1" in hdr                 # made by RpcServer::onConnection: destroyed on DOWN
    down = False
    obs_mode = "obs=1" in case.header.split()
    if len(lines) < len(case.ops) + 3:
        return [(len(lines) - 1, "truncated", "implementation produced %d lines for %d ops" % (len(lines), len(case.ops)))]
    id_of_tag, tag_of_id = {}, {}
    thread_tag = {}
    runs = {}                # tag -> count
    sent_ids = []
    prev_outs, prev_next = {}, 0
    flags = {}               # tag -> (r, d)
    deferred = {}            # token -> request id
    ntok = 0
    replied = {}             # token -> replies seen
    answered_registered = []  # (op, tag) for which the property demands a run

    def bind(tag, i):
        id_of_tag[tag] = i
        tag_of_id[i] = tag

    for idx, op in enumerate(case.ops):
        m = LINE.match(lines[idx + 1])
        if not m:
            return bad + [(idx, "unparsable", "unparsable output %r" % lines[idx + 1])]
        status, evs, nxt, outs = m.group(1), _lst(m.group(2)), int(m.group(3)), _outs(m.group(4))
        pend = [int(x) for x in _lst(m.group(5))]
        t = op.split()
        k = t[0]
        new_keys = [i for i in outs if i not in prev_outs]
        gone_keys = [i for i in prev_outs if i not in outs]
        ev_kinds = [e.split(":")[0] for e in evs]
        if nxt < prev_next:
            bad.append((idx, "id-counter", "id_ went backwards %d -> %d" % (prev_next, nxt)))
        # ids on the wire are unique
        for e in evs:
            p = e.split(":")
            if p[0] == "send":
                i = int(p[1])
                if i in sent_ids:
                    bad.append((idx, "duplicate-id", "two REQUEST frames carry id %d" % i))
                sent_ids.append(i)
                if p[4] != "-" and len(p[4]) == 4:          # the generator puts the call's tag into the request
                    bind(str(int(p[4], 16)), i)
            if p[0] == "burst":
                sent = int(p[1].split("=")[1])
                distinct = int(p[2].split("=")[1])
                lo, hi = p[3].split("=")[1].split("..")
                want = int(t[1]) * int(t[2])
                if sent != want or distinct != want or int(hi) - int(lo) + 1 != want:
                    bad.append((idx, "duplicate-id", "BURST of %d concurrent calls: %s" % (want, e)))
                for i in range(int(lo), int(hi) + 1):
                    bind("B%d" % i, i)
                    flags["B%d" % i] = (True, True)
        if status == "rejected":
            if evs or outs != prev_outs or nxt != prev_next:
                bad.append((idx, "rejected-op-acted", "an op outside the preconditions changed something"))
            prev_outs, prev_next = outs, nxt
            continue
        # the connection is DOWN: nothing may be sent into it, no closure may run, nothing may be delivered
        if down:
            for e in evs:
                if e.split(":")[0] in ("send", "reply", "run", "dispatch", "burst"):
                    bad.append((idx, "acted-after-down", "op %r after the connection went down: %s" % (op, e)))
                if e.startswith("uaf:"):
                    bad.append((idx, UAF_KEY, "done callback %s ran on a destroyed channel" % e[4:]))
            if k == "DONE" and int(t[1]) in deferred:
                del deferred[int(t[1])]
            if k in ("CALL", "CALLA", "R", "BURST"):
                if server_owned:
                    bad.append((idx, "acted-after-down", "a call was made on a destroyed channel: %r" % op))
            elif outs != prev_outs:
                bad.append((idx, "outstanding-changed", "op %r changed the outstanding calls %s -> %s" % (op, sorted(prev_outs), sorted(outs))))
            if k in ("CALL", "CALLA"):
                flags[t[1]] = (t[2] == "1", t[3] == "1")
            if k == "F":
                flags[t[2]] = (t[3] == "1", t[4] == "1")
            prev_outs, prev_next = outs, nxt
            continue
        if k == "DOWN":
            down = True
            if [e for e in evs if e.split(":")[0] not in ("del", "drop")]:
                bad.append((idx, "acted-after-down", "the connection going down produced %s" % evs))
            if server_owned:
                # ~RpcChannel: every outstanding call's response object and closure deleted, nothing run
                if outs:
                    bad.append((idx, "not-erased", "channel destroyed but calls still outstanding: %s" % sorted(outs)))
                want = []
                for i in sorted(prev_outs):
                    tg = tag_of_id.get(i)
                    r_, d_ = prev_outs[i]
                    want += (["del:%s" % tg] if r_ else []) + (["drop:%s" % tg] if d_ else [])
                if sorted(evs) != sorted(want):
                    bad.append((idx, "dtor-mismatch", "destroying the channel must delete exactly what is outstanding: want %s, got %s" % (want, evs)))
            elif evs or outs != prev_outs:
                bad.append((idx, "acted-after-down", "a user-owned channel must not change when its connection goes down: %s" % evs))
            prev_outs, prev_next = outs, nxt
            continue
        # which response (if any) is delivered by this op, and to which id
        delivered = None
        if k == "RESP":
            kind, data, err = _body(t[2:])
            delivered = (int(t[1]), kind, data)
        elif k == "CALLA":
            kind, data, err = _body(t[6:])
            flags[t[1]] = (t[2] == "1", t[3] == "1")
            sid = [int(e.split(":")[1]) for e in evs if e.startswith("send:")]
            if len(sid) != 1:
                bad.append((idx, "no-request-frame", "CallMethod put %d REQUEST frames on the wire" % len(sid)))
            else:
                bind(t[1], sid[0])
                delivered = (sid[0], kind, data)
        elif k == "CALL":
            flags[t[1]] = (t[2] == "1", t[3] == "1")
            if ev_kinds != ["send"]:
                bad.append((idx, "no-request-frame", "CallMethod on the loop thread: events %s" % evs))
            if len(new_keys) == 1:
                bind(t[1], new_keys[0])
            else:
                bad.append((idx, "not-registered", "after CallMethod returned the call is not outstanding (new keys %s)" % new_keys))
        elif k == "F":
            flags[t[2]] = (t[3] == "1", t[4] == "1")
            thread_tag[t[1]] = t[2]
        elif k == "R":
            if len(new_keys) == 1 and t[1] in thread_tag:
                bind(thread_tag[t[1]], new_keys[0])
        elif k == "S":
            # registration precedes the send: when the REQUEST frame appears the call must be outstanding or completed
            for e in evs:
                if e.startswith("send:"):
                    i = int(e.split(":")[1])
                    tg = thread_tag.get(t[1])
                    if tg is not None and tg not in id_of_tag:
                        bind(tg, i)
                    if i not in outs and i not in prev_outs and runs.get(tag_of_id.get(i), 0) == 0 and \
                            flags.get(tag_of_id.get(i), (True, True)) == (True, True):
                        bad.append((idx, "send-before-register", "REQUEST %d is on the wire but the call is not registered" % i))
        # closures
        for e in evs:
            p = e.split(":", 2)
            if p[0] == "run":
                tag, seen = p[1], p[2]
                runs[tag] = runs.get(tag, 0) + 1
                if runs[tag] > 1:
                    bad.append((idx, "closure-twice", "closure of call %s ran %d times" % (tag, runs[tag])))
                if delivered is None:
                    bad.append((idx, "closure-without-response", "closure of call %s ran in op %r which delivers no response" % (tag, op)))
                else:
                    own = id_of_tag.get(tag)
                    if own is None and len(gone_keys) == 1:
                        own = gone_keys[0]
                    if own != delivered[0]:
                        bad.append((idx, "wrong-closure", "closure of call %s (id %s) ran for the response with id %d" % (tag, own, delivered[0])))
                    if seen != _expected_seen(delivered[1], delivered[2]):
                        bad.append((idx, "wrong-payload", "closure of call %s saw %s, the response with its id carries %s"
                                    % (tag, seen, _expected_seen(delivered[1], delivered[2]))))
            elif p[0] in ("leak", "del"):
                if delivered is None:
                    bad.append((idx, "closure-without-response", "%s in op %r which delivers no response" % (e, op)))
        if delivered is not None:
            i = delivered[0]
            was = prev_outs.get(i)
            if k == "CALLA":
                was = flags[t[1]]                       # registered by this very op, before the send
            if was is None:
                # unknown or already consumed id: nothing may happen
                if [x for x in ev_kinds if x in ("run", "del", "leak")] or outs != prev_outs:
                    bad.append((idx, "unknown-id-acted", "response with unknown/consumed id %d: events %s, outstanding %s -> %s"
                                % (i, evs, sorted(prev_outs), sorted(outs))))
            else:
                r, d = was
                tag = tag_of_id.get(i)
                ran_here = [e for e in evs if e.startswith("run:")]
                if i in outs:
                    bad.append((idx, "not-erased", "call %d answered but still outstanding" % i))
                if d and not ran_here:
                    key = OBS_KEY_NULLRESP if (not r and obs_mode and ("leak:%s" % tag) in evs) else "answered-not-run"
                    bad.append((idx, key, "a response with id %d was delivered after call %s was registered, its closure did not run%s"
                                % (i, tag, " (response object NULL: entry erased, closure neither run nor deleted)" if not r else "")))
                if not d and ran_here:
                    bad.append((idx, "closure-without-response", "a call without closure ran %s" % ran_here))
        elif k not in ("CALL", "CALLA", "R", "BURST") and outs != prev_outs:
            bad.append((idx, "outstanding-changed", "op %r changed the outstanding calls %s -> %s" % (op, sorted(prev_outs), sorted(outs))))
        # serving side
        replies = [e for e in evs if e.startswith("reply:")]
        disp = [e for e in evs if e.startswith("dispatch:")]
        if k == "REQ":
            rid, svc, meth, pl = int(t[1]), t[2], t[3], t[4]
            if not (svc_on and svc == SVC):
                want = "e=NO_SERVICE"
            elif meth not in ("Echo", "Defer"):
                want = "e=NO_METHOD"
            elif pl.startswith("X"):
                want = "e=INVALID_REQUEST"
            else:
                want = None
            data = "-" if pl in ("-", "V-") else pl[1:]
            if want is not None:
                if replies != ["reply:%d:%s" % (rid, want)] or disp:
                    bad.append((idx, "server-reply", "request %r must get exactly one RESPONSE %d %s, got %s" % (op, rid, want, evs)))
            elif meth == "Echo":
                if len(disp) != 1 or replies != ["reply:%d:p=%s" % (rid, data)]:
                    bad.append((idx, "server-reply", "request %r must get exactly the service's reply with id %d, got %s" % (op, rid, evs)))
                ntok += 1
            else:
                if len(disp) != 1 or replies:
                    bad.append((idx, "server-reply", "deferred request %r: events %s" % (op, evs)))
                else:
                    deferred[int(disp[0].split(":")[1])] = rid
                ntok += 1
        elif k == "DONE":
            tk = int(t[1])
            data = "-" if t[2] == "-" else t[2]
            if tk in deferred:
                if replies != ["reply:%d:p=%s" % (deferred[tk], data)]:
                    bad.append((idx, "server-reply", "done callback of request id %d must send exactly its reply, got %s" % (deferred[tk], evs)))
                del deferred[tk]
            elif replies:
                bad.append((idx, "server-reply", "a RESPONSE without a request: %s" % evs))
        elif replies or disp:
            bad.append((idx, "server-reply", "op %r produced %s" % (op, evs)))
        prev_outs, prev_next = outs, nxt
    fm = FINAL.match(lines[len(case.ops) + 1])
    if not fm:
        bad.append((len(case.ops), "unparsable", "bad final line %r" % lines[len(case.ops) + 1]))
    else:
        if fm.group(3) != "-":
            bad.append((len(case.ops), "response-leaked", "response objects never deleted: " + fm.group(3)))
        for tag in _lst(fm.group(2)):
            r, d = flags.get(tag, (True, True))
            if r:
                bad.append((len(case.ops), "closure-leaked", "closure of call %s neither run nor deleted" % tag))
    return bad


# --------------------------------------------------------------------------- generators
def req_of(tag):
    return "%04x" % tag


def call(tag, r=1, d=1, meth="Echo"):
    return "CALL %d %d %d %s %s" % (tag, r, d, meth, req_of(tag))


FOREIGN = [0, -1, 99, 1000000, I64MAX, -(1 << 63)]


def aliases(i):
    """ids that coincide with i after a narrowing / sign mistake (16, 31, 32 bits, sign bit): all foreign"""
    return [i + (1 << 32), i - (1 << 32), i + (1 << 31), i + (1 << 16), i + (1 << 62), -i, i - (1 << 63)]
CORRUPT = ["X0a0501", "Xff", "X0a"]
ERRS = ["NO_SERVICE", "NO_METHOD", "INVALID_REQUEST", "WRONG_PROTO", "TIMEOUT", "NO_ERROR"]


def resp(i, rng=None, plain=False):
    if plain or rng is None:
        return "RESP %d p=V%04x" % (i, (i * 7 + 3) & 0xffff)
    x = rng.random()
    if x < 0.55:
        return "RESP %d p=V%04x" % (i, rng.randrange(65536))
    if x < 0.65:
        return "RESP %d p=V-" % i
    if x < 0.78:
        return "RESP %d e=%s" % (i, rng.choice(ERRS))
    if x < 0.88:
        return "RESP %d p=%s" % (i, rng.choice(CORRUPT))
    if x < 0.95:
        return "RESP %d p=V%02x e=%s" % (i, rng.randrange(256), rng.choice(ERRS))
    return "RESP %d" % i                          # neither field: outside the assert


def decorate(rng, ids, order):
    """responses: the permutation [order] of [ids] with duplicates, foreign ids and omissions mixed in"""
    ops = []
    done = []
    for i in order:
        x = rng.random()
        if x < 0.12:
            continue                                  # omission
        if x < 0.30 and done:
            ops.append(resp(rng.choice(done), rng))   # duplicate of a consumed id
        if x > 0.80:
            ops.append(resp(rng.choice(FOREIGN + [max(ids) + 1, max(ids) + 2] + aliases(i)), rng))
        ops.append(resp(i, rng))
        done.append(i)
        if rng.random() < 0.15:
            ops.append(resp(i, rng))                  # immediate duplicate
    return ops


def gen_permutations(rng, tier):
    n_id = 0
    for n in range(1, 6):
        for perm in itertools.permutations(range(1, n + 1)):
            n_id += 1
            calls = [call(c) for c in range(1, n + 1)]
            yield vlib.Case("perm%d_%d" % (n, n_id), "svc=0", calls + [resp(i, plain=True) for i in perm], "perm-plain")
            if n >= 2:
                flagsv = [(1, 1)] * n
                if rng.random() < 0.25:
                    j = rng.randrange(n)
                    flagsv[j] = rng.choice([(1, 0), (0, 0)])
                calls = [call(c, flagsv[c - 1][0], flagsv[c - 1][1], rng.choice(["Echo", "Defer"])) for c in range(1, n + 1)]
                yield vlib.Case("permd%d_%d" % (n, n_id), "svc=%d" % rng.randrange(2), calls + decorate(rng, list(range(1, n + 1)), perm), "perm-decorated")
    if tier != "quick":
        # thorough: ALL permutations of the responses to 6 and 7 outstanding calls as well
        for n in (6, 7):
            for perm in itertools.permutations(range(1, n + 1)):
                n_id += 1
                yield vlib.Case("perm%d_%d" % (n, n_id), "svc=0", [call(c) for c in range(1, n + 1)] + [resp(i, plain=True) for i in perm], "perm-plain")
    count = 1500 if tier == "quick" else 60000
    for j in range(count):
        n = rng.randint(6, 8)
        order = list(range(1, n + 1))
        rng.shuffle(order)
        # calls and responses interleaved: a response may only be "own" once its call exists, otherwise it is foreign
        ops, issued, pending_resp = [], 0, list(order)
        while issued < n or pending_resp:
            if issued < n and (not pending_resp or rng.random() < 0.6):
                issued += 1
                ops.append(call(issued, meth=rng.choice(["Echo", "Defer"])))
            else:
                i = pending_resp.pop(0)
                ops += decorate(rng, [i], [i])
        yield vlib.Case("big%d" % j, "svc=%d" % rng.randrange(2), ops, "perm-random-6to8")


def interleavings(progs):
    """all interleavings of the given per-thread op lists"""
    if all(not p for p in progs):
        yield []
        return
    for i, p in enumerate(progs):
        if p:
            rest = [q[1:] if j == i else q for j, q in enumerate(progs)]
            for tail in interleavings(rest):
                yield [p[0]] + tail


def thread_prog(t, tags):
    ops = []
    for c in tags:
        ops += ["F %d %d 1 1 Echo %s" % (t, c, req_of(c)), "R %d" % t, "S %d" % t]
    return ops


def with_responses(rng, ops, density):
    """insert responses aimed at the ids in flight: fetched-not-registered (must be ignored),
    registered-not-sent, sent, consumed, foreign"""
    out, nxt, fetched = [], 0, {}
    for op in ops:
        t = op.split()
        if t[0] == "F":
            nxt += 1
            fetched[t[1]] = nxt
        out.append(op)
        while rng.random() < density and nxt > 0:
            out.append(resp(rng.choice(list(range(1, nxt + 1)) + [nxt + 1, 0] + aliases(rng.randint(1, nxt))[:4]), rng))
    for i in range(1, nxt + 1):
        if rng.random() < 0.8:
            out.append(resp(i, rng))
    return out


def gen_threads(rng, tier):
    n = 0
    for il in interleavings([thread_prog(1, [1]), thread_prog(2, [2])]):
        n += 1
        yield vlib.Case("il2_%d" % n, "svc=0", il + ["RESP 2 p=V02", "RESP 1 p=V01"], "threads-2-all")
        yield vlib.Case("il2r_%d" % n, "svc=0", with_responses(rng, il, 0.35), "threads-2-responses")
    all3 = list(interleavings([thread_prog(1, [1]), thread_prog(2, [2]), thread_prog(3, [3])]))
    pick = all3 if tier != "quick" else rng.sample(all3, 600)
    for il in pick:
        n += 1
        yield vlib.Case("il3_%d" % n, "svc=%d" % rng.randrange(2), with_responses(rng, il, 0.25), "threads-3")
    if tier != "quick":
        # thorough: all interleavings of two threads making two calls each (924), responses aimed at ids in flight
        for il in interleavings([thread_prog(1, [1, 2]), thread_prog(2, [3, 4])]):
            n += 1
            yield vlib.Case("il22_%d" % n, "svc=0", with_responses(rng, il, 0.25), "threads-2x2-all")
        # ... and sampled interleavings of four threads
        for j in range(5000):
            progs = [thread_prog(t, [t]) for t in (1, 2, 3, 4)]
            il = []
            while any(progs):
                p = rng.choice([p for p in progs if p])
                il.append(p.pop(0))
            n += 1
            yield vlib.Case("il4_%d" % n, "svc=%d" % rng.choice([0, 0, 2]), with_responses(rng, il, 0.2), "threads-4")
    count = 1500 if tier == "quick" else 60000
    for j in range(count):
        nt = rng.randint(1, 3)
        progs, tag = [], 0
        for t in range(1, nt + 1):
            k = rng.randint(1, 3)
            progs.append(thread_prog(t, list(range(tag + 1, tag + k + 1))))
            tag += k
        # loop-thread calls in between
        progs.append([call(100 + x) for x in range(rng.randint(0, 2))])
        il = []
        progs = [list(p) for p in progs]
        while any(progs):
            p = rng.choice([p for p in progs if p])
            il.append(p.pop(0))
        if rng.random() < 0.3:
            cut = rng.randrange(len(il))
            il = il[:cut]                               # threads left parked: released at the end of the case
        yield vlib.Case("thr%d" % j, "svc=0", with_responses(rng, il, 0.3), "threads-random")


def gen_immediate(rng, tier):
    bodies = ["p=V4142", "p=V-", "e=NO_SERVICE", "e=NO_METHOD", "e=INVALID_REQUEST", "p=X0a0501", "p=V01 e=NO_ERROR", ""]
    n = 0
    for b in bodies:
        for (r, d) in [(1, 1), (1, 0), (0, 0)]:
            n += 1
            ops = [call(1), "CALLA 2 %d %d Echo %s %s" % (r, d, req_of(2), b), "RESP 2 p=V00", "RESP 1 p=V11",
                   "CALLA 3 1 1 Defer %s %s" % (req_of(3), b)]
            yield vlib.Case("imm%d" % n, "svc=%d" % (n % 2), [o.strip() for o in ops], "immediate-answer")


def gen_burst(rng, tier):
    n = 0
    reps = 12 if tier == "quick" else 100
    for rep in range(reps):
        for nt in ((1, 2, 3) if tier == "quick" else (1, 2, 3, 6)):
            for per in ((1, 4, 25) if tier == "quick" else (1, 4, 25, 60)):
                n += 1
                pre = [call(c) for c in range(1, rng.randint(0, 2) + 1)]
                base = len(pre)
                total = nt * per
                ids = list(range(base + 1, base + total + 1))
                rng.shuffle(ids)
                ops = pre + ["BURST %d %d 0" % (nt, per)]
                for i in ids[:rng.randint(0, total)]:
                    ops.append(resp(i, plain=True))
                    if rng.random() < 0.2:
                        ops.append(resp(i, plain=True))
                yield vlib.Case("burst%d" % n, "svc=0", ops, "burst-concurrent")


SVCS = [SVC, SVC, SVC, "c19.Nope", "c19.TestServic", "-"]
METHS = ["Echo", "Defer", "Echo", "Defer", "Nope", "echo", "-"]
PAYS = ["V41", "V4142434445", "V-", "-", "X0a0501", "Xff", "X0a"]
RIDS = [0, 1, 5, 5, -1, 77, I64MAX, -(1 << 63)]


def gen_server(rng, tier):
    n = 0
    for s in [SVC, "c19.Nope", "-"]:
        for m in ["Echo", "Defer", "Nope", "-"]:
            for p in ["V41", "V-", "-", "X0a0501", "Xff"]:
                for on in (1, 0):
                    n += 1
                    ops = ["REQ %d %s %s %s" % (rng.choice(RIDS), s, m, p), "DONE 0 %02x" % n, "DONE 0 00"]
                    yield vlib.Case("srv%d" % n, "svc=%d" % on, ops, "server-enumerated")
    count = 2000 if tier == "quick" else 80000
    for j in range(count):
        ops, ntok, open_toks = [], 0, []
        for _ in range(rng.randint(2, 10)):
            x = rng.random()
            if x < 0.6:
                s, m, p = rng.choice(SVCS), rng.choice(METHS), rng.choice(PAYS)
                ops.append("REQ %d %s %s %s" % (rng.choice(RIDS), s, m, p))
                if s == SVC and m in ("Echo", "Defer") and not p.startswith("X"):
                    if m == "Defer":
                        open_toks.append(ntok)
                    ntok += 1
            elif x < 0.85 and open_toks:
                k = rng.choice(open_toks)
                if rng.random() < 0.85:
                    open_toks.remove(k)
                    ops.append("DONE %d %02x" % (k, rng.randrange(256)))
                else:
                    ops.append("DONE %d 00" % (ntok + 3))          # no such callback
            elif x < 0.92:
                ops.append(call(200 + len(ops)))
            elif x < 0.96:
                ops.append("OTHER %d" % rng.choice(RIDS))
            else:
                ops.append(resp(rng.choice([1, 2, 3, 0]), rng))
        yield vlib.Case("srvr%d" % j, "svc=%d" % (0 if rng.random() < 0.15 else 1), ops, "server-random")


def gen_null_response(rng, tier):
    """out-of-contract calls (response == NULL, with a closure) among ordinary ones.  obs=1: the call is made
    all the same and model and implementation are compared on it (observation, never a violation);
    without obs=1 the same history must REJECT the call on both sides and serve the others."""
    for j in range(10 if tier == "quick" else 100):
        n = rng.randint(1, 4)
        v = rng.randrange(n) + 1
        ops = [call(c, 0 if c == v else 1, 1) for c in range(1, n + 1)]
        order = list(range(1, n + 1))
        rng.shuffle(order)
        ops += [resp(i, plain=True) for i in order]
        yield vlib.Case("nullresp%d" % j, "svc=0 obs=1", ops, "obs-null-response")
        yield vlib.Case("nullrej%d" % j, "svc=0", ops, "null-response-rejected")


def gen_down(rng, tier):
    """the connection goes DOWN in the middle of a history.
    svc=1 (channel owned by RpcServer::onConnection: destroyed): outstanding calls are deleted, later calls /
    frames are rejected; every deferred request is completed BEFORE the DOWN or never (tag down-server-safe);
    svc=2 / svc=0 (user-owned): calls go on registering, nothing reaches the wire, deferred requests completed
    after the DOWN have their reply dropped; helper threads straddle the DOWN at every micro-step boundary;
    down-done-after: svc=1 and a deferred request completed AFTER the DOWN (proposed finding, see findings/C19.md)."""
    n = 0
    # a helper thread's CallMethod with the DOWN at each of its micro-step boundaries (user-owned channel)
    for mode in (0, 2):
        for pos in range(4):
            ops = ["F 1 1 1 1 Echo 0001", "R 1", "S 1"]
            ops.insert(pos, "DOWN")
            n += 1
            yield vlib.Case("downmicro%d" % n, "svc=%d" % mode, [call(9)] + ops + ["RESP 1 p=V01", call(10), "DOWN"], "down-user-owned")
    count = 300 if tier == "quick" else 15000
    for j in range(count):
        mode = rng.choice([1, 1, 2, 2, 0])
        ops, ntok, open_toks, ncall, helpers = [], 0, [], 0, {}
        pre = rng.randint(1, 7)
        for _ in range(pre):
            x = rng.random()
            if x < 0.35:
                ncall += 1
                ops.append(call(ncall, 1, rng.choice([1, 1, 0]), rng.choice(["Echo", "Defer"])))
            elif x < 0.65 and mode != 0:
                m = rng.choice(["Echo", "Defer", "Defer", "Nope"])
                ops.append("REQ %d %s %s %s" % (rng.choice(RIDS), SVC, m, rng.choice(["V41", "V-", "X0a"])))
                if m in ("Echo", "Defer") and not ops[-1].endswith("X0a"):
                    if m == "Defer":
                        open_toks.append(ntok)
                    ntok += 1
            elif x < 0.8 and open_toks:
                ops.append("DONE %d %02x" % (open_toks.pop(rng.randrange(len(open_toks))), rng.randrange(256)))
            elif x < 0.9 and ncall:
                ops.append(resp(rng.randint(1, ncall), rng))
            elif mode != 1 and len(helpers) < 2:
                t = min(u for u in (1, 2) if u not in helpers)
                ncall += 1
                helpers[t] = ["R %d" % t, "S %d" % t]
                ops.append("F %d %d 1 1 Echo %s" % (t, ncall, req_of(ncall)))
            for t in list(helpers):
                if helpers[t] and rng.random() < 0.4:
                    ops.append(helpers[t].pop(0))
        if mode == 1 and rng.random() < 0.5:
            while open_toks:                             # the service answers everything before the peer goes away
                ops.append("DONE %d %02x" % (open_toks.pop(0), rng.randrange(256)))
        ops.append("DOWN")
        for _ in range(rng.randint(1, 5)):
            x = rng.random()
            if x < 0.3:
                ncall += 1
                ops.append(call(ncall))
            elif x < 0.45:
                ops.append(resp(rng.randint(1, max(1, ncall)), rng))
            elif x < 0.55:
                ops.append("REQ 5 %s Echo V41" % SVC)
            elif x < 0.6:
                ops.append("DOWN")
            elif x < 0.8 and open_toks and mode != 1:
                ops.append("DONE %d %02x" % (open_toks.pop(0), rng.randrange(256)))
            else:
                for t in list(helpers):
                    if helpers[t]:
                        ops.append(helpers[t].pop(0))
                        break
        yield vlib.Case("down%d" % j, "svc=%d" % mode, ops, "down-server-safe" if mode == 1 else "down-user-owned")
    for j in range(4 if tier == "quick" else 40):
        k = rng.randint(1, 3)
        ops = ["REQ %d %s Defer V%02x" % (10 + i, SVC, i) for i in range(k)]
        late = rng.randrange(k)
        ops += ["DONE %d 01" % i for i in range(k) if i != late and rng.random() < 0.5]
        ops += ["DOWN", "DONE %d 02" % late]
        yield vlib.Case("downuaf%d" % j, "svc=1", ops, "down-done-after")


# --------------------------------------------------------------------------- two channels (client + server)
def sys_oracle(case, lines):
    """The first and last sentence of the property joined, on a trace of TWO real channels (sys=1: the client's end A calls,
    the server's end B serves; sys=2: both ends call and serve, and either connection may go DOWN): every closure runs at
    most once, only when ITS end reads, and sees the reply the service at the OTHER end made for ITS request (Echo: the
    request itself; Defer: the data that service supplied when it completed the callback it was handed for that request;
    the unregistered service: nothing, an error reply); after an end's DOWN none of its closures runs and nothing is
    dispatched there; calls outstanding on the channel RpcServer made are dropped, not run, when it goes DOWN; once
    everything has been pumped and completed (no DOWN), every call has completed exactly once."""
    bad = []
    if len(lines) < len(case.ops) + 3:
        return [(len(lines) - 1, "truncated", "implementation produced %d lines for %d ops" % (len(lines), len(case.ops)))]
    calls = {}            # tag -> (end, meth, req hex, has closure)
    runs, drops = {}, {}
    tok_req = {"A": {}, "B": {}}      # serving end -> token -> (meth, request data)
    tok_reply = {"A": {}, "B": {}}
    down = {"A": False, "B": False}
    outs = outsb = {}
    for idx, op in enumerate(case.ops):
        m = LINE.match(lines[idx + 1])
        if not m:
            return bad + [(idx, "unparsable", "unparsable output %r" % lines[idx + 1])]
        status, evs, outs = m.group(1), _lst(m.group(2)), _outs(m.group(4))
        outsb = _outs(m.group(7)) if m.group(7) else {}
        t = op.split()
        k = t[0]
        if status == "rejected":
            if evs:
                bad.append((idx, "rejected-op-acted", "a rejected op produced %s" % evs))
            continue
        reader = {"PUMPC": "A", "PUMPA": "A", "PUMPS": "B", "PUMPB": "B"}.get(k)
        if k == "CALL":
            calls[t[1]] = ("A", t[4], t[5], t[3] == "1")
        elif k == "CALLB":
            calls[t[1]] = ("B", t[4], t[5], t[3] == "1")
        elif k == "F":
            calls[t[2]] = ("A", t[5], t[6], t[4] == "1")
        elif k == "DONE":
            tok_reply["B"][int(t[1])] = "-" if t[2] == "-" else t[2]
        elif k == "ADONE":
            tok_reply["A"][int(t[1])] = "-" if t[2] == "-" else t[2]
        elif k in ("DOWNA", "DOWNB"):
            down[k[-1]] = True
        for e in evs:
            p = e.split(":")
            if p[0] in ("dispatch", "adispatch"):
                srv = "A" if p[0] == "adispatch" else "B"
                if reader != srv:
                    bad.append((idx, "sys-dispatch", "the service at end %s was called in op %r" % (srv, op)))
                if down[srv]:
                    bad.append((idx, "acted-after-down", "end %s interpreted a frame after its DOWN: %s" % (srv, e)))
                tok_req[srv][int(p[1])] = (p[2], p[3])
            elif p[0] == "run":
                tag, seen = p[1], e.split(":", 2)[2]
                runs[tag] = runs.get(tag, 0) + 1
                if runs[tag] > 1:
                    bad.append((idx, "closure-twice", "closure of call %s ran %d times" % (tag, runs[tag])))
                if tag not in calls:
                    bad.append((idx, "wrong-closure", "closure of an unknown call %s" % tag))
                    continue
                end, meth, req, _ = calls[tag]
                srv = "B" if end == "A" else "A"
                if reader != end:
                    bad.append((idx, "closure-without-response", "closure of call %s (made at end %s) ran in op %r" % (tag, end, op)))
                if down[end] or tag in drops:
                    bad.append((idx, "acted-after-down", "closure of call %s ran after its end went DOWN / was dropped" % tag))
                reqd = "-" if req in ("-", "") else req
                if meth == "Ping":
                    want = "untouched"
                elif meth == "Echo":
                    want = "parsed:" + reqd
                else:
                    ks = [kk for kk, (mm, rq) in tok_req[srv].items() if mm == "Defer" and rq == reqd and kk in tok_reply[srv]]
                    want = ("parsed:" + tok_reply[srv][ks[0]]) if len(ks) == 1 else "<the service has not replied to this call's request>"
                if seen != want:
                    bad.append((idx, "wrong-reply", "closure of call %s (%s %s) saw %s, the service's reply for its request is %s"
                                % (tag, meth, req, seen, want)))
            elif p[0] == "drop":
                drops[p[1]] = drops.get(p[1], 0) + 1
                if k != "DOWNB" or calls.get(p[1], ("?",))[0] != "B" or drops[p[1]] > 1 or runs.get(p[1], 0):
                    bad.append((idx, "dtor-mismatch", "closure of call %s dropped in op %r (runs so far %d, drops %d)" % (p[1], op, runs.get(p[1], 0), drops[p[1]])))
            elif p[0] in ("send", "reply"):
                bad.append((idx, "sys-frame-visible", "frame event %s in a two-channel case" % e))
            elif p[0] == "uaf":
                bad.append((idx, UAF_KEY, "done callback %s ran on a destroyed channel" % p[1]))
        if k == "DOWNB" and outsb:
            bad.append((idx, "not-erased", "end B's channel destroyed but calls still outstanding: %s" % sorted(outsb)))
    if "quiesce=1" in case.header.split():
        for tag, (end, meth, req, d) in calls.items():
            n = runs.get(tag, 0)
            if n != (1 if d else 0):
                bad.append((len(case.ops), "not-exactly-once", "nothing is in flight any more: closure of call %s (%s, end %s) ran %d times" % (tag, meth, end, n)))
        if outs or outsb:
            bad.append((len(case.ops), "not-erased", "nothing is in flight but calls are still outstanding: %s %s" % (sorted(outs), sorted(outsb))))
    fm = FINAL.match(lines[len(case.ops) + 1])
    if not fm:
        bad.append((len(case.ops), "unparsable", "bad final line %r" % lines[len(case.ops) + 1]))
    elif fm.group(2) != "-" or fm.group(3) != "-":
        bad.append((len(case.ops), "closure-leaked", "leaked: %s %s" % (fm.group(2), fm.group(3))))
    return bad


def gen_bi(rng, tier):
    """two real channels, both calling and serving; either connection may go DOWN in the middle"""
    count = 300 if tier == "quick" else 15000
    for j in range(count):
        ops, tag = [], 0
        helper = None                                  # (remaining steps, meth) of the helper thread at end A
        wire = {"A": [], "B": []}                      # requests written towards that end and not yet read
        ntok = {"A": 0, "B": 0}
        open_toks = {"A": [], "B": []}
        down = {"A": False, "B": False}
        with_down = rng.random() < 0.35

        def pump(end):
            ops.append("PUMP" + end)
            if down[end]:
                return
            for meth in wire[end]:
                if meth in ("Echo", "Defer"):
                    if meth == "Defer":
                        open_toks[end].append(ntok[end])
                    ntok[end] += 1
            wire[end] = []

        for _ in range(rng.randint(4, 16)):
            x = rng.random()
            if x < 0.18 and not (down["A"] and False):
                tag += 1
                meth = rng.choice(["Echo", "Defer", "Defer", "Ping"])
                ops.append("CALL %d 1 %d %s %s" % (tag, rng.choice([1, 1, 1, 0]), meth, req_of(tag)))
                if not down["A"]:
                    wire["B"].append(meth)
            elif x < 0.36 and not down["B"]:
                tag += 1
                meth = rng.choice(["Echo", "Defer", "Defer", "Ping"])
                ops.append("CALLB %d 1 %d %s %s" % (tag, rng.choice([1, 1, 1, 0]), meth, req_of(tag)))
                wire["A"].append(meth)
            elif x < 0.44 and helper is None:
                tag += 1
                meth = rng.choice(["Echo", "Defer", "Ping"])
                helper = (["R 1", "S 1"], meth)
                ops.append("F 1 %d 1 1 %s %s" % (tag, meth, req_of(tag)))
            elif x < 0.52 and helper is not None:
                st = helper[0].pop(0)
                ops.append(st)
                if st.startswith("S"):
                    if not down["A"]:
                        wire["B"].append(helper[1])
                    helper = None
            elif x < 0.66:
                pump("B")
            elif x < 0.80:
                pump("A")
            elif x < 0.88:
                if open_toks["B"] and not down["B"]:      # a DONE after end B's DOWN is F-21: kept out of these histories
                    ops.append("DONE %d %02x" % (open_toks["B"].pop(rng.randrange(len(open_toks["B"]))), rng.randrange(256)))
            elif x < 0.95:
                if open_toks["A"]:
                    ops.append("ADONE %d %02x" % (open_toks["A"].pop(rng.randrange(len(open_toks["A"]))), rng.randrange(256)))
            elif with_down:
                end = rng.choice(["A", "B"])
                if not down[end]:
                    ops.append("DOWN" + end)
                    down[end] = True
                    if end == "B":
                        open_toks["B"] = []
        hdr = "svc=0 sys=2" + rng.choice(["", "", " seg=1", " seg=5", " seg=16"])
        if not (down["A"] or down["B"]) and rng.random() < 0.8:
            if helper is not None:
                ops += helper[0]
                wire["B"].append(helper[1])
                helper = None
            pump("B")
            pump("A")
            for end, opn in (("B", "DONE"), ("A", "ADONE")):
                rng.shuffle(open_toks[end])
                ops += ["%s %d %02x" % (opn, k, rng.randrange(256)) for k in open_toks[end]]
                open_toks[end] = []
            ops += ["PUMPA", "PUMPB"]
            hdr += " quiesce=1"
        yield vlib.Case("bi%d" % j, hdr, ops, "two-channels-both-ways" + ("-down" if (down["A"] or down["B"]) else ""))


def gen_sys(rng, tier):
    """two real channels: random interleavings of calls (loop thread and helper threads cut at their micro-steps),
    the server reading, the service completing deferred requests in any order, the client reading"""
    count = 300 if tier == "quick" else 15000
    for j in range(count):
        ops, tag, helpers = [], 0, {}
        wire, ntok, open_toks = [], 0, []             # requests written and not yet read by the server: (meth)
        for _ in range(rng.randint(3, 14)):
            x = rng.random()
            if x < 0.3:
                tag += 1
                meth = rng.choice(["Echo", "Defer", "Defer", "Ping"])
                ops.append("CALL %d 1 %d %s %s" % (tag, rng.choice([1, 1, 1, 0]), meth, req_of(tag)))
                wire.append(meth)
            elif x < 0.45 and len(helpers) < 2:
                t = min(u for u in (1, 2) if u not in helpers)
                tag += 1
                meth = rng.choice(["Echo", "Defer", "Ping"])
                helpers[t] = (["R %d" % t, "S %d" % t], meth)
                ops.append("F %d %d 1 1 %s %s" % (t, tag, meth, req_of(tag)))
            elif x < 0.6:
                for t in list(helpers):
                    steps, meth = helpers[t]
                    if steps:
                        st = steps.pop(0)
                        ops.append(st)
                        if st.startswith("S"):
                            wire.append(meth)
                            del helpers[t]
                        break
            elif x < 0.75:
                ops.append("PUMPS")
                for meth in wire:
                    if meth in ("Echo", "Defer"):
                        if meth == "Defer":
                            open_toks.append(ntok)
                        ntok += 1
                wire = []
            elif x < 0.88:
                if open_toks and rng.random() < 0.9:
                    ops.append("DONE %d %02x" % (open_toks.pop(rng.randrange(len(open_toks))), rng.randrange(256)))
                else:
                    ops.append("DONE %d 00" % (ntok + 2))
            else:
                ops.append("PUMPC")
        hdr = "svc=0 sys=1" + rng.choice(["", "", " seg=1", " seg=3", " seg=8", " seg=40"])
        if rng.random() < 0.8:
            for t in sorted(helpers):
                ops += helpers[t][0]
                wire.append(helpers[t][1])
            helpers = {}
            ops.append("PUMPS")
            for meth in wire:
                if meth in ("Echo", "Defer"):
                    if meth == "Defer":
                        open_toks.append(ntok)
                    ntok += 1
            rng.shuffle(open_toks)
            ops += ["DONE %d %02x" % (k, rng.randrange(256)) for k in open_toks]
            ops.append("PUMPC")
            hdr += " quiesce=1"
        yield vlib.Case("sys%d" % j, hdr, ops, "two-channels")


# --------------------------------------------------------------------------- RpcMessage wire format
# an independent reference codec, written from the protobuf encoding documentation and rpc.proto (proto2)
def py_varint(x):
    out = bytearray()
    while True:
        if x < 128:
            out.append(x)
            return bytes(out)
        out.append((x & 127) | 128)
        x >>= 7


def py_ser(t, mid, svc, meth, req, resp, err):
    """fields in field-number order; None = absent"""
    b = b"\x08" + py_varint(t) + b"\x11" + mid.to_bytes(8, "little")
    for num, v in ((3, svc), (4, meth), (5, req), (6, resp)):
        if v is not None:
            b += bytes([num * 8 + 2]) + py_varint(len(v)) + v
    if err is not None:
        b += b"\x38" + py_varint(err)
    return b


class _Reject(Exception):
    pass


def _rd_varint(b, i, maxlen):
    v = 0
    for k in range(maxlen):
        if i + k >= len(b):
            raise _Reject()
        v |= (b[i + k] & 127) << (7 * k)
        if b[i + k] < 128:
            return v, i + k + 1
    raise _Reject()


def _rd_len(b, i):
    n, i = _rd_varint(b, i, 5)
    if n >= (1 << 31) - 16 or i + n > len(b):
        raise _Reject()
    return b[i:i + n], i + n


def _skip(b, i, wt, fnum, depth=0):
    if wt == 0:
        return _rd_varint(b, i, 10)[1]
    if wt == 1:
        if i + 8 > len(b):
            raise _Reject()
        return i + 8
    if wt == 2:
        return _rd_len(b, i)[1]
    if wt == 5:
        if i + 4 > len(b):
            raise _Reject()
        return i + 4
    if wt == 3:
        while True:
            tag, i = _rd_varint(b, i, 5)
            tag &= 0xffffffff
            if tag == 0:
                raise _Reject()
            if tag & 7 == 4:
                if tag >> 3 != fnum:
                    raise _Reject()
                return i
            if tag >> 3 == 0:
                raise _Reject()
            i = _skip(b, i, tag & 7, tag >> 3, depth + 1)
    raise _Reject()


def _int32(v):
    v &= 0xffffffff
    return v - (1 << 32) if v >= (1 << 31) else v


def py_parse(b):
    """-> (type, id, svc, meth, req, resp, err) or None (rejected)"""
    f = {}
    i = 0
    try:
        while i < len(b):
            tag, i = _rd_varint(b, i, 5)
            tag &= 0xffffffff
            fnum, wt = tag >> 3, tag & 7
            if tag == 0 or wt == 4 or fnum == 0:
                raise _Reject()
            if (fnum, wt) in ((1, 0), (7, 0)):
                v, i = _rd_varint(b, i, 10)
                v = _int32(v & ((1 << 64) - 1))
                if (fnum == 1 and v in (1, 2, 3)) or (fnum == 7 and 0 <= v <= 6):
                    f[fnum] = v
            elif (fnum, wt) == (2, 1):
                if i + 8 > len(b):
                    raise _Reject()
                f[2] = int.from_bytes(b[i:i + 8], "little")
                i += 8
            elif fnum in (3, 4, 5, 6) and wt == 2:
                f[fnum], i = _rd_len(b, i)
            else:
                i = _skip(b, i, wt, fnum)
    except _Reject:
        return None
    if 1 not in f or 2 not in f:
        return None
    return (f[1], f[2], f.get(3), f.get(4), f.get(5), f.get(6), f.get(7))


def _spec(v):
    return "~" if v is None else ("-" if len(v) == 0 else v.hex())


def _show_parsed(r):
    if r is None:
        return "parsed:reject"
    return "parsed:%d:%d:%s:%s:%s:%s:%s" % (r[0], r[1], _spec(r[2]), _spec(r[3]), _spec(r[4]), _spec(r[5]), "~" if r[6] is None else str(r[6]))


def wire_oracle(case, lines):
    """SER must give the reference encoding, WIRE the reference decoding; and parse(ser(m)) = m on the implementation"""
    bad = []
    for idx, op in enumerate(case.ops):
        t = op.split()
        if t[0] not in ("SER", "WIRE"):
            continue
        m = LINE.match(lines[idx + 1]) if idx + 1 < len(lines) else None
        got = m.group(2) if m else None
        if t[0] == "SER":
            f = [None if x == "~" else (b"" if x == "-" else bytes.fromhex(x)) for x in t[3:7]]
            want = "wire:" + py_ser(int(t[1]), int(t[2]), f[0], f[1], f[2], f[3], None if t[7] == "~" else int(t[7])).hex()
        else:
            want = _show_parsed(py_parse(b"" if t[1] == "-" else bytes.fromhex(t[1])))
        if got != want:
            bad.append((idx, "wire-format", "op %r: implementation %s, reference %s" % (op, got, want)))
    return bad


def rand_msg(rng):
    def bs():
        n = rng.choice([0, 1, 2, 5, 127, 128, 129, 300]) if rng.random() < 0.3 else rng.randint(0, 12)
        return bytes(rng.randrange(256) for _ in range(n))
    opt = lambda: bs() if rng.random() < 0.6 else None
    mid = rng.choice([0, 1, 127, 128, 255, 256, (1 << 31), (1 << 32) - 1, (1 << 32), (1 << 63) - 1, (1 << 63), (1 << 64) - 1,
                      rng.randrange(1 << 64)])
    return (rng.choice([1, 2, 3]), mid, opt(), opt(), opt(), opt(), rng.choice([None, None, 0, 1, 2, 3, 4, 5, 6]))


def gen_wire(rng, tier):
    """RpcMessage bytes: canonical encodings and everything a decoder must cope with"""
    def unknown_field():
        fn = rng.choice([8, 9, 15, 16, 100, 2047, (1 << 28)])
        x = rng.random()
        if x < 0.25:
            return py_varint(fn * 8) + py_varint(rng.choice([0, 1, 300, (1 << 64) - 1]))
        if x < 0.45:
            return py_varint(fn * 8 + 1) + bytes(rng.randrange(256) for _ in range(8))
        if x < 0.65:
            b = bytes(rng.randrange(256) for _ in range(rng.randint(0, 6)))
            return py_varint(fn * 8 + 2) + py_varint(len(b)) + b
        if x < 0.8:
            return py_varint(fn * 8 + 5) + bytes(rng.randrange(256) for _ in range(4))
        inner = b"".join(unknown_field() for _ in range(rng.randint(0, 2))) if rng.random() < 0.7 else b""
        return py_varint(fn * 8 + 3) + inner + py_varint(fn * 8 + 4)

    def fields_of(m):
        t, mid, svc, meth, req, resp, err = m
        fs = [b"\x08" + py_varint(t), b"\x11" + mid.to_bytes(8, "little")]
        for num, v in ((3, svc), (4, meth), (5, req), (6, resp)):
            if v is not None:
                fs.append(bytes([num * 8 + 2]) + py_varint(len(v)) + v)
        if err is not None:
            fs.append(b"\x38" + py_varint(err))
        return fs

    def hexs(b):
        return b.hex() if b else "-"
    count = 400 if tier == "quick" else 20000
    ops = []
    n = 0
    fixed = [b"", b"\x00", b"\x08", b"\x08\x01", b"\x11" + bytes(8), b"\x08\x01\x11" + bytes(7), b"\x0c", b"\x0b\x0c\x08\x01\x11" + bytes(8),
             b"\x08\x01\x11" + bytes(8) + b"\x0e", b"\x08\x01\x11" + bytes(8) + b"\x0f", b"\x08\x01\x11" + bytes(8) + b"\x04",
             b"\x08\x81\x80\x80\x80\x10\x11" + bytes(8), b"\x08\xff\xff\xff\xff\xff\xff\xff\xff\xff\x01\x11" + bytes(8),
             b"\x08\x01\x11" + bytes(8) + b"\x1a\x80\x80\x80\x80\x08", b"\x08\x01\x11" + bytes(8) + b"\x1a\x81\x80\x80\x80\x00a",
             b"\x88\x80\x80\x80\x10\x01\x11" + bytes(8), b"\x88\x80\x80\x80\x80\x00\x01\x11" + bytes(8),
             b"\x08\x01\x11" + bytes(8) + b"\x38\x07", b"\x08\x01\x11" + bytes(8) + b"\x38\xff\xff\xff\xff\x0f",
             b"\x09" + bytes(8) + b"\x10\x01", b"\x08\x01\x11" + bytes(8) + b"\x18\x05\x25" + bytes(4)]
    for b in fixed:
        ops.append("WIRE " + hexs(b))
    for j in range(count):
        m = rand_msg(rng)
        t, mid, svc, meth, req, resp, err = m
        ops.append("SER %d %d %s %s %s %s %s" % (t, mid, _spec(svc), _spec(meth), _spec(req), _spec(resp), "~" if err is None else str(err)))
        canon = py_ser(*m)
        ops.append("WIRE " + hexs(canon))
        fs = fields_of(m)
        x = rng.random()
        if x < 0.2:
            rng.shuffle(fs)
            ops.append("WIRE " + hexs(b"".join(fs)))                       # any order
        elif x < 0.35:
            fs.insert(rng.randrange(len(fs) + 1), rng.choice(fields_of(rand_msg(rng))))
            ops.append("WIRE " + hexs(b"".join(fs)))                       # a field twice: the last one wins
        elif x < 0.55:
            for _ in range(rng.randint(1, 3)):
                fs.insert(rng.randrange(len(fs) + 1), unknown_field())
            ops.append("WIRE " + hexs(b"".join(fs)))                       # unknown fields of every wire type, groups
        elif x < 0.65:
            k = rng.randrange(len(fs))
            fn = fs[k][0] >> 3
            wrong = rng.choice([w for w in (0, 1, 2, 5) if w != (fs[k][0] & 7)])
            body = {0: py_varint(rng.randrange(1 << 20)), 1: bytes(8), 2: b"\x01a", 5: bytes(4)}[wrong]
            fs.insert(k, bytes([fn * 8 + wrong]) + body)
            ops.append("WIRE " + hexs(b"".join(fs)))                       # a known field with another wire type
        elif x < 0.72:
            v = rng.choice([0, 4, 7, 100, (1 << 32) + 1, (1 << 32) + 7, (1 << 64) - 1, (1 << 31)])
            fs.append(rng.choice([b"\x08", b"\x38"]) + py_varint(v))
            ops.append("WIRE " + hexs(b"".join(fs)))                       # enum values that are no enumerators / truncate to one
        elif x < 0.85:
            ops.append("WIRE " + hexs(canon[:rng.randrange(len(canon))]))  # truncated
        elif x < 0.95:
            bb = bytearray(canon)
            for _ in range(rng.randint(1, 2)):
                bb[rng.randrange(len(bb))] = rng.randrange(256)
            ops.append("WIRE " + hexs(bytes(bb)))                          # corrupted bytes
        else:
            ops.append("WIRE " + hexs(bytes(rng.randrange(256) for _ in range(rng.randint(1, 24)))))
        if len(ops) >= 40:
            n += 1
            yield vlib.Case("wire%d" % n, "svc=0", ops, "wire-format")
            ops = []
    if ops:
        yield vlib.Case("wire%d" % (n + 1), "svc=0", ops, "wire-format")


def load_cases(path, tagname, prefix=""):
    cases, cid, header, ops = [], None, "", []
    for line in open(path):
        line = line.rstrip("\n")
        if not line or line.startswith("#"):
            continue
        if line.startswith("---"):
            break
        if line.startswith("case "):
            t = line.split()
            cid, header, ops = prefix + t[1], " ".join(t[2:]), []
        elif line == "end":
            cases.append(vlib.Case(cid, header, ops, tagname))
        else:
            ops.append(line)
    return cases


def nontrivial(case, lines):
    """events that make a history non-trivial (see chk.cov['rule'])"""
    ev = set()
    order_resp, order_call = [], []
    maxout = 0
    for op, ln in zip(case.ops, lines[1:]):
        m = LINE.match(ln)
        if not m:
            continue
        outs = _outs(m.group(4))
        maxout = max(maxout, len(outs))
        k = op.split()[0]
        evs = _lst(m.group(2))
        kinds = set(e.split(":")[0] for e in evs)
        if k == "RESP":
            if "run" in kinds:
                order_resp.append(int(op.split()[1]))
            elif m.group(1) == "ok":
                ev.add("ignored-response")
            if any(e.endswith(":garbage") for e in evs):
                ev.add("corrupt-payload")
            if any(e.endswith(":untouched") for e in evs):
                ev.add("error-reply-runs-closure")
        if k in ("F", "R", "S"):
            ev.add("foreign-thread")
        if k == "BURST":
            ev.add("burst")
        if k == "CALLA":
            ev.add("immediate")
        if k == "DOWN" and m.group(1) == "ok":
            ev.add("down")
        if k in ("PUMPS", "PUMPC", "PUMPA", "PUMPB"):
            ev.add("two-channels")
        if k in ("DOWNA", "DOWNB") and m.group(1) == "ok":
            ev.add("down-" + k[-1])
        if k == "CALLB":
            ev.add("both-ways")
        if k in ("SER", "WIRE"):
            ev.add("wire-" + ("reject" if "parsed:reject" in evs else "accept" if k == "WIRE" else "ser") + "-%d" % (len(op) % 7))
        if "drop" in kinds:
            ev.add("destroyed-with-outstanding")
        if "leak" in kinds:
            ev.add("leak")
        for e in evs:
            if e.startswith("reply:"):
                ev.add("reply-" + e.split(":", 2)[2].split("=")[0] + ("-" + e.rsplit("=", 1)[1] if ":e=" in e else ""))
        if m.group(1) == "rejected":
            ev.add("rejected")
    if order_resp != sorted(order_resp):
        ev.add("out-of-order")
    if maxout >= 2:
        ev.add("concurrent-calls")
    return ev


def crash_head(stderr_text):
    """the informative part of a sanitizer / assert report: from its first line, not its shadow-byte dump"""
    for mark in ("ERROR: AddressSanitizer", "runtime error:", "Assertion", "ERROR: LeakSanitizer", "harness:"):
        i = stderr_text.find(mark)
        if i >= 0:
            return stderr_text[max(0, stderr_text.rfind("\n", 0, i) + 1):][:900]
    return stderr_text[-900:]


# --------------------------------------------------------------------------- run
def run(chk, replay=None):
    tier, rng = chk.tier, chk.rng
    pr = chk.prove()
    model, impl = build()
    known = [k for k in vlib.known_findings() if k["property"] == "C19"]

    if replay:
        cases = load_cases(replay, "replay")
    else:
        cases = []
        for f in sorted(glob.glob(os.path.join(vlib.ROOT, "corpus", "C19", "*.case"))):
            cases += load_cases(f, "corpus", prefix="corpus_" + os.path.basename(f)[:-5] + "_")
        for g in (gen_immediate, gen_null_response, gen_permutations, gen_threads, gen_burst, gen_server, gen_down, gen_wire, gen_sys, gen_bi):
            cases += list(g(rng, tier))
    hist = {}
    for c in cases:
        hist[c.tag] = hist.get(c.tag, 0) + 1
    chk.cov["generator_histogram"] = hist

    t1 = time.time()
    impl_out, crashes = vlib.run_batch_parallel(impl, cases, timeout=1500)
    t2 = time.time()
    model_out, mcrashes = vlib.run_batch_parallel(model, cases, timeout=1500)
    t3 = time.time()
    chk.cov["phase_s"] = {"impl": round(t2 - t1, 1), "model": round(t3 - t2, 1)}

    corr_bad, oracle_bad, known_bad, observed = [], [], [], []
    sigs = set()
    for c in cases:
        chk.cov["evaluations"] += 1
        if c.cid in crashes:
            rc, se, partial = crashes[c.cid]
            partial = [x for x in partial if x.strip()]
            j = max(0, len(partial) - 1)                 # the op that was executing
            key, what = "crash", "implementation crashed"
            if j < len(c.ops) and c.ops[j].split()[0] == "DONE" and \
                    (("DOWN" in c.ops[:j] and "svc=1" in c.header.split()) or ("DOWNB" in c.ops[:j] and "sys=2" in c.header.split())):
                key, what = UAF_KEY, ("the service ran the done callback of a deferred request after the connection went down: "
                                      "RpcChannel::doneCallback executed on the channel RpcServer::onConnection had destroyed")
            item = (c, len(partial), key, "%s (rc=%s) in op %d %r: %s" % (what, rc, j, c.ops[j] if j < len(c.ops) else "end", crash_head(se)))
            if any(k["key"] == key for k in known):
                known_bad.append(item)
            else:
                oracle_bad.append(item)
            if key == UAF_KEY:
                # the model predicts exactly this: its line for the op is `uaf:<k>`
                lm = model_out.get(c.cid)
                if lm is None or len(lm) <= j + 1 or "uaf:" not in lm[j + 1] or partial[:j + 1] != lm[:j + 1]:
                    corr_bad.append((c, j + 1, "impl crashed in %r, model says %r" % (c.ops[j], lm[j + 1] if lm and len(lm) > j + 1 else None)))
            continue
        li, lm = impl_out.get(c.cid), model_out.get(c.cid)
        if li is None:
            oracle_bad.append((c, 0, "no-output", "no implementation output"))
            continue
        for (idx, key, msg) in oracle(c, li) + wire_oracle(c, li):
            if key == OBS_KEY_NULLRESP:
                observed.append((c, idx, msg))          # out-of-contract call in an obs=1 case: counted, never reported
            elif any(k["key"] == key for k in known):
                known_bad.append((c, idx, key, msg))
            else:
                oracle_bad.append((c, idx, key, msg))
        if lm is None or li != lm:
            i = next((j for j in range(min(len(li), len(lm or []))) if li[j] != lm[j]), min(len(li), len(lm or [])))
            corr_bad.append((c, i, "impl %r vs model %r" % (li[i] if i < len(li) else None, lm[i] if lm and i < len(lm) else None)))
        ev = nontrivial(c, li)
        if ev:
            sigs.add((tuple(op.split()[0] for op in c.ops), tuple(sorted(ev)), li[-2]))
        if ev and len(c.ops) <= 10 and c.tag in ("threads-2-responses", "perm-decorated", "server-random", "immediate-answer"):
            if not any(s.get("tag") == c.tag for s in chk.cov["samples"]):
                chk.sample({"tag": c.tag, "case": c.text().split("\n")[:-1], "impl": li[1:-1], "events": sorted(ev)})
    chk.cov["distinct_nontrivial"] = len(sigs)
    chk.cov["rule"] = ("corpus + all permutations of the responses to 1..5 outstanding calls (plain, and decorated with duplicates / foreign "
                       "ids / omissions / error replies / corrupt payloads) + random orders for 6..8 calls + all interleavings of the micro-steps "
                       "of 2 helper threads, sampled ones of 3 threads, random thread programs with responses aimed at ids in flight + "
                       "answers injected inside write(2) + really concurrent bursts + all request kinds on the serving side + the connection going DOWN "
                       "at every micro-step boundary of a helper thread and inside random client/server histories (channel owned by RpcServer / by "
                       "the user); non-trivial = "
                       "the history has >= 2 calls outstanding at once, an out-of-order / ignored / corrupt / error response, a foreign-thread "
                       "micro-step, a burst, or a server reply; distinct by (op-kind sequence, event set, final line)")
    chk.cov["tier_adds"] = ("quick: permutations of <= 5 calls exhaustively, 600 sampled 3-thread interleavings, 1500/1500/2000/300 random "
                            "histories per family, 400 RpcMessage encodings with one variant each, 300 one-way + 300 two-way two-channel histories" if tier == "quick" else
                            "thorough: ALL permutations of the responses to <= 7 outstanding calls (5913 plain histories), ALL interleavings of "
                            "2 threads x 1 call, 3 threads x 1 call (1680) and 2 threads x 2 calls (924), 5000 sampled 4-thread interleavings, "
                            "60000 random orders for 6..8 calls, 60000 random thread programs, 80000 random server histories, 15000 histories "
                            "with a connection DOWN, bursts of up to 6 threads x 60 concurrent calls (100 repetitions), 20000 RpcMessage encodings "
                            "each with its canonical decoding and one reordered / duplicated / unknown-field / wrong-wire-type / bad-enum / truncated / "
                            "corrupted / random variant, 15000 one-way and 15000 two-way two-channel histories (real client channel + real RpcServer-made "
                            "channel; DOWN of either end in a third of the two-way ones; every write(2) cut to k bytes in half of them)")
    chk.cov["traces_validated_against_impl"] = len(cases) - len(corr_bad)
    chk.add_obligation("correspondence: extracted C19_Model.step == muduo::net::RpcChannel on every op of every case (events, id_, outstandings_, pending callbacks)", not corr_bad)
    chk.add_obligation("oracle: the property text on the implementation's own trace", not oracle_bad)
    gen_problems = [p for p in pr.get("problems", []) if "gen_C19" in p]
    chk.add_obligation("generated facts: lib/gen_C19.py translated CallMethod / onRpcMessage / doneCallback / Atomic.h / rpc.proto "
                       "of the current tree without FALLBACK (coq/Gen_C19.v; link lemmas in coq/C19_GenLink.v)", not gen_problems)
    chk.cov["observations"] = {
        "out-of-contract call (response == NULL) made in obs=1 cases; entry erased, closure neither run nor deleted; "
        "outside the property, see docs/C19.md": len(observed)}
    chk.trusted("extraction: ExtrOcamlBasic only; extract/util.ml + extract/C19_driver.ml (OCaml 4.13.1)",
                "harness/C19_driver.cc: scripted raw peer (frames built/decoded by hand with zlib adler32), --wrap=write (answer injected "
                "when the REQUEST reaches the wire), --wrap=pthread_mutex_lock (helper threads parked at the channel / loop mutex), "
                "harness/C19_rpcchannel.cc + C19_atomic_hook.h (the tree's RpcChannel.cc compiled in the driver with the two atomic "
                "builtins of Atomic.h routed through a hook: a helper is parked before a second atomic access to id_), "
                "#define private public, ASan poisoning as the observation of `delete response`",
                "lib/gen_C19.py + lib/cxxast.py (clang 14 JSON AST and rpc.proto -> coq/Gen_C19.v; every fact echoes the matched source text)",
                "RpcMessage wire format: three implementations compared op by op (protobuf 3.21 ParsePartialFromString+IsInitialized / "
                "SerializeAsString, the extracted C19_Wire, the Python reference codec in lib/props/C19.py)",
                "protobuf 3.21: ParseFromString(SerializeAsString(m)) = m and rejection of the X payloads (checked by the driver on every use)",
                "harness/C19_test.proto + protoc-generated stub/service; the test service (Echo answers at once, Defer later) is user code")
    chk.notes.append("the model takes id_.incrementAndGet() as one atomic step: tied by the generated fact CallMethod_id_fetch_atomic "
                     "(single use of id_, AtomicInt64, Atomic.h chain down to __sync_fetch_and_add) and, dynamically, by parking helper "
                     "threads before a second atomic access to id_ (an id read and incremented in two accesses collides under F 1, F 2); "
                     "an id_ that is no AtomicInt64 at all is only caught by the generated fact (and by C08)")
    if gen_problems and not oracle_bad and pr["ok"]:
        # the translator no longer understands the source although every link lemma still checks: conservative
        pr = dict(pr)
        pr["ok"] = False
        pr["broken"] = list(pr.get("broken", [])) + ["lib/gen_C19.py: " + "; ".join(gen_problems)]

    def run_one(cc):
        io, cr = vlib.run_batch(impl, [cc], timeout=120)
        if cc.cid in cr:
            return None, None, cr[cc.cid]
        mo, _ = vlib.run_batch(model, [cc], timeout=120)
        return io.get(cc.cid), mo.get(cc.cid), None

    def shrink(c, pred):
        def fails(ops):
            cc = vlib.Case("s", c.header, ops)
            li, lm, cr = run_one(cc)
            return pred(cc, li, lm, cr)
        return vlib.Case(c.cid, c.header, vlib.ddmin(c.ops, fails, max_tests=120))

    for key in sorted(set(k for (_, _, k, _) in known_bad)):
        c, idx, _, msg = next(x for x in known_bad if x[2] == key)
        kf = next(k for k in known if k["key"] == key)
        chk.known(key, "key=%s %s (%d histories; e.g. case %s op %d: %s)" % (key, kf["text"], len([x for x in known_bad if x[2] == key]), c.cid, idx, msg))

    reported = set()
    oracle_bad.sort(key=lambda x: 1 if x[2] in ("crash", "no-output", "truncated") else 0)      # semantic failures first (stable)
    for (c, idx, key, msg) in oracle_bad:
        if key in reported or len(reported) >= 3:
            continue
        reported.add(key)

        def pred(cc, li, lm, cr, key=key):
            if cr is not None:
                if key == UAF_KEY:
                    j = max(0, len([x for x in cr[2] if x.strip()]) - 1)
                    return j < len(cc.ops) and cc.ops[j].split()[0] == "DONE" and ("DOWN" in cc.ops[:j] or "DOWNB" in cc.ops[:j])
                return key == "crash"
            if li is None:
                return key == "no-output"
            return any(k == key for (_, k, _) in oracle(cc, li) + wire_oracle(cc, li))
        # a drained two-channel history stops being drained when ops are removed: keep it whole
        small = c if ("quiesce=1" in c.header.split() and key in ("not-exactly-once", "not-erased")) else shrink(c, pred)
        nfail = len(set(x[0].cid for x in oracle_bad if x[2] == key))
        p = chk.write_replay("oracle_%s_%s.case" % (key, c.cid), "# key=%s\n# %s\n" % (key, msg.replace("\n", "\n# ")) + small.text())
        chk.violation(p, "C19 fails on the implementation [key=%s]: %s (%d failing histories)" % (key, msg, nfail))
    if not oracle_bad and (corr_bad or not pr["ok"]):
        what, body = [], ""
        if not pr["ok"]:
            what.append("proof obligation(s) no longer check: %s %s" % (pr["broken"], pr["problems"]))
        if corr_bad:
            c, idx, msg = corr_bad[0]
            small = shrink(c, lambda cc, li, lm, cr: cr is not None or li != lm)
            what.append("correspondence C19_Model.step vs RpcChannel broken at line %d of the case below (%s); %d of %d cases differ; "
                        "the oracle holds on all of them" % (idx, msg, len(corr_bad), len(cases)))
            body = small.text()
        p = chk.write_replay("broken_obligation.txt", "\n".join("# " + w for w in what) + "\n" + body +
                             ("\n--- coq log tail ---\n" + pr["log"][-3000:] if not pr["ok"] else ""))
        chk.violation(p, "; ".join(what), no_input=True)
    return chk.finish(level="proof", assumptions=[
        "id_.incrementAndGet() is one atomic read-modify-write and a MutexLockGuard section is atomic w.r.t. other sections (DESIGN 3.2/3.3)",
        "int64 ids do not wrap (2^63 calls on one channel)",
        "no closure object is passed to two CallMethod invocations; a service runs its done callback at most once (one-shot closures)",
        "protobuf, user message types: ParseFromString(SerializeAsString(m)) = m; what a failed parse leaves in the object is unspecified "
        "(for RpcMessage itself the round trip is proved about C19_Wire and C19_Wire is compared with protobuf)",
        "TcpConnection: exactly one DOWN per connection, no message delivered after it, send() on a connection that is not kConnected does nothing (C02/C01)",
        "the model is tied to the code by differential execution (testing), not by a verified C++ semantics"])
