"""C05: quit() always ends the loop; loop threads and pools start, serve, join cleanly.
proof (Properties_C05.v over C04_Model.v = LoopModel and C05_Model.v = EventLoopThread layer + pool
functions, with the wake-up tests, the place of `quit_ = false`, the EventLoopThread hand-shake and
getNextLoop/getLoopForHash regenerated from the current sources) + TRACE VALIDATION: the real
EventLoop (kind=loop) and the real EventLoopThread (kind=elt) run under the controlled scheduler
(harness/sched.cc, schedule points inside quit()/queueInLoop()/loop()/threadFunc() from
-finstrument-functions, no hook in /repo); every recorded step must be accepted by the extracted
model + DIFFERENTIAL run of the real EventLoopThreadPool (N = 0..8) against the extracted pool
functions (model and generated).  Independently the property text is evaluated on the
implementation's output (looplib.oracle_quit / oracle_pool)."""
import os, re, sys, time
import vlib, schedlib, looplib

PROP = "C05"


def loop_configs(tier):
    """(name, prefix, later, threads, scripts): quit() relative to loop() entry / poll / dispatch / drain"""
    cfgs = [
        ("quit_before_loop", ["quit"], [], [], {}),
        ("foreign_quit", [], [], [["quit"]], {}),
        ("quit_in_functor", [], [], [["q 1"]], {1: ["quit"]}),
        ("quit_in_callback", [], [], [["ev 9"]], {9: ["quit"]}),
        ("quit_and_tasks", [], [], [["q 1", "quit"], ["q 2"]], {1: ["q 3"]}),
        ("two_quitters_reenter", [], [[]], [["quit"], ["quit"]], {}),
        ("prefix_quit_reenter", ["quit"], [["r 4", "quit"]], [["q 1"]], {}),
    ]
    if tier != "quick":
        cfgs += [
            ("quit_inline_prefix", ["r 5"], [], [["q 1"]], {5: ["quit"]}),
            ("three_calls", [], [[], ["q 7"]], [["quit", "quit"], ["quit"]], {}),
        ]
    return cfgs


def elt_configs(tier):
    """(name, user acts between startLoop() and the destructor, scripts)"""
    cfgs = [
        ("start_destroy", [], {}),
        ("start_task_destroy", ["q 1"], {}),
        ("start_quit_destroy", ["quit"], {}),
        ("task_quits", ["q 1"], {1: ["quit"]}),
        ("run_and_queue", ["r 1", "q 2"], {1: ["q 3"]}),
        # the loop is ended by somebody else; the destructor comes later (`pt` = a schedule point of the driver)
        ("user_quit_destroy_later", ["quit", "pt"], {}),
        ("functor_quit_destroy_later", ["q 1", "pt"], {1: ["quit"]}),
        # ... and the destructor really after the thread function has returned (`wx` = sched::wait_exit on the child)
        ("user_quit_wait_exit_destroy", ["quit", "wx"], {}),
        ("functor_quit_wait_exit_destroy", ["q 1", "wx"], {1: ["quit"]}),
    ]
    if tier != "quick":
        cfgs += [("two_tasks_nested", ["q 1", "q 2"], {1: ["q 3", "r 4"], 2: ["quit"]})]
    return cfgs


def gen_random_loop(rng, cid):
    nthr = rng.randint(1, 3)
    ids = list(range(1, 40))
    rng.shuffle(ids)
    fresh = iter(ids)
    threads = [[] for _ in range(nthr)]
    scripts = {}
    for _ in range(rng.randint(0, 4)):
        t = next(fresh)
        threads[rng.randrange(nthr)].append("%s %d" % (rng.choice(["q", "q", "r"]), t))
        r = rng.random()
        if r < 0.2:
            scripts[t] = ["quit"]
        elif r < 0.4:
            scripts[t] = ["q %d" % next(fresh)]
    if rng.random() < 0.25:
        k = next(fresh) + 100
        threads[rng.randrange(nthr)].append("ev %d" % k)
        scripts[k] = rng.choice([["quit"], [], ["q %d" % next(fresh)]])
    for _ in range(rng.choice([1, 1, 1, 2, 3])):
        threads[rng.randrange(nthr)].append("quit")
    for th in threads:
        rng.shuffle(th)
    prefix = []
    r = rng.random()
    if r < 0.25:
        prefix.append("quit")
    elif r < 0.35:
        prefix.append("q %d" % next(fresh))
    later = []
    if rng.random() < 0.35:
        for _ in range(rng.randint(1, 2)):
            later.append(rng.choice([[], ["quit"], ["q %d" % next(fresh)], ["r %d" % next(fresh), "quit"]]))
    src = schedlib.random_source(rng, pspur=0) + (" post=%d" % POST_WRITE if rng.random() < 0.4 else "")
    return looplib.mkcase(cid, "loop", src, prefix=prefix, threads=threads, scripts=scripts,
                          poller=rng.choice(["epoll", "poll"]), pts=rng.choice([1, 1, 1, 0]), tag="random", later=later)


def gen_random_elt(rng, cid):
    ids = list(range(1, 30))
    rng.shuffle(ids)
    fresh = iter(ids)
    acts, scripts = [], {}
    n = rng.randint(0, 3)
    for i in range(n):
        t = next(fresh)
        acts.append("%s %d" % (rng.choice(["q", "q", "r"]), t))
        if rng.random() < 0.3:
            scripts[t] = ["%s %d" % (rng.choice(["q", "r"]), next(fresh))]
        if i == n - 1 and rng.random() < 0.2:
            scripts[t] = ["quit"]          # only the last task may quit: nothing is submitted to the loop after it
    if rng.random() < 0.15:
        acts.append("quit")
    quits = "quit" in acts or any("quit" in v for v in scripts.values())
    r = rng.random()
    if r < 0.3:
        acts.append("pt")          # lets the schedule run the child (possibly to its end) before the destructor
    elif r < 0.55 and quits:
        acts.append("wx")          # waits until the thread function has returned (only when somebody quits the loop)
    return looplib.mkcase(cid, "elt", schedlib.random_source(rng, pspur=rng.choice([0, 0, 10])) + " spur=%d" % rng.choice([0, 0, 2]),
                          prefix=["start"] + acts + ["destroy"], scripts=scripts, poller=rng.choice(["epoll", "poll"]),
                          pts=rng.choice([1, 1, 1, 0]), tag="random")


def pool_cases(rng, tier):
    cases = []
    for n in range(0, 9):
        calls = 3 * n + 2
        hs = sorted(set([0, 1, 7, 12345] + [k * max(n, 1) + d for k in (1, 2, 5, 1000) for d in (-1, 0, 1) if k * max(n, 1) + d >= 0]))
        ops = []
        for _ in range(2 * n + 6):
            ops.append("n" if rng.random() < 0.55 else "h%d" % rng.choice(hs))
        for v in range(2 if tier == "quick" else 8):
            src = schedlib.list_source([]) if v == 0 else schedlib.random_source(rng, pspur=0)
            cases.append(looplib.mkcase("pool_n%d_%d" % (n, v), "pool", src, n=n, calls=calls, hashes=hs, pts=0, steps=20000, tag="pool"))
            cases[-1].ops.append("O " + " ".join(ops))
    return cases


BIG = 1 << 31
POST_WRITE = schedlib.mask("write")     # scheduler: park after every (interposed) write


def big_pool_cases(which="wrap31"):
    """getNextLoop() across the int wrap-around of the cursor: N = 7, 2^31 - 8 unrecorded calls, then 40
    recorded ones (and the 2^32 boundary for N = 3 when asked).  ~10 s each on the -O2 driver."""
    cs = [looplib.mkcase("pool_big_n7_2e31", "pool", schedlib.list_source([]), n=7, calls=0, hashes=[1], pts=0, steps=20000,
                         tag="pool", big=BIG - 8, tail=40)]
    if which == "all":
        cs.append(looplib.mkcase("pool_big_n3_2e32", "pool", schedlib.list_source([]), n=3, calls=0, hashes=[1], pts=0, steps=20000,
                                 tag="pool", big=2 * BIG - 8, tail=40))
    return cs


def nontrivial(run):
    quits = any(e[2] == "call" and e[3] in ("quit", "destroy") for e in run.events if len(e) > 3)
    return run.preemptions() > 0 or quits


def realised(run):
    return run.schedule if run.schedule is not None else [c[1] for c in run.choices]


def kind_of(c):
    return looplib.hdr_get(c.header, "kind", "loop")


def run(chk, replay=None):
    tier, rng = chk.tier, chk.rng
    pr = chk.prove()
    has_f3_coq = looplib.gen_fact(pr["log"], 503)     # computed inside Coq from the generated reset mode
    late_coq = looplib.gen_fact(pr["log"], 505)       # quit() wakes before it stores (C05_quit_order_current_tree: refutation branch)
    model_loop = vlib.build_model("C04")
    model_elt = vlib.build_model(PROP)
    impl = looplib.build_impl()
    RL = looplib.Runner(impl, model_loop)
    RE = looplib.Runner(impl, model_elt)
    t_start = time.time()
    all_cases, all_runs = [], {}
    stats = {"systematic_runs": 0, "random_loop_runs": 0, "random_thread_runs": 0, "pool_runs": 0, "stuck_reports": 0, "configs": {}}

    def absorb(cases, runs):
        for c in cases:
            all_cases.append(c)
            all_runs[c.cid] = runs[c.cid]

    if replay:
        cases = schedlib.load_cases(replay)
        fast = [c for c in cases if looplib.hdr_get(c.header, "big")]
        slow = [c for c in cases if not looplib.hdr_get(c.header, "big")]
        if slow:
            absorb(slow, RL.run_impl(slow))
        if fast:
            absorb(fast, looplib.Runner(looplib.build_impl_fast()).run_impl(fast, jobs=2))
    else:
        corpus = looplib.load_corpus(PROP)
        if corpus:
            absorb(corpus, RL.run_impl(corpus))
        bound = 3 if tier == "quick" else 4
        per_cfg = 800 if tier == "quick" else 6000
        cfgs = []
        for (name, prefix, later, threads, scripts) in loop_configs(tier):
            for poller in ("epoll", "poll"):
                cfgs.append((name + "_" + poller, dict(kind="loop", prefix=prefix, later=later, threads=threads, scripts=scripts, poller=poller)))
            # the same with a schedule point AFTER every write as well (post=<mask>): a thread can then be preempted between
            # its wake-up write and what it does next (e.g. a store of quit_ that comes after the wake-up)
            if threads:
                cfgs.append((name + "_postwrite", dict(kind="loop", prefix=prefix, later=later, threads=threads, scripts=scripts,
                                                       poller="epoll", post=POST_WRITE)))
        for (name, acts, scripts) in elt_configs(tier):
            cfgs.append(("elt_" + name, dict(kind="elt", prefix=["start"] + acts + ["destroy"], scripts=scripts, poller="epoll")))
        enums = {name: schedlib.Enumerator(bound, per_cfg) for (name, _) in cfgs}
        counter = 0
        while any(e.active() for e in enums.values()):
            cases, owners = [], []
            for (name, kw) in cfgs:
                e = enums[name]
                if not e.active():
                    continue
                b = e.next_batch(256)
                cs = []
                for (p, _) in b:
                    counter += 1
                    kw2 = dict(kw)
                    kind = kw2.pop("kind")
                    post = kw2.pop("post", 0)
                    cs.append(looplib.mkcase("%s_%d" % (name, counter), kind,
                                             schedlib.list_source(p) + (" post=%d" % post if post else ""), tag="systematic", **kw2))
                cases += cs
                owners.append((e, b, cs))
            runs = RL.run_impl(cases)
            absorb(cases, runs)
            for (e, b, cs) in owners:
                for c in cs:
                    if runs[c.cid].schedule is None:
                        runs[c.cid].schedule = [ch[1] for ch in runs[c.cid].choices]
                e.feed(b, [runs[c.cid] for c in cs])
        for (name, kw) in cfgs:
            e = enums[name]
            stats["systematic_runs"] += e.nruns
            stats["configs"][name] = {"runs": e.nruns, "exhaustive_within_bound": e.exhaustive(), "preemption_bound": bound}
        nl = 1500 if tier == "quick" else 80000
        ne = 700 if tier == "quick" else 40000
        cases = [gen_random_loop(rng, "rl%d" % i) for i in range(nl)] + [gen_random_elt(rng, "re%d" % i) for i in range(ne)]
        pc = pool_cases(rng, tier)
        cases += pc
        for i in range(0, len(cases), 20000):
            chunk = cases[i:i + 20000]
            absorb(chunk, RL.run_impl(chunk))
        stats["random_loop_runs"], stats["random_thread_runs"], stats["pool_runs"] = nl, ne, len(pc)
        # getNextLoop() across the int wrap-around of its cursor: always in the thorough tier; in the quick tier only
        # when the link lemma generated = model no longer checks (then a failing input is looked for there)
        link_broken = (not pr["ok"]) and any("C05_GenLink" in str(b) or "gen_" in str(b) for b in pr["broken"] + pr["problems"])
        if tier != "quick" or link_broken:
            big = big_pool_cases("all" if link_broken else "wrap31")
            RF = looplib.Runner(looplib.build_impl_fast())
            absorb(big, RF.run_impl(big, jobs=2))
            stats["pool_runs"] += len(big)
            stats["long_pool_runs"] = [c.header.split(" sched=")[0] for c in big]
    t_impl = time.time()

    # ------------------------------------------------------------------ oracle (property text)
    plain_bad, finding_bad = [], []
    observations = {}
    sigs = set()
    for c in all_cases:
        r = all_runs[c.cid]
        k = kind_of(c)
        chk.cov["evaluations"] += 1
        if r.stuck is not None:
            stats["stuck_reports"] += 1
        if k == "pool":
            for msg in looplib.oracle_pool(c, r):
                plain_bad.append((c, None, msg))
            sigs.add((c.header.split(" sched=")[0], tuple(c.ops), tuple(realised(r))))
        else:
            for (key, msg) in looplib.oracle_quit(c, r, k):
                if key and key.startswith("~"):
                    observations[key] = observations.get(key, 0) + 1
                else:
                    (finding_bad if key else plain_bad).append((c, key, msg))
            if nontrivial(r):
                sigs.add((c.header.split(" sched=")[0], tuple(c.ops), tuple(realised(r))))
        if len(chk.cov["samples"]) < 5 and c.tag in ("random", "pool") and len(r.trace) < 70 and (k == "pool" or nontrivial(r)) \
                and sum(1 for s in chk.cov["samples"] if s.get("kind") == k) < 2:
            chk.sample({"kind": k, "case": c.text().split("\n")[:-1], "events": [" ".join(e) for e in r.events][:12],
                        "schedule": realised(r)[:60], "stuck": r.stuck, "pool": r.extra[:4]})
    t_or = time.time()

    # ------------------------------------------------------------------ correspondence
    loops = [c for c in all_cases if kind_of(c) == "loop"]
    elts = [c for c in all_cases if kind_of(c) == "elt"]
    pools = [c for c in all_cases if kind_of(c) == "pool"]
    verdicts = {}
    if loops:
        verdicts.update(RL.run_model(loops, all_runs))
    if elts:
        verdicts.update(RE.run_model(elts, all_runs))
    corr_bad = [(c, verdicts[c.cid]) for c in loops + elts if not verdicts[c.cid].startswith("accepted")]
    steps = sum(int(v.split()[1]) for v in verdicts.values() if v.startswith("accepted"))
    model_uaf = {c.cid for c in elts if verdicts[c.cid].startswith("accepted") and verdicts[c.cid].endswith("uaf=1")}
    impl_uaf = {c.cid for c in elts if all_runs[c.cid].uaf}
    for c in elts:
        if verdicts[c.cid].startswith("accepted") and ((c.cid in model_uaf) != (c.cid in impl_uaf)):
            corr_bad.append((c, "REJECT 0: use of the destroyed loop: implementation %s, model %s | -"
                             % (c.cid in impl_uaf, c.cid in model_uaf)))
    pool_bad = []
    pool_steps = 0
    if pools:
        # the pool cases carry their trace: differential of the selection functions AND validation of start() / user
        # tasks / ~EventLoopThreadPool against the extracted C05_PoolSysModel.pstep
        mcases = []
        for c in pools:
            body = [l for l in all_runs[c.cid].lines if l and l != "end" and not l.startswith("case ")]
            mcases.append(vlib.Case(c.cid, c.header, c.ops + ["trace"] + body))
        outs, crashes = vlib.run_batch_parallel(model_elt, mcases, timeout=600, pre=["bash", "-c", 'ulimit -s unlimited 2>/dev/null; exec "$0"'])
        for c in pools:
            r = all_runs[c.cid]
            verdict = [l for l in outs.get(c.cid, []) if l.startswith(("accepted", "REJECT"))]
            if not verdict or not verdict[-1].startswith("accepted"):
                if not (r.crash or r.deadlock or r.steplimit or r.stuck is not None):
                    corr_bad.append((c, verdict[-1] if verdict else "REJECT 0: the pool model runner failed | -"))
            else:
                pool_steps += int(verdict[-1].split()[1])
            m = dict((l.split()[0], l.split()[1:]) for l in outs.get(c.cid, [])[1:] if l and l != "end" and not l.startswith(("accepted", "REJECT")))
            i = dict((l.split()[0], l.split()[1:]) for l in r.extra if l.split()[0] in ("next", "hash", "ops", "tail"))
            for key in ("next", "hash", "ops", "tail"):
                if key not in i and key not in m:
                    continue
                if key not in m or m.get(key) != i.get(key) or m.get("g" + key) != i.get(key):
                    pool_bad.append((c, "%s: implementation %s, model %s, generated %s" % (key, i.get(key), m.get(key), m.get("g" + key))))
                    break
    t_model = time.time()

    f3_impl = any(key == looplib.F3_KEY for (_, key, _) in finding_bad)
    agree = True
    if not replay and has_f3_coq is not None:
        agree = (has_f3_coq == f3_impl)

    chk.cov["distinct_nontrivial"] = len(sigs)
    chk.cov["rule"] = ("corpus (F-3 witnesses, F-4 witness) + systematic schedule enumeration (iterative context bounding: every schedule "
                       "with <= N preemptions, within a per-configuration budget) of quit() against loop() entry / poll / dispatch / drain / "
                       "re-entry (kind=loop, both pollers) and of startLoop() / user code / ~EventLoopThread against threadFunc (kind=elt) + "
                       "random programs (1-3 foreign threads, quit() from threads, functors, I/O callbacks, before loop(), between two calls "
                       "of loop(); EventLoopThread lives with 0-3 tasks, spurious wake-ups of the condition variable) under seeded random "
                       "schedules + EventLoopThreadPool with N = 0..8, 3N+2 getNextLoop calls, hash codes dense around multiples of N, "
                       "mixed call sequences; schedule points: every lock / poll / cond wait / thread start plus loop_entry, queue_mid, "
                       "quit_mid, tf_exit; non-trivial = the schedule preempts at least once or quit() is called from inside the loop "
                       "thread (pool cases always count); distinct by (configuration, programs, realised choice list)")
    chk.cov["schedule_stats"] = stats
    chk.cov["model_steps_validated"] = steps + pool_steps
    chk.cov["pool_system_steps_validated (C05_PoolSysModel.pstep)"] = pool_steps
    chk.cov["traces_validated_against_impl"] = len(loops) + len(elts) + len(pools) - len(corr_bad)
    chk.cov["pool_runs_compared"] = len(pools) - len(pool_bad)
    chk.cov["use_after_destroy"] = {"runs where the implementation touches the destroyed loop": len(impl_uaf),
                                    "runs where the model predicts it on the same schedule": len(model_uaf)}
    chk.cov["observations_outside_the_property_text"] = observations
    chk.cov["generated_shape"] = {"current_tree_has_F3 (computed in Coq from Gen_C04.gen_shape)": has_f3_coq,
                                  "F-3 observed on the implementation": f3_impl}
    chk.cov["phase_s"] = {"impl": round(t_impl - t_start, 1), "oracle": round(t_or - t_impl, 1), "model": round(t_model - t_or, 1)}
    chk.add_obligation("trace validation: every step of the real EventLoop (kind=loop) under the controlled scheduler is accepted by the "
                       "extracted C04_Model.step, every step of the real EventLoopThread (kind=elt) by the extracted C05_Model.estep, "
                       "every step of the real EventLoopThreadPool's start() / tasks / destructor (kind=pool, N = 0..8) by the extracted "
                       "C05_PoolSysModel.pstep (generated shapes), same observers (queue, eventfd, quit_, flags, loop_ != NULL, loop alive), same uses of a "
                       "destroyed loop", not corr_bad)
    chk.add_obligation("differential: real EventLoopThreadPool (N = 0..8) = extracted pool_run (model) = extracted gen_pool_run "
                       "(generated from the current source) on every call sequence", not pool_bad)
    chk.add_obligation("oracle: quit() ends loop() without a time-out and is never lost; startLoop() returns the child's loop; "
                       "~EventLoopThread / ~EventLoopThreadPool join without hanging and without touching a destroyed loop; round-robin / "
                       "hash / empty pool (apart from recorded findings)", not plain_bad)
    chk.add_obligation("generated reset mode and implementation agree on the quit-before-loop case (F-3 present in both or in neither)", agree)
    late_impl = any("QUIT LOST" in m and "quit_=1" in m for (_, _, m) in plain_bad)
    chk.cov["generated_quit_order"] = {"quit() wakes before it stores (computed in Coq from Gen_C04.quit_stores_before_wakeup)": late_coq,
                                       "a completed quit() left the loop blocked in poll with quit_ set (implementation)": late_impl}
    chk.add_obligation("generated order of the two halves of quit() is store-then-wake-up (C05_quit_order_current_tree takes its theorem branch)",
                       late_coq is not True)
    chk.trusted("extraction: ExtrOcamlBasic only; extract/util.ml + extract/C04_driver.ml + extract/C05_driver.ml (map trace lines to model labels)",
                "harness/sched.cc (cooperative scheduler; -Wl,--wrap interposition of pthread_mutex_*/cond_*/create/join and "
                "read/write/poll/epoll_wait), harness/C04_driver.cc (#define private public for observers; __cyg_profile_func_enter/"
                "exit schedule points from compiling the unchanged EventLoop.cc/EventLoopThread.cc with -finstrument-functions; "
                "the destructor of the stack EventLoop is observed through the exit of ~EventLoop)",
                "translators lib/gen_C04.py, lib/gen_C05.py (clang 14 JSON AST): guards of wakeup(), place of quit_ = false, "
                "structure of threadFunc/startLoop/~EventLoopThread, symbolic execution of getNextLoop/getLoopForHash over nat",
                "sequential consistency; code between two schedule points is atomic; eventfd/epoll/poll/pthread_create/join are the OS's",
                "std::vector / std::function / muduo::Thread start-up latch (the latter abstracted to one boolean)")

    fast_runner = []

    def run_one(cc):
        """one case on the driver that fits it (billions of calls: the -O2 build)"""
        if looplib.hdr_get(cc.header, "big"):
            if not fast_runner:
                fast_runner.append(looplib.Runner(looplib.build_impl_fast()))
            return fast_runner[0].run_impl([cc], jobs=1)[cc.cid]
        return RL.run_impl([cc], jobs=1)[cc.cid]

    def fails_with(c, pred):
        def f(sched):
            cc = vlib.Case("s", schedlib.set_source(c.header, schedlib.list_source(sched)), c.ops)
            return pred(cc, run_one(cc))
        return f

    def oracle_any(cc, rr):
        k = kind_of(cc)
        if k == "pool":
            return [(None, m) for m in looplib.oracle_pool(cc, rr)]
        return looplib.oracle_quit(cc, rr, k)

    def shrink_and_write(c, msg, want_key, name):
        r = all_runs[c.cid]
        pred = lambda cc, rr: any(k == want_key for (k, _) in oracle_any(cc, rr) if not (k or "").startswith("~"))
        sched = schedlib.shrink_schedule(realised(r), fails_with(c, pred), max_tests=120)
        small = vlib.Case(c.cid, schedlib.set_source(c.header, schedlib.list_source(sched)), c.ops)
        rr = run_one(small)
        msgs = [m for (k, m) in oracle_any(small, rr) if k == want_key and not (k or "").startswith("~")]
        msg2 = msgs[0] if msgs else msg
        extra = ""
        if want_key == looplib.F4_KEY:
            # the same schedule with ASan's use-after-return detection: the access is reported by the sanitizer
            outs, crashes = vlib.run_batch(impl, [small], env={"ASAN_OPTIONS": "detect_leaks=0:abort_on_error=0:detect_stack_use_after_return=1"})
            tail = [l for l in outs.get(small.cid, []) if l.startswith("CRASH")]
            if tail:
                extra = "\nwith ASAN_OPTIONS=detect_stack_use_after_return=1: " + tail[0]
                msg2 += " [ASan, detect_stack_use_after_return=1: %s]" % tail[0][:200]
        p = schedlib.write_replay(chk, name, "C05 violated on the implementation: %s%s\n%s" % (msg2, extra, "\n".join(rr.lines[-40:])),
                                  small.text())
        return p, msg2

    known = {k["key"]: k for k in vlib.known_findings() if k["property"] == PROP}
    if plain_bad:
        c, key, msg = min(plain_bad, key=lambda x: (len(all_runs[x[0].cid].trace), x[0].cid))
        p, msg2 = shrink_and_write(c, msg, None, "oracle_%s.case" % c.cid)
        chk.violation(p, "C05 fails on the implementation: %s (%d of %d runs fail)" % (msg2, len(set(x[0].cid for x in plain_bad)), len(all_cases)))
    if finding_bad:
        by_key = {}
        for (c, key, msg) in finding_bad:
            by_key.setdefault(key, []).append((c, msg))
        for key, lst in sorted(by_key.items()):
            c, msg = min(lst, key=lambda x: (len(all_runs[x[0].cid].trace), x[0].cid))
            fid = "F-4" if key == looplib.F4_KEY else "F-3"
            if key in known:
                chk.known(key, "key=%s %s [%d runs; witness %s]" % (key, known[key]["text"], len(lst), c.cid))
            else:
                p, msg2 = shrink_and_write(c, msg, key, "finding_%s.case" % key)
                coq = ("Coq: C05_dtor_never_touches_destroyed_loop_refuted (model witness of the same schedule)" if key == looplib.F4_KEY else
                       "Coq: C05_quit_current_tree / C05_thread_dtor_current_tree take their refutation branch for the generated reset mode")
                chk.violation(p, "C05 fails on the implementation (finding %s, key=%s, see findings/C05.md): %s (%d of %d runs); %s"
                              % (fid, key, msg2, len(lst), len(all_cases), coq))
    if (corr_bad or pool_bad or not pr["ok"] or not agree) and not plain_bad:
        what, body = [], ""
        if not pr["ok"]:
            what.append("proof obligation(s) no longer check: %s %s" % (pr["broken"], pr["problems"]))
        if not agree:
            what.append("generated fact (current_tree_has_F3=%s) and implementation (F-3 observed=%s) disagree" % (has_f3_coq, f3_impl))
        if pool_bad:
            c, m = pool_bad[0]
            what.append("EventLoopThreadPool differs from the pool model: %s (%d of %d pool runs); the oracle holds" % (m, len(pool_bad), len(pools)))
            body += c.text()
        if corr_bad:
            c, v = min(corr_bad, key=lambda cv: (len(all_runs[cv[0].cid].trace), cv[0].cid))
            r = all_runs[c.cid]
            R = RL if kind_of(c) == "loop" else RE

            def pred(cc, rr):
                return not R.run_model([cc], {cc.cid: rr})[cc.cid].startswith("accepted")
            sched = schedlib.shrink_schedule(realised(r), fails_with(c, pred), max_tests=80)
            small = vlib.Case(c.cid, schedlib.set_source(c.header, schedlib.list_source(sched)), c.ops)
            rr = RL.run_impl([small], jobs=1)[small.cid]
            v2 = R.run_model([small], {small.cid: rr})[small.cid]
            names = {"loop": ("C04_Model", "EventLoop"), "elt": ("C05_Model", "EventLoopThread"),
                     "pool": ("C05_PoolSysModel", "EventLoopThreadPool")}[kind_of(c)]
            what.append("trace validation %s vs the real %s broken: %s (%d of %d traces rejected); the oracle holds on all runs"
                        % (names[0], names[1], v2 if not v2.startswith("accepted") else v, len(corr_bad), len(loops) + len(elts) + len(pools)))
            body += small.text() + "".join("# " + l + "\n" for l in rr.lines[-40:])
        p = chk.write_replay("broken_obligation.txt", "\n".join("# " + w for w in what) + "\n" + body +
                             ("\n--- coq log tail ---\n" + pr["log"][-3000:] if not pr["ok"] else ""))
        chk.violation(p, "; ".join(what), no_input=True)
    return chk.finish(level="proof", assumptions=[
        "an eventfd is readable iff its counter is positive and read zeroes it; epoll/poll are level-triggered (3.4)",
        "sequential consistency per access of the plain flags (quit_, callingPendingFunctors_, looping_, loop_ of EventLoopThread)",
        "pthread_create starts the thread, pthread_join returns when it has exited (the OS's); Thread::start()'s latch is one boolean",
        "the models are tied to the code by trace validation under a controlled scheduler and by a differential run (testing), "
        "not by a verified C++ semantics",
        "user functors / callbacks terminate (quit() ends the loop 'once the current iteration is finished')",
        "next_ (int) and hash codes (size_t) are modelled as unbounded naturals: no overflow of next_ below 2^31 threads"])
