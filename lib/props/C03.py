"""C03: shutdown() flushes everything before FIN; forceClose() closes at once, safely."""
import connlib


def nontrivial(c, tr):
    kinds = [op.split()[0] for op in c.ops]
    if not any(k in ("SHUT", "XSHUT", "FC", "FCD", "DFIRE", "XRC") for k in kinds):
        return None
    fin = any(o.fin for o in tr.obs)
    down = any("Down" in o.ev for o in tr.obs)
    backlog_at_shut = any(tr.obs[i].out > 0 for i, k in enumerate(kinds) if k in ("SHUT", "XSHUT"))
    return (tuple(kinds), fin, down, backlog_at_shut)


def run(chk, replay=None):
    return connlib.run_property(
        chk, "C03", connlib.oracle_c03, ["close", "close", "mixed"], 1500, 24000, replay=replay,
        nontrivial=nontrivial, races=True,
        rule="corpus (incl. the F-6 and F-19 witnesses) + random sequences mixing sends (loop/foreign) with shutdown()/forceClose()/forceCloseWithDelay()/peer close in all orders, "
             "backlogs from empty to MBs at the moment of shutdown; shutdown()/forceClose() also issued on real foreign threads cut at their load / store / hand-off "
             "(XRC/XRS/XRE), at low frequency with a loop-thread close between load and store (F-19); non-trivial = contains a shutdown or forced close; distinct by (op kinds, FIN seen, DOWN seen, backlog at shutdown)")
