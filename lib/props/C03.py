"""C03: shutdown() flushes everything before FIN; forceClose() closes at once, safely."""
import re
import connlib
import vlib

FC1 = re.compile(r"^fc-drop alive_after_request=(\d)$")
FC2 = re.compile(r"^fc-drop alive_until_functor=(\d) down=(\d+) close=(\d+) destroyed_after=(\d)$")
FCD = re.compile(r"^fcd-drop destroyed_before_timer=(\d) down=(\d+) timer_fired_quietly=1$")


def fcref_part(chk):
    """Failing-input finder for the structure facts forceClose_queues_strong_ref / forceCloseWithDelay_holds_weak_ref
    (Conn_GenTieLife.source_structure_life) on the real TcpConnection under ASan (harness/C03_fcref.cc):
    forceClose() followed by the release of the last user reference still brings the connection DOWN exactly once;
    a delayed forced close whose timer outlives the connection fires as a no-op."""
    exe = vlib.build_driver("C03_fcref", ["C03_fcref.cc"], variant="asan", components=("base", "net"))
    rc, so, se = vlib.sh2([exe], timeout=60, env={"ASAN_OPTIONS": "detect_leaks=0:abort_on_error=0", "UBSAN_OPTIONS": "print_stacktrace=1"})
    chk.cov["evaluations"] += 1
    lines = [l for l in so.split("\n") if l.strip()]
    m1 = FC1.match(lines[0]) if len(lines) > 0 else None
    m2 = FC2.match(lines[1]) if len(lines) > 1 else None
    m3 = FCD.match(lines[2]) if len(lines) > 2 else None
    bad = None
    if not (m1 and m1.group(1) == "1"):
        bad = "forceClose() did not leave the connection alive after the request (or the probe crashed before its first line)"
    elif not m2:
        bad = ("after forceClose() the caller released the last user reference while forceCloseInLoop was still queued and the process "
               "died (rc=%s: %s): the queued functor does not own the connection, DOWN is never delivered" % (rc, (se.strip().split("\n") or [""])[0][:200]))
    elif m2.group(1) != "1" or m2.group(2) != "1" or m2.group(3) != "1":
        bad = ("after forceClose() the caller released the last user reference while forceCloseInLoop was still queued: alive until the functor ran=%s, "
               "DOWN callbacks=%s (must be exactly 1), close callbacks=%s" % (m2.group(1), m2.group(2), m2.group(3)))
    elif not m3 or rc != 0:
        bad = "forceCloseWithDelay(1.0) whose timer outlives the (closed and destroyed) connection did not fire quietly (rc=%s: %s)" % (rc, (se.strip().split("\n") or [""])[0][:200])
    elif m3.group(2) != "1":
        bad = "delayed forced close: DOWN callbacks=%s (must be exactly 1)" % m3.group(2)
    if m2 and m3:
        chk.cov["forced_close_reference_probe"] = {"fc_alive_until_functor": m2.group(1) == "1", "fc_down": int(m2.group(2)), "fc_close": int(m2.group(3)),
                                                   "fc_destroyed_after": m2.group(4) == "1", "fcd_destroyed_before_timer": m3.group(1) == "1", "fcd_down": int(m3.group(2))}
    if bad:
        p = chk.write_replay("fcref_probe.txt", "# harness/C03_fcref.cc (no input; run it against the tree, ASan build)\n# %s\n--- stdout ---\n%s\n--- stderr (head) ---\n%s\n"
                             % (bad, so, se[:3000]))
        chk.violation(p, "C03 fails on the implementation: " + bad)
    chk.add_obligation("forced-close reference probe on the real TcpConnection (ASan): forceClose() + release of the last user reference still delivers DOWN exactly once; "
                       "a delayed forced close that outlives the connection fires as a no-op (harness/C03_fcref.cc; source_structure_life)", not bad)


def nontrivial(c, tr):
    kinds = [op.split()[0] for op in c.ops]
    if not any(k in ("SHUT", "XSHUT", "FC", "FCD", "DFIRE", "XRC") for k in kinds):
        return None
    fin = any(o.fin for o in tr.obs)
    down = any("Down" in o.ev for o in tr.obs)
    backlog_at_shut = any(tr.obs[i].out > 0 for i, k in enumerate(kinds) if k in ("SHUT", "XSHUT"))
    return (tuple(kinds), fin, down, backlog_at_shut)


def run(chk, replay=None):
    return connlib.run_property(
        chk, "C03", connlib.oracle_c03, ["close", "close", "mixed"], 1500, 24000, replay=replay,
        nontrivial=nontrivial, races=True, extra=fcref_part,
        rule="corpus (incl. the F-6 and F-19 witnesses) + random sequences mixing sends (loop/foreign) with shutdown()/forceClose()/forceCloseWithDelay()/peer close in all orders, "
             "backlogs from empty to MBs at the moment of shutdown; shutdown()/forceClose() also issued on real foreign threads cut at their load / store / hand-off "
             "(XRC/XRS/XRE), at low frequency with a loop-thread close between load and store (F-19); non-trivial = contains a shutdown or forced close; distinct by (op kinds, FIN seen, DOWN seen, backlog at shutdown)")
