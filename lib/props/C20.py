"""C20: calendar, time-zone, address conversions agree with the platform and round-trip.

proof   : Properties_C20.v (sweeps over the functions regenerated from Date.cc/TimeZone.cc by
          lib/gen_C20.py; lookup / local round trip for all well-formed tables; text forms)
tie     : extracted model vs the real muduo functions (harness/C20_driver.cc) on the same cases
oracle  : the property text itself in Python (datetime / calendar / struct / ipaddress) plus what
          glibc says for the same input (printed by the C++ driver after ' # ')."""
import os, re, sys, glob, time, bisect, hashlib, struct, socket, ipaddress, calendar, datetime
import vlib

PROP = "C20"
ZONEROOT = "/usr/share/zoneinfo"
J1970 = 2440588
JFIRST, JLAST = 2415021, 2634531            # 1900-01-01 .. 2500-12-31
UTC_FIRST, UTC_END = (JFIRST - J1970) * 86400, (JLAST + 1 - J1970) * 86400
DELTAS = [0, 1, 2, 3599, 3600, 3601]
DRIVER_FLAGS = ["-DVERIF_HARNESS_SCHED_H", "-include", "/usr/include/sched.h"]  # harness/sched.h shadows <sched.h>

FINDING_KEYS = {
    "last": "fromLocalTime-repeated-hour-at-last-transition",
    "first": "fromLocalTime-ambiguity-at-first-transition",
}


def strip_side(line):
    i = line.find(" # ")
    return line if i < 0 else line[:i]


def side(line):
    i = line.find(" # ")
    return "" if i < 0 else line[i + 3:]


def hx(b):
    return b.hex() if b else "-"


# ------------------------------------------------------------------ zone files
def tzif_files():
    """Every TZif file under /usr/share/zoneinfo without leap seconds: right/ is skipped (leap
    seconds), posix/ is a copy of the top level; identical contents are listed once."""
    seen, out = {}, []
    for d, ds, fs in os.walk(ZONEROOT):
        ds[:] = sorted(x for x in ds if not os.path.islink(os.path.join(d, x)) and
                       not (d == ZONEROOT and x in ("right", "posix")))
        for f in sorted(fs):
            p = os.path.join(d, f)
            try:
                b = open(p, "rb").read()
            except OSError:
                continue
            if b[:4] != b"TZif" or len(b) < 44:
                continue
            h = hashlib.sha1(b).hexdigest()
            if h in seen:
                continue
            seen[h] = p
            out.append(p)
    return out


class Table:
    def __init__(self, offs, trans, isdst=None):
        self.offs, self.trans, self.isdst = offs, trans, isdst
        self.utcs = [u for (u, i) in trans]

    @staticmethod
    def parse(o, t, dst="-"):
        offs = [int(x) for x in o.split(",")] if o != "-" else []
        trans = [(int(e.split(":")[0]), int(e.split(":")[1])) for e in t.split(",")] if t != "-" else []
        return Table(offs, trans, dst)

    def tab_op(self):
        return "TAB %s %s" % (",".join(map(str, self.offs)) or "-", ",".join("%d:%d" % x for x in self.trans) or "-")

    def off(self, k):
        return self.offs[k] if 0 <= k < len(self.offs) else 0

    def sorted_utc(self):
        return all(self.utcs[i] <= self.utcs[i + 1] for i in range(len(self.utcs) - 1))

    def wf(self):
        """the well-formedness predicate of the property (independent re-implementation of C20_Model.wf)"""
        if not self.offs:
            return False
        o0 = self.offs[0]
        for n, (u, i) in enumerate(self.trans):
            if not (0 <= i < len(self.offs)):
                return False
            if n + 1 < len(self.trans):
                u2, i2 = self.trans[n + 1]
                if not (0 <= i2 < len(self.offs)):
                    return False
                o1, o2 = self.offs[i], self.offs[i2]
                if not (u < u2 and u + o1 <= u2 + o2 and u + o0 <= u2 + o1 and u + o0 <= u2 + o2):
                    return False
            o0 = self.offs[i]
        return True

    # --- specification: the segment of an instant, the instants of a local time
    def seg(self, t):
        """index of the last transition with utc <= t (-1: before the first)"""
        return bisect.bisect_right(self.utcs, t) - 1

    def seg_off(self, s):
        return self.off(0) if s < 0 else self.off(self.trans[s][1])

    def offset_at(self, t):
        return self.seg_off(self.seg(t))

    def candidates(self, L):
        """all instants whose local time is L, with their segment (linear scan: independent of any search)"""
        res = []
        n = len(self.trans)
        for s in range(-1, n):
            o = self.seg_off(s)
            t = L - o
            lo = self.utcs[s] if s >= 0 else None
            hi = self.utcs[s + 1] if s + 1 < n else None
            if (lo is None or lo <= t) and (hi is None or t < hi):
                res.append((t, s))
        return sorted(res)


def civil(sec):
    d = datetime.datetime(1970, 1, 1) + datetime.timedelta(seconds=sec)
    return (d.year, d.month, d.day, d.hour, d.minute, d.second)


# ------------------------------------------------------------------ generators
def gen_calendar(quick=False):
    cases = []
    lo = JFIRST
    n = 0
    while lo <= JLAST:
        hi = min(lo + 999, JLAST)
        ops = ["D %d %d" % (lo, hi)]
        if not quick or n % 6 == 0 or hi == JLAST:
            ops.append("DI %d %d" % (lo, hi))      # Date::toIsoString: every day in thorough, every 6th block of 1000 days in quick
        cases.append(vlib.Case("cal%d" % n, "cal", ops, "calendar-exhaustive"))
        lo = hi + 1
        n += 1
    # outside the range too (not part of the property; correspondence of the generated functions only)
    cases.append(vlib.Case("calx0", "calx", ["D %d %d" % (JFIRST - 400, JFIRST - 1), "D %d %d" % (JLAST + 1, JLAST + 400)], "calendar-outside"))
    return cases


def gen_utc(rng, n):
    ts = set([UTC_FIRST, UTC_FIRST + 1, UTC_END - 1, UTC_END - 2, -1, 0, 1, 59, 60, 61, 3599, 3600, 86399, 86400, 86401,
              -86399, -86400, -86401, -86402, 2 ** 31 - 1, 2 ** 31, 2 ** 31 + 1, -2 ** 31, -2 ** 31 - 1, -2 ** 31 + 1,
              951782399, 951782400, 951868799, 951868800, 4107542400 - 1, 4107542400])
    for y in list(range(1900, 2501, 4)) + [1900, 1999, 2000, 2001, 2100, 2400, 2500]:
        for (m, d) in ((1, 1), (2, 28), (3, 1), (12, 31)):
            b = calendar.timegm((y, m, d, 0, 0, 0))
            for dt in (-1, 0, 1, 86399, 86400):
                if UTC_FIRST <= b + dt < UTC_END:
                    ts.add(b + dt)
    while len(ts) < n:
        r = rng.random()
        if r < 0.4:
            ts.add(rng.randrange(UTC_FIRST, UTC_END))
        elif r < 0.7:
            ts.add(rng.randrange(-2 ** 31, 2 ** 32))
        elif r < 0.85:
            ts.add(rng.randrange(UTC_FIRST // 86400, UTC_END // 86400) * 86400 + rng.choice([-2, -1, 0, 1, 2, 43200, 86398, 86399]))
        else:
            ts.add(rng.randrange(-90000, 90000))
    ts = sorted(t for t in ts if UTC_FIRST <= t < UTC_END)
    cases = []
    for i in range(0, len(ts), 500):
        ops = ["U %d" % t for t in ts[i:i + 500]]
        for t in ts[i:i + 500:5]:
            ops.append("V %d %d %d %d %d %d" % civil(t))
        cases.append(vlib.Case("utc%d" % (i // 500), "utc", ops, "utc"))
    return cases


def probe_times(tb, rng, ndense):
    ts = set()
    for (u, i) in tb.trans:
        if abs(u) > 3 * 10 ** 10:
            continue
        for d in DELTAS:
            ts.add(u + d)
            ts.add(u - d)
    lo, hi = 0, 2145916800  # 1970 .. 2038
    for _ in range(ndense):
        ts.add(rng.randrange(lo, hi))
    for k in range(0, ndense // 4):
        ts.add(rng.randrange(-2 ** 31, 0))
    return sorted(ts)


def skipped_ops(tb):
    """F ops on local times that do not exist (forward transitions), both sides requested."""
    ops = []
    for j, (u, i) in enumerate(tb.trans):
        if abs(u) > 3 * 10 ** 10 or not (0 <= i < len(tb.offs)):
            continue
        ob = tb.seg_off(j - 1)
        oa = tb.off(i)
        if oa > ob:
            gap = oa - ob
            for x in sorted(set([0, 1, gap // 2, gap - 1])):
                L = u + ob + x
                for post in (0, 1):
                    ops.append("F %d %d %d %d %d %d %d" % (civil(L) + (post,)))
    return ops


def gen_tzfile_case(cid, path, tb, rng, ndense):
    ops = [tb.tab_op()]
    ops += ["R %d" % t for t in probe_times(tb, rng, ndense)]
    ops += skipped_ops(tb)
    return vlib.Case(cid, "tzfile " + path, ops, "tzfile")


def gen_syn_tables(rng, n):
    """random tables: mostly well-formed (realistic offsets and gaps), some with too-close
    transitions, unsorted or equal instants, a single transition, none."""
    cases = []
    for ci in range(n):
        k = rng.choice([1, 2, 2, 3, 3, 4, 6])
        offs = [rng.choice([0, 3600, -3600, 7200, 1800, 5400, -18000, -14400, 34200, 45900, 50400, -1521, 2079, 20700])
                for _ in range(k)]
        nt = rng.choice([0, 1, 1, 2, 2, 3, 4, 5, 8, 13, 16, 17, 33])
        style = rng.choice(["wf"] * 6 + ["close", "equal", "unsorted", "tiny"])
        u = rng.choice([-3 * 10 ** 9, -10 ** 9, 0, 10 ** 9]) + rng.randrange(0, 10 ** 6)
        trans = []
        for j in range(nt):
            trans.append((u, rng.randrange(k)))
            if style == "wf":
                u += rng.choice([86400 * 30, 86400 * 180, 86400 * 365, 200000, 100000])
            elif style == "close":
                u += rng.choice([1, 60, 1800, 3600, 3601, 7200, 86400 * 100])
            elif style == "equal":
                u += rng.choice([0, 0, 3600, 86400 * 50])
            elif style == "tiny":
                u += rng.choice([1, 2, 3])
            else:
                u += rng.choice([-86400 * 10, 86400 * 100, 86400 * 200, -1])
        tb = Table(offs, trans)
        ops = [tb.tab_op()]
        ts = set()
        for (uu, i) in trans:
            for d in DELTAS + [7199, 7200, 7201, 86400]:
                ts.add(uu + d)
                ts.add(uu - d)
        for _ in range(6):
            ts.add(rng.randrange(-4 * 10 ** 9, 3 * 10 ** 9))
        ops += ["R %d" % t for t in sorted(ts)]
        ops += skipped_ops(tb)
        cases.append(vlib.Case("syn%d" % ci, "tzsyn", ops, "tzsyn-" + style))
    return cases


# ------------------------------------------------------------------ TZif bytes (RFC 8536), independent of muduo and of the model
def py_tzif_block(b, pos, w):
    """(offs, trans, end position) of the data block whose six counts start at pos; None if it does not fit"""
    if pos + 24 > len(b):
        return None
    isut, isstd, leap, timecnt, typecnt, charcnt = struct.unpack(">6l", b[pos:pos + 24])
    q = pos + 24
    need = timecnt * w + timecnt + typecnt * 6 + charcnt + leap * (w + 4) + isstd + isut
    if min(isut, isstd, leap, timecnt, typecnt, charcnt) < 0 or q + need > len(b):
        return None
    ts = struct.unpack(">%d%s" % (timecnt, "l" if w == 4 else "q"), b[q:q + timecnt * w])
    q += timecnt * w
    idx = list(b[q:q + timecnt])
    q += timecnt
    offs = [struct.unpack(">l", b[q + 6 * i:q + 6 * i + 4])[0] for i in range(typecnt)]
    q += 6 * typecnt + charcnt + leap * (w + 4) + isstd + isut
    return offs, list(zip(ts, idx)), q, leap


def py_tzif(b):
    """what RFC 8536 says a reader without leap-second support gets out of the file: the table of the 64-bit
    block of a version-2 file, of the 32-bit block otherwise (muduo documents that it reads the 32-bit data
    unless the version byte is '2'); None when the file is not a well-formed leap-second-free TZif file"""
    if len(b) < 44 or b[:4] != b"TZif":
        return None
    r1 = py_tzif_block(b, 20, 4)
    if r1 is None:
        return None
    if b[4:5] != b"2":
        offs, trans, q, leap = r1
    else:
        q1 = r1[2]
        if b[q1:q1 + 4] != b"TZif":
            return None
        r2 = py_tzif_block(b, q1 + 20, 8)
        if r2 is None:
            return None
        offs, trans, q, leap = r2
    if leap != 0 or any(i >= len(offs) for (u, i) in trans):
        return None
    return Table(offs, trans)


def py_tzif_encode_block(tb, w, rng):
    k = len(tb.offs)
    abbr = bytes(rng.randrange(65, 91) for _ in range(rng.choice([0, 4, 8]))) + b"\0"
    nstd = rng.choice([0, k])
    nut = rng.choice([0, k])
    out = struct.pack(">6l", nut, nstd, 0, len(tb.trans), k, len(abbr))
    out += b"".join(struct.pack(">l" if w == 4 else ">q", u) for (u, i) in tb.trans)
    out += bytes(i for (u, i) in tb.trans)
    # ttinfo: a random isdst byte and a random designation index inside the designation table per type
    # (C20_tzif_reads_rfc8536 quantifies over both bytes; the reader must ignore them)
    out += b"".join(struct.pack(">lBB", o, rng.randrange(2), rng.randrange(len(abbr))) for o in tb.offs)
    return out + abbr + bytes(rng.randrange(2) for _ in range(nstd)) + bytes(rng.randrange(2) for _ in range(nut))


def py_tzif_encode(tb, version, rng):
    hdr = lambda v: b"TZif" + v + bytes(15)
    if version == b"2":
        t1 = Table(tb.offs, [(u, i) for (u, i) in tb.trans if -2 ** 31 <= u < 2 ** 31])
        return hdr(version) + py_tzif_encode_block(t1, 4, rng) + hdr(version) + py_tzif_encode_block(tb, 8, rng) + b"\nUTC0\n"
    return hdr(version) + py_tzif_encode_block(tb, 4, rng)


def leap_files(n):
    out = []
    for d, ds, fs in os.walk(os.path.join(ZONEROOT, "right")):
        ds.sort()
        for f in sorted(fs):
            out.append(os.path.join(d, f))
    return out[::max(1, len(out) // n)][:n] if out else []


def tzif_mutations(b, rng, n):
    """malformed variants of a real file: truncations at and around every section boundary, wrong magic,
    every version byte, counts changed (also to negative values whose outcome is defined), indices out of range,
    leap-second records announced, first-block counts that make the version-2 skip land elsewhere"""
    out = []
    c1 = struct.unpack(">6l", b[20:44])
    n1 = 5 * c1[3] + 6 * c1[4] + c1[5] + 8 * c1[2] + c1[1] + c1[0]
    h2 = 44 + n1
    cuts = set([0, 3, 4, 5, 19, 20, 43, 44, 44 + 4 * c1[3], 44 + 5 * c1[3], 44 + 5 * c1[3] + 6 * c1[4], h2 - 1, h2, h2 + 4, h2 + 20, h2 + 43, h2 + 44,
                len(b) - 1, len(b)])
    if len(b) > h2 + 44:
        c2 = struct.unpack(">6l", b[h2 + 20:h2 + 44])
        q = h2 + 44
        for step in (8 * c2[3], c2[3], 6 * c2[4], c2[5], c2[1], c2[0]):
            q += step
            cuts |= set([q - 1, q, q + 1])
    for c in sorted(cuts):
        if 0 <= c <= len(b):
            out.append(b[:c])
    out.append(b"TZiF" + b[4:])
    out.append(b[:h2] + b"TZjf" + b[h2 + 4:])
    for v in (b"\0", b"1", b"2", b"3", b"4", b"\x32\x00"[:1]):
        out.append(b[:4] + v + b[5:])
        out.append(b[:h2 + 4] + v + b[h2 + 5:])

    def setcount(buf, base, k, v):
        return buf[:base + 4 * k] + struct.pack(">l", v) + buf[base + 4 * k + 4:]
    for base in (20, h2 + 20):
        for k in range(6):
            for v in (0, 1, -1, 2, c1[4], c1[4] + 1, 255, 256, 5000):
                if k == 5 and v < 0 and (base != 20 or b[4:5] != b"2"):
                    continue     # charcnt < 0 in a block that is read: char buf[-1], undefined
                out.append(setcount(b, base, k, v))
    for _ in range(n):
        m = bytearray(b)
        r = rng.random()
        if r < 0.5 and len(b) > h2 + 44:
            # an index byte of the 64-bit block
            c2 = struct.unpack(">6l", b[h2 + 20:h2 + 44])
            if c2[3]:
                m[h2 + 44 + 8 * c2[3] + rng.randrange(c2[3])] = rng.choice([c2[4], c2[4] + 1, 255, c2[4] - 1 if c2[4] else 0])
        elif r < 0.8 and c1[3]:
            m[44 + 4 * c1[3] + rng.randrange(c1[3])] = rng.choice([c1[4], 255])
        else:
            m[rng.randrange(len(m))] ^= 1 << rng.randrange(8)
            # a random bit flip may produce charcnt < 0 (undefined in the C++): keep it out
            cc = [struct.unpack(">l", bytes(m[x:x + 4]))[0] for x in (40, h2 + 40) if x + 4 <= len(m)]
            big = [struct.unpack(">l", bytes(m[x:x + 4]))[0] for base in (20, h2 + 20) for x in range(base, base + 24, 4) if x + 4 <= len(m)]
            if any(v < 0 for v in cc) or any(abs(v) > 10 ** 6 for v in big):
                continue
        out.append(bytes(m))
    return out


def gen_tzif(files, rng, quick):
    cases = []
    for i, p in enumerate(files):
        cases.append(vlib.Case("tzif%d" % i, "tzif " + p, ["TZB " + (open(p, "rb").read().hex() or "-")], "tzif-shipped"))
    for i, p in enumerate(leap_files(12)):
        cases.append(vlib.Case("tzleap%d" % i, "tzif " + p, ["TZB " + open(p, "rb").read().hex()], "tzif-leap"))
    # written by the independent encoder from random tables, every version byte
    for i in range(60 if quick else 600):
        k = rng.randrange(1, 7)
        offs = [rng.choice([0, 3600, -3600, 34200, -16200, 2079, -2 ** 31, 2 ** 31 - 1, rng.randrange(-50000, 50000)]) for _ in range(k)]
        nt = rng.choice([0, 1, 2, 3, 10, 100, 300])
        us = sorted(set(rng.choice([rng.randrange(-2 ** 31, 2 ** 31), rng.randrange(-2 ** 40, 2 ** 40), -2 ** 31, 2 ** 31 - 1, -2 ** 63, 2 ** 63 - 1])
                        for _ in range(nt)))
        v = rng.choice([b"\0", b"2", b"2", b"3", b"4"])
        if v != b"2":
            us = [u for u in us if -2 ** 31 <= u < 2 ** 31]
        trs = [(u, rng.randrange(k)) for u in us]
        tb = Table(offs, [(u, j) for (u, j) in trs if -2 ** 63 <= u + offs[j] < 2 ** 63])
        cases.append(vlib.Case("tzenc%d" % i, "tzif synthetic", ["TZB " + py_tzif_encode(tb, v, rng).hex()], "tzif-encoded"))
    # malformed
    pick = [p for p in files if os.path.basename(p) in ("Juba", "Lord_Howe", "Gaza", "UTC", "Dublin", "Kiritimati", "Casablanca")]
    extra = list(files)
    rng.shuffle(extra)
    n = 0
    for p in pick + extra[:(4 if quick else 60)]:
        b = open(p, "rb").read()
        ops = ["TZB " + (m.hex() or "-") for m in tzif_mutations(b, rng, 12 if quick else 200)]
        for j in range(0, len(ops), 40):
            cases.append(vlib.Case("tzmut%d" % n, "tzif mutated " + p, ops[j:j + 40], "tzif-mutated"))
            n += 1
    return cases


def gen_text(rng, n):
    us = set([0, 1, 999999, 1000000, 1000001, 1234567890123456, 16756761599999999, -1, -999999, -1000000, -1000001,
              UTC_FIRST * 10 ** 6, (UTC_END - 1) * 10 ** 6 + 999999, 946684799999999, 946684800000000, 100000, 99999, 10, 9])
    while len(us) < n:
        r = rng.random()
        if r < 0.6:
            us.add(rng.randrange(0, UTC_END) * 10 ** 6 + rng.choice([0, 1, 9, 10, 99999, 100000, 999999, rng.randrange(10 ** 6)]))
        elif r < 0.8:
            us.add(rng.randrange(UTC_FIRST, 0) * 10 ** 6 - rng.randrange(10 ** 6))
        else:
            us.add(rng.randrange(-10 ** 7, 10 ** 7))
    us = sorted(us)
    cases = []
    for i in range(0, len(us), 400):
        cases.append(vlib.Case("ts%d" % (i // 400), "text", ["TS %d" % u for u in us[i:i + 400]], "timestamp-text"))
    # Timestamp arithmetic: secondsSinceEpoch, fromUnixTime, addTime (double seconds), timeDifference
    ta = []
    secs_pool = ["0", "1", "-1", "0.5", "-2.5", "0.1", "0.000001", "1e-7", "3600", "86400.25", "1e9", "1000000000.000001", "-0.999999", "2.5e-6",
                 "123456.789", "1e12"]
    for i in range(n // 10):
        u = rng.choice([0, 1, -1, 999999, 1000000, -999999, -1000000, rng.randrange(-10 ** 15, 10 ** 16), rng.randrange(0, UTC_END) * 10 ** 6 + rng.randrange(10 ** 6)])
        t = rng.choice([0, 1, 2 ** 31 - 1, 2 ** 31, rng.randrange(0, 4 * 10 ** 9), rng.randrange(-10 ** 9, 0), rng.randrange(0, 9 * 10 ** 12)])
        m = rng.choice([0, 1, 999999, rng.randrange(10 ** 6), rng.randrange(10 ** 6), -1, 1000000, rng.randrange(-10 ** 6, 2 * 10 ** 6)])
        sec = rng.choice(secs_pool + [repr(rng.uniform(-1e6, 1e6)), repr(rng.uniform(0, 10)), str(rng.randrange(-10 ** 6, 10 ** 6))])
        delta = int(float(sec) * 1000000.0)
        hi = rng.randrange(-2 ** 49, 2 ** 49)
        lo_ = rng.choice([0, hi, hi - 1, hi + 1, rng.randrange(-2 ** 49, 2 ** 49)])
        ta.append("TA %d %d %d %s %d %d %d" % (u, t, m, sec, delta, hi, lo_))
    for i in range(0, len(ta), 300):
        cases.append(vlib.Case("ta%d" % (i // 300), "text", ta[i:i + 300], "timestamp-arith"))
    be = []
    for k in (2, 4, 8):
        m = 1 << (8 * k)
        vals = set([0, 1, 2, 255, 256, 257, m - 1, m // 2, m // 2 - 1, m // 2 + 1, 0x0102030405060708 % m, 0x8000 % m, 0x1234 % m])
        for _ in range(60):
            vals.add(rng.randrange(m))
        for v in sorted(vals):
            if k == 8 and v >= m // 2:
                v -= m       # the driver reads a signed 64-bit number
            be.append("BE %d %d" % (k, v))
    cases.append(vlib.Case("be0", "text", be, "byte-order"))
    return cases


OCTS = [0, 1, 9, 10, 11, 99, 100, 101, 127, 128, 199, 200, 249, 250, 254, 255]
PORTS = [0, 1, 21, 80, 255, 256, 257, 443, 4660, 8080, 13330, 32767, 32768, 65534, 65535]
BAD4 = ["", "1", "1.2.3", "1.2.3.4.5", "256.1.1.1", "1.2.3.256", "1..2.3", ".1.2.3", "1.2.3.", "1.2.3.4.", "01.2.3.4",
        "1.2.3.04", "00.0.0.0", "1.2.3.4 ", " 1.2.3.4", "0x1.2.3.4", "1.2.3.-4", "1.2.3.+4", "1.2.3.4a", "a.b.c.d",
        "1.2.3.1000", "1,2,3,4", "1.2.3.4/8", "999.999.999.999", "0.0.0.00", "1.2.3.0004"]


def ip6_forms(rng, groups):
    """textual forms of one IPv6 address: full, every legal '::' placement, upper case, leading zeros, dotted tail"""
    full = ["%x" % g for g in groups]
    forms = [":".join(full), ":".join("%04x" % g for g in groups), ":".join("%X" % g for g in groups)]
    i = 0
    while i < 8:
        if groups[i] == 0:
            j = i
            while j < 8 and groups[j] == 0:
                j += 1
            for a in range(i, j):
                for b in range(a + 1, j + 1):
                    left, right = ":".join(full[:a]), ":".join(full[b:])
                    forms.append(left + "::" + right)
            i = j
        else:
            i += 1
    tail = "%d.%d.%d.%d" % (groups[6] >> 8, groups[6] & 255, groups[7] >> 8, groups[7] & 255)
    forms.append(":".join(full[:6]) + ":" + tail)
    if all(g == 0 for g in groups[:5]):
        forms.append("::" + ("%x:" % groups[5] if groups[5] else "") + tail)
    return forms


def gen_inet(rng, n4, n6):
    ops = []
    def ip_op(text, port, flag):
        tb = text.encode("latin-1")
        p6 = n6t = "-"
        try:
            a = socket.inet_pton(socket.AF_INET6, text)
            p6 = a.hex()
            n6t = socket.inet_ntop(socket.AF_INET6, a).encode().hex()
        except (OSError, ValueError):
            if flag or ":" in text:
                n6t = b"::".hex()       # the zeroed address prints as "::"
        ops.append("IP %s %d %d %s %s" % (tb.hex() or "-", port, flag, p6, n6t))
    seen = set()
    # IPv4: boundary-dense octets, every port boundary
    for a in OCTS:
        for b in (0, 255, 10):
            ip_op("%d.%d.%d.%d" % (a, b, 255 - a, a), PORTS[(a + b) % len(PORTS)], 0)
    for _ in range(n4):
        o = [rng.choice(OCTS + [rng.randrange(256)]) for _ in range(4)]
        ip_op("%d.%d.%d.%d" % tuple(o), rng.choice(PORTS + [rng.randrange(65536)]), 0)
    for p in PORTS:
        ip_op("127.0.0.1", p, 0)
        ip_op("::1", p, 0)
    for b in BAD4:
        ip_op(b, 80, 0)
        ops.append("P4 %s" % (b.encode().hex() or "-"))
    for a in OCTS:
        ops.append("P4 %s" % ("%d.%d.%d.%d" % (a, 255 - a, a, 0)).encode().hex())
    ip_op("1.2.3.4", 80, 1)          # ipv6 flag with an IPv4 literal: inet_pton(AF_INET6) fails, zero address
    # IPv6: all textual compressions
    for _ in range(n6):
        groups = [rng.choice([0, 0, 0, 1, 0xffff, 0x0db8, 0x2001, 0xfe80, 0x00ab, rng.randrange(65536)]) for _ in range(8)]
        r = rng.random()
        if r < 0.15:
            groups[:5] = [0] * 5
            groups[5] = rng.choice([0, 0xffff])
        elif r < 0.25:
            groups = [0] * 8
            groups[rng.randrange(8)] = rng.choice([0, 1, 0xffff])
        for f in ip6_forms(rng, groups):
            if f not in seen:
                seen.add(f)
                ip_op(f, rng.choice(PORTS), rng.choice([0, 0, 1]))
    for b in ["::", "::1", "1::", ":::", "1:2:3:4:5:6:7", "1:2:3:4:5:6:7:8:9", "1::2::3", "12345::", "g::1", "::1.2.3", "::1.2.3.256",
              "1:2:3:4:5:6:7::8", "::ffff:1.2.3.4", "::1.2.3.4", "fe80::1%lo", "[::1]", "1:2:3:4:5:6:1.2.3.4", "::0:0", "0::0"]:
        ip_op(b, 8080, 0)
    # the longest texts inet_ntop(AF_INET6) can print (38 / 39 characters) with 4- and 5-digit ports: the scratch
    # buffer of InetAddress::toIpPort must hold '[' + 39 + "]:" + 5 digits + NUL
    for text in ("ffff:ffff:ffff:ffff:ffff:ffff:ffff:ffff", "2001:db8:1111:2222:3333:4444:5555:6666", "1111:2222:3333:4444:5555:6666:7777:888",
                 "fe80:1111:2222:3333:4444:5555:6666:7777", "::ffff:255.255.255.255", "0:0:0:0:0:ffff:255.255.255.255", "::255.255.255.255",
                 "64:ff9b::255.255.255.255", "1111:2222:3333:4444:5555:6666:255.255.255.255"):
        for pt in (65535, 10000, 9999, 999, 0):
            ip_op(text, pt, 0)
    # setScopeId: stored for IPv6 only, never printed
    def ips_op(text, port, flag, scope):
        p6 = n6t = "-"
        try:
            a = socket.inet_pton(socket.AF_INET6, text)
            p6 = a.hex()
            n6t = socket.inet_ntop(socket.AF_INET6, a).encode().hex()
        except (OSError, ValueError):
            if flag or ":" in text:
                n6t = b"::".hex()
        ops.append("IPS %s %d %d %d %s %s" % (text.encode().hex(), port, flag, scope, p6, n6t))
    for text in ("fe80::1", "::1", "ffff:ffff:ffff:ffff:ffff:ffff:ffff:ffff", "::ffff:1.2.3.4", "1.2.3.4", "127.0.0.1", "fe80::1%lo"):
        for scope in (0, 1, 2, 4294967295):
            ips_op(text, rng.choice(PORTS), 0, scope)
    # inet_ntop / inet_pton(AF_INET6) themselves against the Gallina RFC 5952 printer / reader (C20_Ip6Model)
    def rand_addr6():
        g = [rng.choice([0, 0, 0, 0, 1, 0xffff, 0x0db8, 0x2001, 0x00ab, 0x0a00, rng.randrange(65536)]) for _ in range(8)]
        r = rng.random()
        if r < 0.2:
            g[:5] = [0] * 5
            g[5] = rng.choice([0, 0xffff, 1])
        elif r < 0.3:
            g = [0] * 8
            g[rng.randrange(8)] = rng.choice([0, 1, 2, 0xffff])
        elif r < 0.4:
            i, j = sorted(rng.sample(range(9), 2))
            g = [rng.randrange(1, 65536) for _ in range(8)]
            g[i:j] = [0] * (j - i)
        return b"".join(x.to_bytes(2, "big") for x in g)
    texts6 = []
    for _ in range(n6 * 6):
        a = rand_addr6()
        ops.append("N6 " + a.hex())
        t = socket.inet_ntop(socket.AF_INET6, a)
        texts6 += [t, t.upper()]
        groups = [int.from_bytes(a[2 * i:2 * i + 2], "big") for i in range(8)]
        if rng.random() < 0.3:
            texts6 += ip6_forms(rng, groups)
    for a in (bytes(16), bytes(15) + b"\1", b"\xff" * 16, bytes(10) + b"\xff\xff\x7f\0\0\1", bytes(12) + b"\1\2\3\4", bytes(14) + b"\0\2",
              bytes(2) + b"\0\1" + bytes(12), b"\0\1" + bytes(4) + b"\0\1" + bytes(8), b"\0\1" + bytes(6) + b"\0\1" + bytes(6)):
        ops.append("N6 " + a.hex())
    bad6 = ["", ":", "::", ":::", "1", "1:", ":1", "1::", "::1", "1:2:3:4:5:6:7", "1:2:3:4:5:6:7:8", "1:2:3:4:5:6:7:8:9", "1::2::3", "12345::", "g::1",
            "::1.2.3", "::1.2.3.256", "1:2:3:4:5:6:7::8", "1:2:3:4:5:6:7::", "::2:3:4:5:6:7:8", "1:2:3:4:5:6:7:8::", "::ffff:1.2.3.4", "::1.2.3.4",
            "fe80::1%lo", "[::1]", "1:2:3:4:5:6:1.2.3.4", "1:2:3:4:5:6:7:1.2.3.4", "1:2:3:4:5:1.2.3.4", "1::1.2.3.4", "1.2.3.4", "1.2.3.4::",
            "::1.2.3.4:5", "0:0:0:0:0:0:0:0", "00:0::", "0000::", "00000::", "::01.2.3.4", "::1.02.3.4", "1:2:3:4:5:6::1.2.3.4", "1:2:3:4:5::1.2.3.4",
            "::ffff:1.2.3.4.5", "::ffff:1.2.3", "1:::2", "::1:", "1::2:", "a:B:c:D::", "::fFfF:255.255.255.255", " ::1", "::1 ", "::12.1.1.1", "::1234.1.1.1"]
    for _ in range(n6 * 4):
        t = rng.choice(texts6)
        i = rng.randrange(len(t) + 1)
        bad6.append(t[:i] + rng.choice([":", "::", "0", "f", ".", "g", "", ""]) + t[i + rng.choice([0, 0, 1]):])
    for t in texts6 + bad6:
        if "\0" not in t:
            ops.append("P6 " + (t.encode("latin-1").hex() or "-"))
    for p in PORTS:
        for lo in (0, 1):
            for v6 in (0, 1):
                ops.append("IPP %d %d %d %s" % (p, lo, v6, ("::1" if lo else "::").encode().hex() if v6 else "-"))
    cases = []
    for i in range(0, len(ops), 300):
        cases.append(vlib.Case("inet%d" % (i // 300), "inet", ops[i:i + 300], "inet"))
    return cases


# ------------------------------------------------------------------ oracles (on the implementation's lines)
class Verdicts:
    def __init__(self):
        self.bad = []        # (case, op index, message)
        self.known = {}      # key -> (case, op index, message)
        self.info = {}

    def fail(self, c, i, msg):
        self.bad.append((c, i, msg))

    def hit(self, key, c, i, msg, t):
        """remember the most telling witness of a finding: a shipped zone file, an instant in 1970..2037"""
        score = (0 if c.tag == "corpus" else 1, 0 if c.tag in ("tzfile", "corpus") else 1, 0 if 0 <= t < 2145916800 else 1)
        if key not in self.known or score < self.known[key][3]:
            self.known[key] = (c, i, msg, score)

    def note(self, k, n=1):
        self.info[k] = self.info.get(k, 0) + n


def py_weekday(y, m, d):
    return (datetime.date(y, m, d).weekday() + 1) % 7


def oracle_case(c, lines, V, tables):
    """Evaluate the property on the implementation's output of one case."""
    kind = c.header.split()[0] if c.header else ""
    li = 1
    tb = None
    for oi, op in enumerate(c.ops):
        w = op.split()
        k = w[0]
        if k == "D":
            lo, hi = int(w[1]), int(w[2])
            for j in range(lo, hi + 1):
                if li >= len(lines):
                    V.fail(c, oi, "missing output for day %d" % j)
                    return
                ln = lines[li]
                li += 1
                f = strip_side(ln).split()
                g = side(ln).split()
                if kind != "cal":
                    continue
                dt = datetime.date.fromordinal(j - 1721425)
                exp = ["D", str(j), str(dt.year), str(dt.month), str(dt.day), str(py_weekday(dt.year, dt.month, dt.day)), str(j)]
                if f != exp:
                    V.fail(c, oi, "day %d: muduo says %s, the proleptic Gregorian calendar says %s (fields: y m d weekday, day number of y-m-d)"
                           % (j, " ".join(f[2:]), " ".join(exp[2:])))
                    break
                expg = [str(dt.year), str(dt.month), str(dt.day), str(py_weekday(dt.year, dt.month, dt.day)), str(j), str(j)]
                if g != expg:
                    V.fail(c, oi, "day %d: muduo vs gmtime_r/timegm: %s vs %s" % (j, " ".join(f[2:]), " ".join(g)))
                    break
            continue
        if k == "DI":
            lo, hi = int(w[1]), int(w[2])
            for j in range(lo, hi + 1):
                if li >= len(lines):
                    V.fail(c, oi, "missing output for day %d" % j)
                    return
                ln = lines[li]
                li += 1
                if kind != "cal":
                    continue
                dt = datetime.date.fromordinal(j - 1721425)
                e = "DI %d %04d-%02d-%02d" % (j, dt.year, dt.month, dt.day)
                if strip_side(ln) != e or side(ln) != e.split()[2]:
                    V.fail(c, oi, "day %d: Date::toIsoString gives %r (strftime %r), expected %r" % (j, strip_side(ln)[3:], side(ln), e[3:]))
                    break
            continue
        if li >= len(lines):
            V.fail(c, oi, "missing output for %r" % op)
            return
        ln = lines[li]
        li += 1
        f = strip_side(ln).split()
        g = side(ln).split()
        if k == "TA":
            u, t, m, sec, delta, hi, lo_ = int(w[1]), int(w[2]), int(w[3]), w[4], int(w[5]), int(w[6]), int(w[7])
            sse = abs(u) // 10 ** 6 * (1 if u >= 0 else -1)
            exp = ["TA", str(sse), str(t * 10 ** 6 + m), str(u + int(float(sec) * 1000000.0)), str(hi - lo_)]
            if f != exp:
                V.fail(c, oi, "Timestamp arithmetic (secondsSinceEpoch(%d), fromUnixTime(%d, %d), addTime(%d, %s), timeDifference(%d, %d) in microseconds): got %s, expected %s"
                       % (u, t, m, u, sec, hi, lo_, f[1:], exp[1:]))
            elif g != ["%.17g" % (float(hi - lo_) / 1000000)]:
                V.fail(c, oi, "timeDifference(%d, %d) = %s, IEEE double division gives %.17g" % (hi, lo_, g, float(hi - lo_) / 1000000))
            continue
        if k == "U":
            t = int(w[1])
            exp = ["U", str(t)] + [str(x) for x in civil(t)] + [str(t)]
            if f != exp:
                V.fail(c, oi, "toUtcTime(%d)/fromUtcTime: got %s, expected %s" % (t, " ".join(f[2:]), " ".join(exp[2:])))
            elif g != exp[2:]:
                V.fail(c, oi, "toUtcTime(%d) %s differs from gmtime_r/timegm %s" % (t, " ".join(f[2:]), " ".join(g)))
        elif k == "V":
            e = calendar.timegm(tuple(int(x) for x in w[1:7]))
            if f != ["V", str(e)] or g != [str(e)]:
                V.fail(c, oi, "fromUtcTime(%s) = %s, timegm says %s, POSIX formula %d" % (" ".join(w[1:]), f[1:], g, e))
        elif k == "TAB":
            tb = Table.parse(w[1], w[2])
            if f[:1] != ["tab"] or "MISMATCH" in ln:
                V.fail(c, oi, "table of the case differs from what the real reader produced: " + ln)
        elif k == "R":
            oracle_R(c, oi, int(w[1]), f, g, tb, kind, V)
        elif k == "F":
            oracle_F(c, oi, w, f, tb, kind, V)
        elif k == "TZB":
            oracle_TZB(c, oi, w[1], f, V)
        elif k == "TS":
            oracle_TS(c, oi, int(w[1]), ln, V)
        elif k == "BE":
            kk, x = int(w[1]), int(w[2])
            m = 1 << (8 * kk)
            e = (x % m).to_bytes(kk, "big")
            sx = (x % m) - m if (x % m) >= m // 2 else (x % m)
            if f != ["BE", e.hex(), str(x % m), str(sx)] or g != [e.hex()]:
                V.fail(c, oi, "hostToNetwork%d(%d): memory %s, back %s; big-endian is %s, htobe says %s" % (8 * kk, x, f[1], f[2:], e.hex(), g))
        elif k in ("IP", "IPP", "IPS"):
            oracle_IP(c, oi, w, ln, V)
        elif k == "N6":
            a = bytes.fromhex(w[1])
            text = " ".join(f[1:])
            try:
                back = socket.inet_pton(socket.AF_INET6, text)
            except (OSError, ValueError):
                back = None
            comp = ipaddress.IPv6Address(a).compressed
            if back != a:
                V.fail(c, oi, "inet_ntop(AF_INET6, %s) = %r does not read back through inet_pton" % (a.hex(), text))
            elif "." not in text and text != comp:
                V.fail(c, oi, "inet_ntop(AF_INET6, %s) = %r, RFC 5952 says %r" % (a.hex(), text, comp))
            elif len(text) > 45:
                V.fail(c, oi, "inet_ntop text longer than INET6_ADDRSTRLEN - 1")
            else:
                V.note("ipv6-text-ok")
        elif k == "P6":
            text = (bytes.fromhex(w[1]) if w[1] != "-" else b"").decode("latin-1")
            try:
                exp = ipaddress.IPv6Address(text).packed.hex() if "%" not in text else None
            except ValueError:
                exp = None
            got = f[1] if len(f) > 1 and f[1] != "none" else None
            V.note("ipv6-parse-accepted" if got else "ipv6-parse-rejected")
            if got is not None and exp is not None and got != exp:
                V.fail(c, oi, "inet_pton(AF_INET6, %r) = %s, RFC 4291 reading is %s" % (text, got, exp))
            elif (got is None) != (exp is None):
                V.note("ipv6-parse: glibc and Python ipaddress disagree on acceptance (both are platform readers; the model is compared with glibc)")
        elif k == "P4":
            text = bytes.fromhex(w[1]) if w[1] != "-" else b""
            try:
                a = socket.inet_pton(socket.AF_INET, text.decode("latin-1"))
                exp = ["P4", a.hex(), str(ipaddress.IPv4Address(a))]
            except (OSError, ValueError):
                exp = ["P4", "none"]
            if f != exp:
                V.fail(c, oi, "fromIpPort/toIp(%r) = %s, expected %s" % (text, f[1:], exp[1:]))


def classify(tb, cands, got_pre, got_post):
    """Signature of the two recorded findings for an EXISTING local time with several instants
    (cands: sorted (instant, segment)); None for any other wrong answer.
      last : the later instant lies after the LAST transition of the table and the code returns that
             later instant for both flags (TimeZone.cc:374-378 returns before the repeat test)
      first: the later instant lies right after the FIRST transition and the code returns that later
             instant for both flags (prior_trans stays the transition itself, TimeZone.cc:408-426)"""
    n = len(tb.trans)
    if len(cands) != 2:
        return None
    (t_early, s_early), (t_late, s_late) = cands
    if s_late != s_early + 1 or (got_pre, got_post) != (t_late, t_late):
        return None
    if s_late == n - 1:
        return "last"
    if s_late == 0:
        return "first"
    return None


def classify_skipped(tb, j, L, post, got):
    """Signature of the first-transition finding for a SKIPPED local time: the gap is that of transition 0,
    postTransition=true was requested and the code answered with record 0 (TimeZone.cc:363-367)"""
    if j == 0 and post and got == L - tb.off(0):
        return "first"
    return None


def oracle_R(c, oi, t, f, g, tb, kind, V):
    # f: R t y m d h mi s off pre post
    if tb is None or len(f) != 11:
        V.fail(c, oi, "unparsable R line %s" % f)
        return
    off, pre, post = int(f[8]), int(f[9]), int(f[10])
    fields = tuple(int(x) for x in f[2:8])
    inrange_idx = all(0 <= i < len(tb.offs) for (u, i) in tb.trans) and tb.offs
    if not inrange_idx:
        return                                   # UB in the C++ (index out of range): synthetic only, nothing to judge
    if tb.sorted_utc():
        e_off = tb.offset_at(t)
        if off != e_off:
            V.fail(c, oi, "toLocalTime(%d): offset %d, the last transition <= t selects %d" % (t, off, e_off))
            return
        if abs(t + off) < 2 * 10 ** 11 and fields != civil(t + off):
            V.fail(c, oi, "toLocalTime(%d): fields %s, expected %s" % (t, fields, civil(t + off)))
            return
    # agreement with the platform: from the first transition up to the file's last transition
    if kind == "tzfile" and g and tb.trans:
        gf, goff = tuple(int(x) for x in g[:6]), int(g[6])
        if tb.utcs[0] <= t < tb.utcs[-1]:
            V.note("glibc-compared-in-range")
            if (fields, off) != (gf, goff):
                V.fail(c, oi, "toLocalTime(%d) = %s %+d but localtime_r under TZ=:%s says %s %+d (instant inside [first, last) transition)"
                       % (t, fields, off, c.header.split()[1], gf, goff))
                return
        elif t < tb.utcs[0]:
            V.note("glibc-compared-before-first")
            if (fields, off) != (gf, goff):
                V.note("glibc-differs-before-first-transition (documented deviation, outside the property)")
        else:
            V.note("glibc-compared-after-last")
            if (fields, off) != (gf, goff):
                V.note("glibc-differs-at-or-after-last-transition (documented deviation, outside the property)")
    # round trip: the earlier / later instant of the local time, as requested
    if not tb.wf():
        if kind == "tzfile":
            V.note("roundtrip-skipped-on-ill-formed-table")
        return
    L = t + off
    cands = tb.candidates(L)
    if not any(t == x for (x, s) in cands):
        V.fail(c, oi, "specification error: %d not among the instants of its own local time" % t)
        return
    e_pre, e_post = cands[0][0], cands[-1][0]
    if (pre, post) != (e_pre, e_post):
        where = classify(tb, cands, pre, post)
        msg = ("fromLocalTime(toLocalTime(%d)) = %d (postTransition=false), %d (true); the instants with that local time are %s, "
               "so the answers must be %d and %d" % (t, pre, post, [x for (x, s) in cands], e_pre, e_post))
        if where:
            V.hit(FINDING_KEYS[where], c, oi, msg + " [ambiguity at the %s transition of the table]" % where, t)
            V.note("finding-hit:" + where)
        else:
            V.fail(c, oi, msg)
    elif len(cands) > 1:
        V.note("repeated-hour-roundtrip-ok")
    else:
        V.note("unique-roundtrip-ok")


def oracle_F(c, oi, w, f, tb, kind, V):
    if tb is None or not tb.wf() or len(f) != 2:
        return
    L = calendar.timegm(tuple(int(x) for x in w[1:7]))
    post = w[7] == "1"
    got = int(f[1])
    cands = tb.candidates(L)
    where = None
    if cands:
        exp = cands[-1][0] if post else cands[0][0]
        if got != exp and not post:
            # the only recorded wrong answer for an existing local time: the later instant where the earlier was asked
            where = classify(tb, cands, got, cands[-1][0])
    else:
        # skipped: the transition j whose gap contains L; requested side decides the offset
        j = None
        for jj in range(len(tb.trans)):
            ob, oa = tb.seg_off(jj - 1), tb.seg_off(jj)
            if tb.utcs[jj] + ob <= L < tb.utcs[jj] + oa:
                j = jj
        if j is None:
            return
        exp = L - (tb.seg_off(j) if post else tb.seg_off(j - 1))
        if got != exp:
            where = classify_skipped(tb, j, L, post, got)
    if got != exp:
        msg = "fromLocalTime(%s, postTransition=%s) = %d, expected %d (%s local time)" % (
            " ".join(w[1:7]), post, got, exp, "skipped" if not cands else "existing")
        if where:
            V.hit(FINDING_KEYS[where], c, oi, msg + " [at the %s transition of the table]" % where, L)
            V.note("finding-hit:" + where)
        else:
            V.fail(c, oi, msg)
    else:
        V.note("skipped-local-time-ok" if not cands else "F-ok")


def oracle_TZB(c, oi, hexs, f, V):
    """the table the real reader produced is the table RFC 8536 puts into the file"""
    b = bytes.fromhex(hexs) if hexs != "-" else b""
    exp = py_tzif(b)
    if c.tag in ("tzif-shipped", "tzif-encoded"):
        if exp is None:
            V.fail(c, oi, "oracle error: the independent TZif parser rejects a well-formed file")
            return
        e = ["tzif", "ok"] + exp.tab_op().split()[1:]
        if f != e:
            V.fail(c, oi, "readTimeZoneFile(%s): got %s, RFC 8536 says offsets %s transitions %s" % (
                c.header, " ".join(f[1:])[:300], e[2][:120], e[3][:120]))
        else:
            V.note("tzif-table-ok")
    elif c.tag == "tzif-leap":
        if f != ["tzif", "fail"]:
            V.fail(c, oi, "readTimeZoneFile accepted a file with leap-second records: %s" % " ".join(f)[:200])
        else:
            V.note("tzif-leap-rejected")
    else:
        # malformed input: whatever is accepted must be the table RFC 8536 reads at the place the reader looked
        if f[:2] == ["tzif", "ok"] and exp is not None and f != ["tzif", "ok"] + exp.tab_op().split()[1:]:
            V.note("tzif-mutated-accepted-differently (model==impl decides)")
        V.note("tzif-mutated-" + (f[1] if len(f) > 1 else "?"))


def oracle_TS(c, oi, us, ln, V):
    body = strip_side(ln)[3:]
    parts = body.split("|")
    plat = side(ln).split("|")
    if len(parts) != 3:
        V.fail(c, oi, "unparsable TS line")
        return
    s, r = abs(us) // 10 ** 6, abs(us) % 10 ** 6
    if us < 0:
        s, r = -s, -r
    # C: "%ld.%06ld" of the truncated quotient and remainder
    e1 = "%d.%s" % (s, ("%06d" % r) if r >= 0 else "-%05d" % -r)
    if parts[0] != e1:
        V.fail(c, oi, "toString(%d) = %r, printf gives %r" % (us, parts[0], e1))
        return
    if us >= 0:
        a, b = parts[0].split(".")
        if int(a) * 10 ** 6 + int(b) != us or len(b) != 6:
            V.fail(c, oi, "toString(%d) = %r does not read back" % (us, parts[0]))
            return
        if s >= UTC_END:
            return
        d = datetime.datetime(1970, 1, 1) + datetime.timedelta(seconds=s)
        e3 = d.strftime("%Y%m%d %H:%M:%S")
        e2 = e3 + ".%06d" % r
        if parts[1] != e2 or parts[2] != e3:
            V.fail(c, oi, "toFormattedString(%d) = %r / %r, expected %r / %r" % (us, parts[1], parts[2], e2, e3))
            return
        if plat != [e2, e3]:
            V.fail(c, oi, "strftime disagrees: %r vs %r" % (plat, [e2, e3]))


def oracle_IP(c, oi, w, ln, V):
    f = dict(x.split("=", 1) for x in strip_side(ln).split()[1:] if "=" in x)
    g = dict(x.split("=", 1) for x in side(ln).split() if "=" in x)
    scope = None
    if w[0] in ("IP", "IPS"):
        text = (bytes.fromhex(w[1]) if w[1] != "-" else b"").decode("latin-1")
        port, flag = int(w[2]), w[3] == "1"
        if w[0] == "IPS":
            scope = int(w[4])
        v6 = flag or ":" in text
        if v6:
            try:
                addr = socket.inet_pton(socket.AF_INET6, text)
            except (OSError, ValueError):
                addr = bytes(16)
            ip = socket.inet_ntop(socket.AF_INET6, addr)
            # independent of glibc where the forms coincide (no embedded IPv4 notation)
            comp = ipaddress.IPv6Address(addr).compressed
            if "." not in ip and ip != comp:
                V.fail(c, oi, "inet_ntop %r differs from RFC 5952 compression %r" % (ip, comp))
            if g.get("p6", "-") != "-" and g["p6"] != addr.hex():
                V.fail(c, oi, "inet_pton(AF_INET6) inconsistent between the driver and Python")
        else:
            try:
                addr = socket.inet_pton(socket.AF_INET, text)
            except (OSError, ValueError):
                addr = bytes(4)
            ip = str(ipaddress.IPv4Address(addr))
    else:
        port, lo, v6 = int(w[1]), w[2] == "1", w[3] == "1"
        addr = (bytes(15) + b"\x01" if lo else bytes(16)) if v6 else (bytes([127, 0, 0, 1]) if lo else bytes(4))
        ip = ("::1" if lo else "::") if v6 else ("127.0.0.1" if lo else "0.0.0.0")
    exp = {"fam": "6" if v6 else "4", "addr": addr.hex(), "port": struct.pack(">H", port).hex(), "toIp": ip,
           "toIpPort": ("[%s]:%d" % (ip, port)) if v6 else "%s:%d" % (ip, port), "port()": str(port)}
    if scope is not None:
        exp["scope"] = str(scope) if v6 else "-"
    if f != exp:
        diff = [k for k in exp if f.get(k) != exp[k]]
        V.fail(c, oi, "InetAddress(%s): %s; expected %s" % (" ".join(w[1:4]), {k: f.get(k) for k in diff}, {k: exp[k] for k in diff}))


# ------------------------------------------------------------------ counterexample computed inside Coq
CEX_SCRIPT = """From Coq Require Import ZArith.
From Muduo Require Import C20_Cex.
Open Scope Z_scope.
Eval vm_compute in cex_jdn.
Eval vm_compute in cex_ymd.
"""


def coq_counterexample():
    """When a calendar sweep lemma no longer checks: evaluate C20_Cex.cex_jdn / cex_ymd (the first failing
    day of sweep A / sweep B on the functions regenerated from Date.cc / Date.h) with vm_compute INSIDE Coq.
    Returns ({'jdn': [j, y, m, d, back] | None, 'ymd': [y, m, d, expected_j, j, y2, m2, d2, wd, expected_wd] | None}, log)."""
    d = os.path.join(vlib.WORK, "C20_cex")
    os.makedirs(d, exist_ok=True)
    with open(os.path.join(d, "cexrun.v"), "w") as f:
        f.write(CEX_SCRIPT)
    if not os.path.exists(os.path.join(vlib.COQ, "C20_Cex.vo")):
        return {"jdn": None, "ymd": None}, "C20_Cex.vo was not built"
    with vlib.Lock("coq"):
        rc, out = vlib.sh(["coqc", "-Q", vlib.COQ, "Muduo", "cexrun.v"], cwd=d, timeout=900)
    res = {"jdn": None, "ymd": None}
    blocks = re.split(r"\n\s*=\s", "\n" + out)[1:]
    for name, blk in zip(("jdn", "ymd"), blocks):
        val = blk.split("\n     :")[0]
        if val.strip().startswith("Some"):
            res[name] = [int(x) for x in re.findall(r"-?\d+", val)]
    return res, out[-1500:]


def cex_cases(cex):
    """replay cases for the C++ built from the days Coq computed"""
    cases = []
    if cex.get("jdn"):
        j = cex["jdn"][0]
        cases.append((vlib.Case("coqcex_jdn", "cal", ["D %d %d" % (j, j)], "calendar-exhaustive"),
                      "sweep A (by day number): first failing day computed inside Coq is j=%d: the generated getYearMonthDay gives %d-%d-%d, "
                      "the generated getJulianDayNumber maps that back to %d" % tuple(cex["jdn"][:5])))
    if cex.get("ymd"):
        y, m, dd, ej, j, y2, m2, d2, wd, ewd = cex["ymd"][:10]
        ops = ["D %d %d" % (ej, ej)]
        if JFIRST <= j <= JLAST and j != ej:
            ops.append("D %d %d" % (j, j))
        cases.append((vlib.Case("coqcex_ymd", "cal", ops, "calendar-exhaustive"),
                      "sweep B (by date): first failing date computed inside Coq is %d-%02d-%02d: proleptic Gregorian day number %d, the generated "
                      "getJulianDayNumber gives %d, which the generated getYearMonthDay maps to %d-%d-%d; generated weekDay %d, expected %d"
                      % (y, m, dd, ej, j, y2, m2, d2, wd, ewd)))
        cases.append((vlib.Case("coqcex_ymd_utc", "utc", ["V %d %d %d 0 0 0" % (y, m, dd)], "utc"),
                      "the same date through TimeZone::fromUtcTime (%d-%02d-%02d 00:00:00)" % (y, m, dd)))
    return cases


# ------------------------------------------------------------------ running
def load_case_file(path, tag="replay"):
    cases, cid, header, ops = [], None, "", []
    for line in open(path):
        line = line.rstrip("\n")
        if not line or line.startswith("#"):
            continue
        if line.startswith("---"):
            break
        if line.startswith("case "):
            t = line.split()
            cid, header, ops = t[1], " ".join(t[2:]), []
        elif line == "end":
            cases.append(vlib.Case(cid, header, ops, tag))
        else:
            ops.append(line)
    return cases


def dump_tables(impl, files):
    cases = [vlib.Case("d%d" % i, "dump " + p, ["DUMP"], "dump") for i, p in enumerate(files)]
    outs, crashes = vlib.run_batch_parallel(impl, cases, timeout=600)
    tables, failed = {}, []
    for i, p in enumerate(files):
        ls = outs.get("d%d" % i)
        if not ls or len(ls) < 2 or not ls[1].startswith("dump ") or ls[1] == "dump invalid":
            failed.append(p)
            continue
        w = ls[1].split()
        tables[p] = Table.parse(w[1], w[2], w[3] if len(w) > 3 else "-")
    return tables, failed


def single_op_case(c, oi):
    """smallest case reproducing op oi: the table line (if any) + that op"""
    ops = []
    for o in c.ops[:oi]:
        if o.startswith("TAB"):
            ops = [o]
    op = c.ops[oi]
    return vlib.Case(c.cid + "_min", c.header, ops + [op], c.tag)


def run(chk, replay=None):
    tier, rng = chk.tier, chk.rng
    pr = chk.prove(extra_targets=["C20_Cex.vo"])
    model = vlib.build_model(PROP)
    impl = vlib.build_driver("C20_driver", ["C20_driver.cc"], variant="asan", extra_flags=DRIVER_FLAGS)
    t_gen = time.time()
    tables = {}
    ill_formed, unreadable = [], []
    cases = []
    if replay:
        cases = load_case_file(replay)
    else:
        for f in sorted(glob.glob(os.path.join(vlib.ROOT, "corpus", PROP, "*.case"))):
            for c in load_case_file(f, "corpus"):
                c.cid = "corpus_" + os.path.basename(f)[:-5] + "_" + c.cid
                cases.append(c)
        quick = tier == "quick"
        cases += gen_calendar(quick)
        cases += gen_utc(rng, 20000 if quick else 400000)
        files = tzif_files()
        tables, unreadable = dump_tables(impl, files)
        chk.cov["zone_files_total"] = len(files)
        ill_formed = sorted(p for p, tb in tables.items() if not tb.wf())
        always = ["America/New_York", "Europe/London", "Europe/Dublin", "Australia/Lord_Howe", "Africa/Casablanca",
                  "Pacific/Apia", "Pacific/Kiritimati", "Asia/Tehran", "Asia/Kathmandu", "Africa/Monrovia",
                  "Europe/Amsterdam", "Antarctica/Troll", "America/Sao_Paulo", "Asia/Gaza", "America/Godthab", "UTC",
                  "Asia/Shanghai", "America/St_Johns", "Pacific/Chatham", "Europe/Moscow"]
        chosen = [p for p in files if p in tables]
        if quick:
            keep = set(os.path.join(ZONEROOT, a) for a in always) | set(ill_formed)
            rest = [p for p in chosen if p not in keep]
            rng.shuffle(rest)
            chosen = [p for p in chosen if p in keep] + rest[:45]
        for i, p in enumerate(sorted(chosen)):
            cases.append(gen_tzfile_case("tz%d" % i, p, tables[p], rng, 60 if quick else 3000))
        chk.cov["zone_files_probed"] = len(chosen)
        chk.cov["zone_transitions_probed"] = sum(len([1 for (u, i) in tables[p].trans if abs(u) <= 3 * 10 ** 10]) for p in chosen)
        chk.cov["zone_probe_offsets_s"] = sorted(set(DELTAS + [-d for d in DELTAS]))
        chk.cov["days_compared_with_gmtime_timegm"] = JLAST - JFIRST + 1
        cases += gen_tzif(files, rng, quick)
        cases += gen_syn_tables(rng, 400 if quick else 10000)
        cases += gen_text(rng, 3000 if quick else 60000)
        cases += gen_inet(rng, 300 if quick else 5000, 60 if quick else 1200)

    t1 = time.time()
    model_out, mcrashes = vlib.run_batch_parallel(model, cases, timeout=3000,
                                                  pre=["bash", "-c", 'ulimit -s unlimited 2>/dev/null; exec "$0"'])
    # inputs the model classifies as outside the C++ semantics (signed overflow, negative VLA size in the TZif
    # reader) are not handed to the real code: running undefined behaviour proves nothing either way
    undefined_ops = 0
    for c in cases:
        lm = model_out.get(c.cid)
        if lm and len(lm) == len(c.ops) + 2 and any(x == "tzif undefined" for x in lm):
            keep = [i for i, x in enumerate(lm[1:-1]) if x != "tzif undefined"]
            undefined_ops += len(c.ops) - len(keep)
            c.ops = [c.ops[i] for i in keep]
            model_out[c.cid] = [lm[0]] + [lm[1 + i] for i in keep] + [lm[-1]]
    t2 = time.time()
    impl_out, crashes = vlib.run_batch_parallel(impl, cases, timeout=3000)
    t3 = time.time()

    V = Verdicts()
    corr_bad = []
    wf_bad = []
    sigs = set()
    nops = 0
    for c in cases:
        nops += len(c.ops)
        if c.cid in crashes:
            rc, se, partial = crashes[c.cid]
            V.fail(c, max(0, len(partial) - 1), "implementation crashed (rc=%s): %s" % (rc, se[-600:]))
            continue
        li, lm = impl_out.get(c.cid), model_out.get(c.cid)
        if li is None:
            V.fail(c, 0, "no implementation output")
            continue
        oracle_case(c, li, V, tables)
        a = [strip_side(x) for x in li]
        b = [strip_side(x) for x in (lm or [])]
        if a != b:
            idx = next((i for i in range(min(len(a), len(b))) if a[i] != b[i]), min(len(a), len(b)))
            corr_bad.append((c, idx, "impl %r vs model %r" % (a[idx] if idx < len(a) else None, b[idx] if idx < len(b) else None)))
        # model's well-formedness verdict vs the Python predicate
        for x in (lm or []):
            if x.startswith("tab ") and " # " in x:
                m = re.search(r"wf=(\d) su=(\d)", x)
                tbl = next((Table.parse(*o.split()[1:3]) for o in c.ops if o.startswith("TAB")), None)
                if m and tbl and (int(m.group(1)) != int(tbl.wf()) or int(m.group(2)) != int(tbl.sorted_utc())):
                    wf_bad.append((c, 0, "C20_Model.wf says %s, the Python predicate says %s" % (m.group(0), (tbl.wf(), tbl.sorted_utc()))))
        for l in a[1:-1]:
            w = l.split()
            if w[0] == "R" and len(w) == 11:
                sigs.add(("R", c.tag, w[8], int(w[9]) == int(w[1]), int(w[10]) == int(w[1])))
            elif w[0] == "D":
                sigs.add(("D", w[2], w[3]))
            elif w[0] == "DI":
                sigs.add(("DI", w[2][:7]))
            elif w[0] == "TA":
                sigs.add(("TA", l[:48]))
            elif w[0] == "U":
                sigs.add(("U", w[2], w[3]))
            elif w[0] in ("IP", "IPP", "IPS", "P4", "P6", "N6", "F", "BE"):
                sigs.add((w[0], l[:40]))
            elif w[0].startswith("TS"):
                sigs.add(("TS", len(l)))
    t4 = time.time()
    chk.cov["evaluations"] = sum(max(0, len(v) - 2) for v in impl_out.values())
    chk.cov["distinct_nontrivial"] = len(sigs)
    chk.cov["rule"] = ("every day 1900-01-01..2500-12-31 (exhaustive) + UTC instants + every transition instant +/-{0,1,2,3599,3600,3601}s "
                       "and dense samples per zone file + skipped local times + random synthetic tables + timestamp text + byte order + "
                       "IPv4/IPv6 literals; distinct = (year, month) of a day / (offset, which side round-trips) of a zone probe / "
                       "distinct address line; all counted cases reach the conversion code (there is no trivial path)")
    chk.cov["exhaustive_part"] = "all %d days of 1900-01-01..2500-12-31 through Date(j).yearMonthDay(), weekDay(), Date(y,m,d)" % (JLAST - JFIRST + 1)
    chk.cov["oracle_counters"] = V.info
    chk.cov["zone_files_ill_formed"] = ill_formed
    chk.cov["zone_files_unreadable_by_muduo"] = unreadable
    chk.cov["phase_s"] = {"generate": round(t1 - t_gen, 1), "model": round(t2 - t1, 1), "impl": round(t3 - t2, 1), "oracle": round(t4 - t3, 1)}
    chk.cov["tzif_inputs_outside_cxx_semantics_not_run"] = undefined_ops
    chk.cov["traces_validated_against_impl"] = len(cases) - len(corr_bad)
    for c in cases:
        if c.tag in ("tzfile", "inet", "tzsyn-wf") and len(chk.cov["samples"]) < 5 and c.cid in impl_out:
            chk.sample({"case": c.text().split("\n")[:4], "impl": impl_out[c.cid][1:4]}, limit=5)
    gen_fallbacks = [p for p in pr["problems"] if "FALLBACK" in p or "MISSING" in p]
    chk.add_obligation("translator: every piece of Date.cc / TimeZone.cc arithmetic regenerated (no FALLBACK to a hand-written twin)", not gen_fallbacks)
    chk.add_obligation("correspondence: extracted C20 model == real muduo functions on every case (line by line)", not corr_bad)
    chk.add_obligation("well-formedness predicate: C20_Model.wf == independent Python predicate on every table", not wf_bad)
    chk.add_obligation("oracle: calendar/UTC vs proleptic Gregorian + gmtime_r/timegm; zones vs localtime_r inside [first,last) transition; "
                       "round trips; text vs printf/strftime; addresses vs inet_pton/inet_ntop", not V.bad)
    chk.add_obligation("every shipped leap-second-free zone file is readable and its table is well-formed", not ill_formed and not unreadable)
    chk.trusted("translator lib/gen_C20.py + lib/cxxast.py (clang 14 JSON AST); class summary used by it: Date(int) stores, Date(y,m,d) = "
                "getJulianDayNumber, Date::yearMonthDay() = getYearMonthDay(julianDayNumber_), julianDayNumber() returns it",
                "extraction: ExtrOcamlBasic only; extract/util.ml + extract/C20_driver.ml (OCaml 4.13.1)",
                "harness/C20_driver.cc (#include of TimeZone.cc to reach TimeZone::Data; '#define private public')",
                "glibc gmtime_r/timegm/localtime_r/strftime/inet_pton/inet_ntop/htobe as the platform; Python datetime/calendar/ipaddress as the "
                "independent statement of the proleptic Gregorian calendar, POSIX seconds and RFC 5952",
                "inet_ntop(AF_INET6)/inet_pton(AF_INET6) are parameters of the model (platform functions), supplied per case")

    known = {k["key"]: k for k in vlib.known_findings() if k["property"] == PROP}

    def replay_text(c, msg):
        return "# %s\n" % msg.replace("\n", "\n# ") + c.text()

    def confirm(c):
        """re-run one small case on the implementation: does the oracle still fail?"""
        io, cr = vlib.run_batch(impl, [c], timeout=300)
        if c.cid in cr:
            return True
        v2 = Verdicts()
        oracle_case(c, io.get(c.cid, []), v2, tables)
        return bool(v2.bad or v2.known)

    for key, (c, oi, msg, _score) in sorted(V.known.items()):
        small = single_op_case(c, oi)
        if not confirm(small):
            small = c
        if key in known:
            chk.known(key, "key=%s %s" % (key, known[key]["text"]))
        else:
            p = chk.write_replay("finding_%s.case" % key, replay_text(small, msg))
            chk.violation(p, "C20 finding (not yet listed in KNOWN_FINDINGS.txt, key=%s): %s" % (key, msg))
    # An assert of SocketsOps.cc firing (or the buffer obligation C20_inet_buffers breaking) hides what a release
    # build would print: run the address cases once more against an NDEBUG build and let the oracle read the text.
    inet_crash = [c for c in cases if c.cid in crashes and c.tag in ("inet", "corpus") and any(o.startswith(("IP ", "IPS ", "IPP ")) for o in c.ops)]
    if inet_crash or (not pr["ok"] and "inet_buffer" in str(pr["broken"])):
        try:
            impl_nd = vlib.build_driver("C20_driver_ndebug", ["C20_driver.cc"], variant="ndebug", extra_flags=DRIVER_FLAGS)
            inet_cases = [c for c in cases if any(o.startswith(("IP ", "IPS ", "IPP ")) for o in c.ops)]
            nd_out, nd_crash = vlib.run_batch_parallel(impl_nd, inet_cases, timeout=1200)
            Vn = Verdicts()
            for c in inet_cases:
                if c.cid in nd_out:
                    oracle_case(c, nd_out[c.cid], Vn, tables)
            chk.cov["ndebug_address_probes_failing"] = len(Vn.bad)
            for (c, oi, msg) in Vn.bad[:1]:
                small = single_op_case(c, oi)
                pth = chk.write_replay("ndebug_%s.case" % small.cid, replay_text(small, "NDEBUG build (asserts off): " + msg))
                chk.violation(pth, "C20 fails on the implementation built with NDEBUG (the assert-enabled build aborts on the same input): %s (%d failing probes)"
                              % (msg, len(Vn.bad)))
        except Exception as e:  # noqa
            chk.notes.append("NDEBUG re-run of the address cases not possible: %s" % str(e)[:300])
    coq_confirmed = False
    if not pr["ok"] and not replay:
        cex, cexlog = coq_counterexample()
        chk.cov["coq_counterexample"] = cex
        for (cc, text) in cex_cases(cex):
            io, cr = vlib.run_batch(impl, [cc], timeout=300)
            v2 = Verdicts()
            if cc.cid not in cr:
                oracle_case(cc, io.get(cc.cid, []), v2, tables)
            if cc.cid in cr or v2.bad:
                coq_confirmed = True
                why = v2.bad[0][2] if v2.bad else "the implementation crashed on it"
                pth = chk.write_replay("%s.case" % cc.cid, replay_text(cc, "counterexample computed inside Coq (vm_compute of C20_Cex on the functions "
                                       "regenerated from Date.cc / Date.h) -- " + text + "\nreplayed on the C++: " + why))
                chk.violation(pth, "C20: a calendar sweep lemma no longer checks (%s); %s; replayed on the C++: %s" % (pr["broken"], text, why))
                break
    if V.bad:
        seen_kinds = set()
        # the most direct witnesses first: a failing day, then UTC instants, then the rest
        order = {"calendar-exhaustive": 0, "utc": 1, "timestamp-text": 2, "byte-order": 2, "inet": 2, "tzfile": 3}
        V.bad.sort(key=lambda x: order.get(x[0].tag, 4))
        for (c, oi, msg) in V.bad:
            kind = (c.tag.split("-")[0], re.split(r"[ (:]", msg)[0])
            if kind in seen_kinds or len(seen_kinds) >= 4:
                continue
            seen_kinds.add(kind)
            small = single_op_case(c, oi) if oi < len(c.ops) else c
            if small.ops and small.ops[-1].startswith("D "):
                m = re.match(r"day (\d+)", msg)
                if m:
                    small = vlib.Case(c.cid + "_min", c.header, ["D %s %s" % (m.group(1), m.group(1))], c.tag)
            if not confirm(small):
                small = c
            p = chk.write_replay("oracle_%s.case" % small.cid, replay_text(small, msg))
            what = "C20 fails on the implementation: %s (%d failing probes in total)" % (msg, len(V.bad))
            if not pr["ok"]:
                what += "; proof obligations broken as well: %s" % (pr["broken"],)
            chk.violation(p, what)
    elif (corr_bad or wf_bad or not pr["ok"]) and not coq_confirmed:
        what = []
        body = ""
        if not pr["ok"]:
            what.append("proof obligation(s) no longer check: %s %s" % (pr["broken"], pr["problems"]))
        if corr_bad:
            c, idx, msg = corr_bad[0]
            what.append("correspondence C20_Model vs muduo broken at line %d of the case below (%s); the oracle holds on all %d cases"
                        % (idx, msg, len(cases)))
            body = c.text()
        if wf_bad:
            what.append(wf_bad[0][2])
            body = body or wf_bad[0][0].text()
        p = chk.write_replay("broken_obligation.txt", "\n".join("# " + w for w in what) + "\n" + body +
                             ("\n--- coq log tail ---\n" + pr["log"][-3000:] if not pr["ok"] else ""))
        chk.violation(p, "; ".join(what), no_input=True)
    if gen_fallbacks and not chk.violations:
        # fail closed: a piece of the source the translator no longer understands is an undischarged obligation
        pth = chk.write_replay("untranslatable.txt", "\n".join("# " + g for g in gen_fallbacks) +
                               "\n# the translator (lib/gen_C20.py) fell back to its committed twin for the pieces above: the theorems are then about the twin,\n"
                               "# not about the current source; model == implementation and the oracle hold on all %d cases\n" % len(cases))
        chk.violation(pth, "C20: the source changed in a way the translator does not follow: %s" % "; ".join(gen_fallbacks)[:600], no_input=True)
    if (ill_formed or unreadable) and not replay:
        chk.notes.append("zone files whose table is not well-formed / not readable: %s / %s (their instants were still compared with glibc)"
                         % (ill_formed, unreadable))
    return chk.finish(level="proof", assumptions=[
        "gmtime_r/timegm implement the POSIX seconds-since-epoch formula (3.4); checked on every day and on the sampled instants",
        "inet_ntop/inet_pton/printf/strftime are platform functions; the model states what muduo asks of them",
        "the model is tied to the code by the translator (calendar/UTC arithmetic) and by differential execution (lookup, text, addresses)"])
