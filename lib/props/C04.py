"""C04: tasks given to a loop run exactly once, in order, on its thread, without delay.
proof (Properties_C04.v over C04_Model.v = LoopModel, with the wake-up test regenerated from the
current EventLoop.cc) + TRACE VALIDATION: the real EventLoop with 0-4 submitter threads, I/O
callbacks and nested submissions runs under the controlled scheduler (harness/sched.cc +
-finstrument-functions schedule points, no hook in /repo), every recorded step must be accepted by
the extracted model; independently the property text is evaluated on the implementation's event
log (count / thread / order per task, synchronous runInLoop, "all threads blocked while the queue
is non-empty")."""
import os, re, sys, glob, time
import vlib, schedlib, looplib

PROP = "C04"


def small_configs(tier):
    """(name, prefix, later, threads, scripts) explored systematically, both pollers.
    later = code of the loop thread between successive calls of loop() (re-entry)."""
    cfgs = [
        ("two_submitters", [], [], [["q 1"], ["q 2"]], {}),
        ("nested_in_functor", [], [], [["q 1", "quit"]], {1: ["q 2"]}),
        ("callback_and_inline", [], [], [["r 1"], ["ev 9"]], {9: ["q 2"], 1: ["r 3", "q 4"]}),
        ("prefix_inline_quit", ["r 5"], [], [["q 1"], ["quit"]], {5: ["r 6"]}),
        ("queue_during_drain", [], [], [["q 1", "q 2"], ["q 3"]], {1: ["q 4"], 4: ["q 5"]}),
        ("queue_before_loop", ["q 1"], [], [["q 2"]], {}),
        ("reenter_after_quit", [], [["q 7", "r 8"]], [["quit", "q 3", "quit"]], {}),
        # timers (ta k = runAfter(0, callback k); the timerfd is emulated, no real time passes): a timer added by a
        # foreign thread / a task / before loop(), whose callback queues, runs inline and adds another timer
        ("timer_callback_submits", [], [], [["ta 501"], ["q 2"]], {501: ["q 3", "r 4"]}),
        ("timer_from_task_and_prefix", ["ta 502"], [], [["q 1"]], {1: ["ta 503"], 502: ["q 5"], 503: ["q 6", "r 7"]}),
    ]
    if tier != "quick":
        cfgs += [
            ("three_submitters", [], [], [["q 1", "r 2"], ["q 3"], ["ev 9", "q 4"]], {9: ["r 5"], 3: ["q 6"]}),
            ("quit_in_functor", [], [], [["q 1", "q 2"], ["q 3"]], {1: ["quit"], 3: ["q 4"]}),
            ("quit_in_functor_reenter", [], [["q 5"]], [["q 1"], ["quit"]], {1: ["quit"]}),
        ]
    return cfgs


def gen_random_case(rng, cid, allow_pre_queue):
    nthr = rng.randint(1, 4)
    ntasks = rng.randint(1, 6)
    ids = list(range(1, 40))
    rng.shuffle(ids)
    fresh = iter(ids)
    threads = [[] for _ in range(nthr)]
    scripts = {}
    top = []
    for _ in range(ntasks):
        t = next(fresh)
        top.append(t)
        threads[rng.randrange(nthr)].append("%s %d" % (rng.choice(["q", "q", "r"]), t))
    # events with callbacks: I/O events (ev k) or -- never both in one program, so that at most one event source is
    # ready at a time and the dispatch order does not depend on the poller -- one timer (ta k = runAfter(0, cb k))
    timer = rng.random() < 0.2
    if timer:
        k = next(fresh) + 500
        where = rng.random()
        if where < 0.6:
            threads[rng.randrange(nthr)].append("ta %d" % k)
        else:
            # added from inside a task
            t = next(fresh)
            threads[rng.randrange(nthr)].append("q %d" % t)
            scripts[t] = ["ta %d" % k]
        scripts[k] = []
        top.append(k)
    for _ in range(0 if timer else rng.choice([0, 0, 1, 2])):
        k = next(fresh) + 100
        threads[rng.randrange(nthr)].append("ev %d" % k)
        scripts[k] = []
        top.append(k)
    # nested submissions (depth <= 2)
    for parent in list(top):
        if rng.random() < 0.5:
            sub = []
            for _ in range(rng.randint(1, 2)):
                t = next(fresh)
                sub.append("%s %d" % (rng.choice(["q", "q", "r"]), t))
                if rng.random() < 0.3:
                    t2 = next(fresh)
                    scripts[t] = ["%s %d" % (rng.choice(["q", "r"]), t2)]
            if rng.random() < 0.1:
                sub.append("quit")
            scripts[parent] = sub
    for th in threads:
        rng.shuffle(th)
    if rng.random() < 0.5:
        threads[rng.randrange(nthr)].append("quit")
    prefix = []
    r = rng.random()
    if r < 0.25:
        t = next(fresh)
        prefix.append("r %d" % t)
        if rng.random() < 0.5:
            scripts[t] = ["r %d" % next(fresh)]
    elif r < 0.40 and allow_pre_queue:
        prefix.append("q %d" % next(fresh))
    # re-entry: loop() is called again after it returned (needs quits to get there)
    later = []
    if rng.random() < 0.2:
        for _ in range(rng.randint(1, 2)):
            seg = []
            for _ in range(rng.randint(0, 2)):
                seg.append("%s %d" % (rng.choice(["q", "r"]), next(fresh)))
            later.append(seg)
            threads[rng.randrange(nthr)].append("quit")
    return looplib.mkcase(cid, "loop", schedlib.random_source(rng, pspur=0), prefix=prefix, threads=threads, scripts=scripts,
                          poller=rng.choice(["epoll", "poll"]), pts=rng.choice([1, 1, 1, 0]), tag="random", later=later)


def nontrivial(run):
    """A run is non-trivial when the schedule preempts at least once or a task was submitted from
    inside the loop thread (nested / callback) or the loop really blocked in poll before work came."""
    nested = any(e[1] == "T0" and e[2] == "call" for e in run.events if len(e) > 2)
    return run.preemptions() > 0 or nested


def realised(run):
    return run.schedule if run.schedule is not None else [c[1] for c in run.choices]


def run(chk, replay=None):
    tier, rng = chk.tier, chk.rng
    pr = chk.prove()
    has_f2_coq = looplib.gen_fact(pr["log"], 404)     # computed inside Coq from the generated wake-up test
    model = vlib.build_model(PROP)
    impl = looplib.build_impl()
    R = looplib.Runner(impl, model)
    t_start = time.time()
    all_cases, all_runs = [], {}
    stats = {"systematic_runs": 0, "random_runs": 0, "stuck_reports": 0, "configs": {}}

    def absorb(cases, runs):
        for c in cases:
            all_cases.append(c)
            all_runs[c.cid] = runs[c.cid]

    if replay:
        cases = schedlib.load_cases(replay)
        absorb(cases, R.run_impl(cases))
    else:
        corpus = looplib.load_corpus(PROP)
        if corpus:
            absorb(corpus, R.run_impl(corpus))
        bound = 3 if tier == "quick" else 4
        per_cfg = 800 if tier == "quick" else 15000
        cfgs = []
        for (name, prefix, later, threads, scripts) in small_configs(tier):
            for poller in ("epoll", "poll"):
                cfgs.append((name + "_" + poller, prefix, later, threads, scripts, poller))
        enums = {c[0]: schedlib.Enumerator(bound, per_cfg) for c in cfgs}
        counter = 0
        while any(e.active() for e in enums.values()):
            cases, owners = [], []
            for (name, prefix, later, threads, scripts, poller) in cfgs:
                e = enums[name]
                if not e.active():
                    continue
                b = e.next_batch(256)
                cs = []
                for (p, _) in b:
                    counter += 1
                    cs.append(looplib.mkcase("%s_%d" % (name, counter), "loop", schedlib.list_source(p), prefix=prefix,
                                             threads=threads, scripts=scripts, poller=poller, tag="systematic", later=later))
                cases += cs
                owners.append((e, b, cs))
            runs = R.run_impl(cases)
            absorb(cases, runs)
            for (e, b, cs) in owners:
                for c in cs:   # the driver exits at STUCK without a schedule line: rebuild it from the choices
                    if runs[c.cid].schedule is None:
                        runs[c.cid].schedule = [ch[1] for ch in runs[c.cid].choices]
                e.feed(b, [runs[c.cid] for c in cs])
        for (name, prefix, later, threads, scripts, poller) in cfgs:
            e = enums[name]
            stats["systematic_runs"] += e.nruns
            stats["configs"][name] = {"runs": e.nruns, "exhaustive_within_bound": e.exhaustive(), "preemption_bound": bound}
        nrand = 3000 if tier == "quick" else 120000
        cases = [gen_random_case(rng, "r%d" % i, allow_pre_queue=True) for i in range(nrand)]
        for i in range(0, len(cases), 20000):
            chunk = cases[i:i + 20000]
            absorb(chunk, R.run_impl(chunk))
        stats["random_runs"] = nrand
    t_impl = time.time()

    plain_bad, finding_bad = [], []
    sigs = set()
    for c in all_cases:
        r = all_runs[c.cid]
        chk.cov["evaluations"] += 1
        if r.stuck is not None:
            stats["stuck_reports"] += 1
        for (key, msg) in looplib.oracle_tasks(c, r):
            (finding_bad if key else plain_bad).append((c, key, msg))
        if nontrivial(r):
            sigs.add((c.header.split(" sched=")[0], tuple(c.ops), tuple(realised(r))))
        if len(chk.cov["samples"]) < 4 and c.tag == "random" and nontrivial(r) and len(r.trace) < 70:
            chk.sample({"case": c.text().split("\n")[:-1], "events": [" ".join(e) for e in r.events][:14],
                        "schedule": realised(r), "stuck": r.stuck})
    t_or = time.time()
    verdicts = R.run_model(all_cases, all_runs)
    corr_bad = [(c, verdicts[c.cid]) for c in all_cases if not verdicts[c.cid].startswith("accepted")]
    steps = sum(int(v.split()[1]) for v in verdicts.values() if v.startswith("accepted"))
    t_model = time.time()

    # the generated fact and the implementation must agree on F-2
    f2_impl = any(key == looplib.F2_KEY for (_, key, _) in finding_bad)
    agree = True
    if not replay and has_f2_coq is not None:
        agree = (has_f2_coq == f2_impl)

    chk.cov["distinct_nontrivial"] = len(sigs)
    chk.cov["rule"] = ("corpus (F-2 witness) + systematic schedule enumeration (iterative context bounding: every schedule with <= N "
                       "preemptions of each small configuration, both pollers, within a per-configuration budget) + random programs "
                       "(1-4 submitter threads, <= 6 top-level tasks, I/O callbacks, timer callbacks (runAfter(0) from threads and tasks, "
                       "emulated timerfd), nested queueInLoop/runInLoop/quit up to depth 3, code before loop() and between calls of loop()) under seeded random schedules; schedule points: every lock / poll / thread start plus "
                       "the instrumentation points loop_entry, queue_mid, quit_mid; non-trivial = the schedule preempts at least "
                       "once or a task is submitted from the loop thread itself; distinct by (configuration, programs, realised "
                       "choice list)")
    chk.cov["schedule_stats"] = stats
    chk.cov["model_steps_validated"] = steps
    chk.cov["traces_validated_against_impl"] = len(all_cases) - len(corr_bad)
    chk.cov["generated_shape"] = {"current_tree_has_F2 (computed in Coq from Gen_C04.gen_shape)": has_f2_coq,
                                  "F-2 observed on the implementation": f2_impl}
    chk.cov["phase_s"] = {"impl": round(t_impl - t_start, 1), "oracle": round(t_or - t_impl, 1), "model": round(t_model - t_or, 1)}
    chk.add_obligation("trace validation: every step of the real EventLoop under the controlled scheduler is accepted by the extracted "
                       "C04_Model.step (generated shape) with the same observers and the same order of functor starts", not corr_bad)
    chk.add_obligation("oracle: count / thread / order per task, synchronous runInLoop, never fully blocked with a non-empty queue "
                       "(apart from recorded findings)", not plain_bad)
    chk.add_obligation("generated wake-up test and implementation agree on the pre-loop case (F-2 present in both or in neither)", agree)
    chk.trusted("extraction: ExtrOcamlBasic only; extract/util.ml + extract/C04_driver.ml (maps trace lines to model labels)",
                "harness/sched.cc (cooperative scheduler; -Wl,--wrap interposition of pthread_mutex_*/cond_*/create/join and "
                "read/write/poll/epoll_wait), harness/C04_driver.cc (#define private public for observers; __cyg_profile_func_enter/"
                "exit schedule points from compiling the unchanged EventLoop.cc/EventLoopThread.cc with -finstrument-functions)",
                "translator lib/gen_C04.py (clang 14 JSON AST): guard of wakeup() in queueInLoop/quit, quit_ = false in loop()",
                "sequential consistency; code between two schedule points is atomic; eventfd/epoll/poll are the kernel's",
                "std::vector / std::function (not modelled)")

    def fails_with(c, pred):
        def f(sched):
            cc = vlib.Case("s", schedlib.set_source(c.header, schedlib.list_source(sched)), c.ops)
            rr = R.run_impl([cc], jobs=1)["s"]
            return pred(cc, rr)
        return f

    def shrink_and_write(c, msg, want_key, name):
        r = all_runs[c.cid]
        pred = lambda cc, rr: any(k == want_key for (k, _) in looplib.oracle_tasks(cc, rr))
        sched = schedlib.shrink_schedule(realised(r), fails_with(c, pred))
        small = vlib.Case(c.cid, schedlib.set_source(c.header, schedlib.list_source(sched)), c.ops)
        rr = R.run_impl([small], jobs=1)[small.cid]
        msgs = [m for (k, m) in looplib.oracle_tasks(small, rr) if k == want_key]
        msg2 = msgs[0] if msgs else msg
        p = schedlib.write_replay(chk, name, "C04 violated on the implementation: %s\n%s" % (msg2, "\n".join(rr.lines[-40:])),
                                  small.text())
        return p, msg2

    known = {k["key"]: k for k in vlib.known_findings() if k["property"] == PROP}
    if plain_bad:
        c, key, msg = min(plain_bad, key=lambda x: (len(all_runs[x[0].cid].trace), x[0].cid))
        p, msg2 = shrink_and_write(c, msg, None, "oracle_%s.case" % c.cid)
        chk.violation(p, "C04 fails on the implementation: %s (%d of %d runs fail)" % (msg2, len(plain_bad), len(all_cases)))
    if finding_bad:
        by_key = {}
        for (c, key, msg) in finding_bad:
            by_key.setdefault(key, []).append((c, msg))
        for key, lst in sorted(by_key.items()):
            c, msg = min(lst, key=lambda x: (len(all_runs[x[0].cid].trace), x[0].cid))
            if key in known:
                chk.known(key, "F-2 %s [%d runs; witness %s]" % (known[key]["text"], len(lst), c.cid))
            else:
                p, msg2 = shrink_and_write(c, msg, key, "finding_%s.case" % key)
                coq = ("Coq: C04_no_stall_current_tree takes its refutation branch for the generated wake-up test" if has_f2_coq else
                       "the generated wake-up test itself still wakes before loop() (C04_no_stall_current_tree: theorem branch): the "
                       "wake-up is lost elsewhere")
                chk.violation(p, "C04 fails on the implementation (signature of finding F-2, key=%s, see findings/C04.md): %s (%d of %d runs); %s"
                              % (key, msg2, len(lst), len(all_cases), coq))
    if (corr_bad or not pr["ok"] or not agree) and not plain_bad:
        what, body = [], ""
        if not pr["ok"]:
            what.append("proof obligation(s) no longer check: %s %s" % (pr["broken"], pr["problems"]))
        if not agree:
            what.append("generated fact (current_tree_has_F2=%s) and implementation (F-2 observed=%s) disagree" % (has_f2_coq, f2_impl))
        if corr_bad:
            c, v = min(corr_bad, key=lambda cv: (len(all_runs[cv[0].cid].trace), cv[0].cid))
            r = all_runs[c.cid]

            def pred(cc, rr):
                return not R.run_model([cc], {cc.cid: rr})[cc.cid].startswith("accepted")
            sched = schedlib.shrink_schedule(realised(r), fails_with(c, pred), max_tests=80)
            small = vlib.Case(c.cid, schedlib.set_source(c.header, schedlib.list_source(sched)), c.ops)
            rr = R.run_impl([small], jobs=1)[small.cid]
            v2 = R.run_model([small], {small.cid: rr})[small.cid]
            what.append("trace validation C04_Model vs the real EventLoop broken: %s (%d of %d traces rejected); the oracle holds on all runs"
                        % (v2 if not v2.startswith("accepted") else v, len(corr_bad), len(all_cases)))
            body = small.text() + "".join("# " + l + "\n" for l in rr.lines[-40:])
        p = chk.write_replay("broken_obligation.txt", "\n".join("# " + w for w in what) + "\n" + body +
                             ("\n--- coq log tail ---\n" + pr["log"][-3000:] if not pr["ok"] else ""))
        chk.violation(p, "; ".join(what), no_input=True)
    return chk.finish(level="proof", assumptions=[
        "an eventfd is readable iff its counter is positive and read zeroes it; epoll/poll are level-triggered (3.4)",
        "sequential consistency per access of the plain flags (quit_, callingPendingFunctors_, looping_)",
        "the model is tied to the code by trace validation under a controlled scheduler (testing), not by a verified C++ semantics",
        "'as soon as the loop is free' in wall-clock terms (OS scheduling latency) is not a model notion: the theorems show that "
        "no time-out is ever needed"])
